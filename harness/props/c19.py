"""C19 - suite utilities preserve the test set (iterate_tests, filter_by_ids, sorted_tests, --list, --load-list).
Input  : [tree, ids]      tree = ['case', n] | [kind, child, ...]   kind in plain/custom/csort/cfilter
Trace  : [iter, filtered-shape, filtIter, sorted-shape|none, listed, loaded, sortFilt|none]   (see TTV/Drv/C19.lean)
"""
import io, itertools, os, sys, tempfile, types, unittest
from harness.core import Prop, some

KINDS = ['plain', 'custom', 'csort', 'cfilter']
#: 'fixture' = the real testtools.testsuite.FixtureSuite (a TestSuite subclass with sort_tests and without filter_by_ids): for the model it is
#: a `csort` suite - the token only selects the class the harness builds; shapes are reported with the model's name `csort`


def _classes():
    from testtools.testsuite import filter_by_ids, sorted_tests

    class Custom(unittest.TestSuite):
        pass

    class CustomSort(unittest.TestSuite):
        def sort_tests(self):
            self._tests = sorted_tests(self, True)._tests

    class CustomFilter(unittest.TestSuite):
        def filter_by_ids(self, ids):
            return CustomFilter([filter_by_ids(t, ids) for t in self])
    from testtools.testsuite import FixtureSuite

    class TrivialFixture:
        log = []        # (event, id of the fixture object), every instance, in order

        def setUp(self):
            TrivialFixture.log.append(('setUp', id(self)))

        def cleanUp(self):
            TrivialFixture.log.append(('cleanUp', id(self)))

    class Fixture(FixtureSuite):        # (only to supply the fixture argument; nothing is overridden)
        def __init__(self, tests=()):
            FixtureSuite.__init__(self, TrivialFixture(), tests)
    Fixture.fixture_log = TrivialFixture.log
    return {'plain': unittest.TestSuite, 'custom': Custom, 'csort': CustomSort, 'cfilter': CustomFilter, 'fixture': Fixture}


def tid(n):
    return 't%05d' % n


class C19(Prop):
    id = 'C19'
    budgets = {'quick': 3000, 'thorough': 5000}
    rule = ('random suite trees (depth 0-4, fan-out 0-4) over plain TestSuite / subclass / subclass with sort_tests (the harness\'s own and the real '
            'testtools FixtureSuite with a trivial fixture) / subclass with filter_by_ids / PlaceHolder cases, ids unique or duplicated, id subsets incl. absent ids; '
            'thorough adds every tree with <= 4 nodes x 3 id patterns x 4 id subsets and every tree with 5 nodes x 1 id pattern x 2 id subsets. Besides the modelled observations every case '
            'checks two independence requirements on the real objects (a dependence is reported as a trace outside the model\'s '
            'vocabulary, i.e. a failing input): (1) caller-owned results - a foreign test is added to every suite the first '
            'filter_by_ids call created (objects not present in the tree before), then an identical fresh tree is filtered again '
            'and must give the same shape; the suite sorted_tests returns is handed to filter_by_ids (modelled: clause sort-then-filter) and every suite in it '
            'must take another test (addTest); every suite other than a plain TestSuite and every test in what sorted_tests returns must BE one of the objects of the tree that went in, each once '
            '(the model compares class, tests and enclosing custom suite at every depth: clause sorted-whole, seed C19-f), and for trees with a FixtureSuite the sorted suite is run: '
            'every fixture is set up and cleaned up exactly once, none by the sorting itself; (2) route independence - --list and --load-list are repeated with the suite reaching '
            'TestProgram unwrapped through a module load_tests hook (bare test cases and suites with their own filter_by_ids as '
            'root included; the id file also with blank lines, CRLF line ends and blanks around the ids) and must list / run the same ids (done whenever the root is such an object and for a third of the other cases, for run time). '
            'non-trivial = at least 2 leaves and (a non-plain suite or a duplicate id or a nested suite); distinct = distinct '
            'input S-expression')
    assumptions = ['unittest.TestSuite iteration/_tests semantics and unittest.TestProgram argument parsing are modelled, not verified',
                   'the custom suites\' sort_tests / filter_by_ids are the documented idioms implemented in harness/props/c19.py',
                   'reading (audit/C19 V2): a custom suite is placed by the first test it yields BEFORE its own sort_tests runs; sorted_tests is not '
                   'idempotent on trees where such a suite was out of order',
                   'outside the stated domain (audit/C19 borderline list): TestSuite subclasses overriding __iter__ or keeping _tests in a tuple or having '
                   'an id() method; ids with the unittest.loader.ModuleImportFailure prefix (dropped by --list), with surrounding white space or '
                   'newlines (stripped / split by --load-list), an id list file starting with a BOM, non-ASCII ids on an ASCII stdout; loader.errors '
                   'left over from an earlier TestProgram in the same process; suites that have already been run',
                   'object identity / aliasing is not part of the model (trees are values; a suite is identified by its class and its tests, unique wherever sorted_tests answers): that the custom suites in a sorted result are the very objects that went in, that filter_by_ids hands out fresh suites and '
                   'that TestProgram uses the filtered suite however the suite was loaded are checked on the real objects only '
                   '(independence checks above) and, for the source text, by the translator tie C19_src_*',
                   'translator tie: harness/pysuite2lean.py reads iterate_tests, filter_by_ids, _flatten_tests, sorted_tests, the '
                   '--load-list block of TestProgram.__init__ and FixtureSuite.sort_tests as data; TTV.SuiteUtilSkel gives the data its meaning (trusted: that the '
                   'interpreter reads the recognised statement forms as Python does); unrecognised statements become .unknown']

    manifest = {
        'text': 'Theorems for all suite trees (any depth/fan-out/classes/ids) and id sets: iterate_tests = the case positions in document '
                'order, once each; filter_by_ids keeps exactly the chosen ids with order, classes and grouping unchanged; sorted_tests is a '
                'key-ordered permutation with plain suites flattened and custom suites whole AT EVERY DEPTH (also inside a suite that sorts itself, such as FixtureSuite: class, tests and enclosing custom suite of every non-plain suite unchanged), ValueError iff duplicate ids; --list/--load-list '
                'print/run exactly those. The hand-written model is tied to the code (a) by theorems C19_src_* proving that iterate / filterIds / '
                'flatten / sortedTests / the --load-list step / the children a self-sorting suite ends up with ARE the interpretation of the statement skeletons (incl. FixtureSuite.sort_tests) re-read from testsuite.py and run.py '
                'on every run, (b) by a differential check (random + bounded-exhaustive trees) that also requires the results to be independent of '
                'what the caller did to earlier results and of how the suite reached TestProgram.',
        'note': 'trusted: Lean kernel, the model TTV/Model/Suite.lean, the harness; unittest.TestSuite / TestProgram argument parsing modelled, '
                'not verified; custom suites implement sort_tests/filter_by_ids by the documented idioms',
        'technique': 'Lean 4 structural-induction proofs over a tree model (mutual recursion), executable spec shared with a differential correspondence check',
    }

    def __init__(self):
        self.K = None
        self.LOG = []
        # argparse asks for the terminal size for every option of every parser TestProgram builds (4 parsers per call, up to 4 calls a case):
        # with both variables set shutil.get_terminal_size answers without the system call (10 % of the run time; nothing under test)
        os.environ.setdefault('COLUMNS', '80')
        os.environ.setdefault('LINES', '24')

    def extract_tables(self, repo):
        """tie: iterate_tests / filter_by_ids / _flatten_tests / sorted_tests / the --load-list block, re-read from the tree"""
        from harness import pysuite2lean
        return {'TTV/Generated/SuiteSrc.lean': pysuite2lean.generate(repo)}

    def classes(self):
        if self.K is None:
            self.K = _classes()
            self.NAME = {v: ('csort' if k == 'fixture' else k) for k, v in self.K.items()}
            from testtools import PlaceHolder
            log = self.LOG

            class Rec(PlaceHolder):
                def run(self, result=None):
                    log.append(self.id())
                    return PlaceHolder.run(self, result)
            self.Rec = Rec
        return self.K

    # ----- implementation side
    def build(self, t):
        K = self.classes()
        if t[0] == 'case':
            return self.Rec(tid(t[1]))
        return K[t[0]]([self.build(c) for c in t[1:]])

    def shape(self, s):
        if isinstance(s, unittest.TestSuite):
            return [self.NAME.get(type(s), 'unknown-class')] + [self.shape(c) for c in s]
        return ['case', int(s.id()[1:])]

    def nums(self, it):
        return [int(t.id()[1:]) for t in it]

    def run_impl(self, inp):
        from testtools.testsuite import iterate_tests, filter_by_ids, sorted_tests
        from testtools.run import TestProgram
        tree, ids = inp
        self.classes()
        idset = {tid(n) for n in ids}
        try:
            it = self.nums(iterate_tests(self.build(tree)))
            src = self.build(tree)
            mine = set()

            def walk(x, fn):
                fn(x)
                if isinstance(x, unittest.TestSuite):
                    for y in list(x):
                        walk(y, fn)
            walk(src, lambda x: mine.add(id(x)))
            f = filter_by_ids(src, idset)
            fshape, fit = self.shape(f), self.nums(iterate_tests(f))
            # the suites filter_by_ids creates belong to the caller: adding tests to them must not show up in any later result
            foreign = self.build(['case', 99999])
            walk(f, lambda x: x.addTest(foreign) if isinstance(x, unittest.TestSuite) and id(x) not in mine else None)
            if self.shape(filter_by_ids(self.build(tree), idset)) != fshape:
                return ['raised', 'filter-result-depends-on-earlier-calls']
            # theorem C19_filter_twice on the implementation: filtering a filtered suite (placeholders included) is filtering once by
            # the intersection, in either order, and the same filter again changes nothing
            half = {tid(n) for n in ids if n % 2 == 0}
            hshape = self.shape(filter_by_ids(self.build(tree), half))
            if self.shape(filter_by_ids(filter_by_ids(self.build(tree), idset), idset)) != fshape \
                    or self.shape(filter_by_ids(filter_by_ids(self.build(tree), idset), half)) != hshape \
                    or self.shape(filter_by_ids(filter_by_ids(self.build(tree), half), idset)) != hshape:
                return ['raised', 'filter-twice-differs-from-filtering-by-the-intersection']
            try:
                src2 = self.build(tree)
                before = {}
                walk(src2, lambda x: before.setdefault(id(x), x))
                sorted_suite = sorted_tests(src2)
                srt = some(self.shape(sorted_suite))
            except ValueError:
                srt = None
            if srt is not None:
                # "kept whole" is about OBJECTS: every suite in the result other than plain TestSuites, and every test, is one of the
                # objects of the tree that went in (the model compares class + tests: clause sorted-whole), each once
                seen = []
                walk(sorted_suite, lambda x: seen.append(x) if type(x) is not unittest.TestSuite else None)
                if any(id(x) not in before for x in seen) or len({id(x) for x in seen}) != len(seen):
                    return ['raised', 'sorted-result-holds-objects-that-were-not-in-the-tree']
                if 'fixture' in str(tree):
                    # ... and a kept FixtureSuite still does its job: running the result sets every fixture up (and cleans it up) exactly once
                    # (seed C19-f: the inner suite dissolved, its fixture never set up)
                    K = self.classes()
                    fixtures = [x._fixture for x in before.values() if type(x) is K['fixture']]
                    del K['fixture'].fixture_log[:]
                    del self.LOG[:]
                    sorted_tests(self.build(tree))      # (sorting alone must not touch a fixture)
                    if K['fixture'].fixture_log:
                        return ['raised', 'sorting-used-a-fixture']
                    sorted_suite.run(unittest.TestResult())
                    flog = [(e, i) for e, i in K['fixture'].fixture_log if i in {id(f) for f in fixtures}]
                    if sorted(flog) != sorted([('setUp', id(f)) for f in fixtures] + [('cleanUp', id(f)) for f in fixtures]):
                        return ['raised', 'fixture-of-a-kept-suite-not-set-up-exactly-once']
                    sorted_suite = sorted_tests(self.build(tree))     # (a suite that has been run is used up)
            # what sorted_tests returns is handed to filter_by_ids (testtools.run discover --load-list composes them like that) ...
            sortfilt = None
            if srt is not None:
                sortfilt = some(self.nums(iterate_tests(filter_by_ids(sorted_tests(self.build(tree)), idset))))
                # ... and is a suite like any other: every suite in it takes another test
                walk(sorted_suite, lambda x: x.addTest(foreign) if isinstance(x, unittest.TestSuite) else None)
            # testtools.run --list / --load-list, in process
            root = self.build(tree if tree[0] != 'case' else ['plain', tree])
            mod = types.ModuleType('verif_c19_mod')
            mod.test_suite = lambda: root
            sys.modules['verif_c19_mod'] = mod
            out = io.StringIO()
            TestProgram(argv=['prog', '--list', 'verif_c19_mod.test_suite'], stdout=out, exit=False)
            listed = [int(l[1:]) for l in out.getvalue().split()]
            root2 = self.build(tree if tree[0] != 'case' else ['plain', tree])
            mod.test_suite = lambda: root2
            with tempfile.NamedTemporaryFile('w', suffix='.list', delete=False) as fh:
                fh.write(self.list_file_text(idset, ids))
            del self.LOG[:]
            try:
                TestProgram(argv=['prog', '--load-list', fh.name, 'verif_c19_mod.test_suite'], stdout=io.StringIO(), exit=False)
            finally:
                os.unlink(fh.name)
            loaded = [int(x[1:]) for x in self.LOG]
            # the same two commands with the suite reaching TestProgram unwrapped (a module whose load_tests hook returns it, no
            # test names on the command line) must list and run the same tests - also when the root is a bare test or a suite
            # whose own filter_by_ids returns a new suite
            for flag in (('--list', '--load-list') if self.unwrapped_route(inp) else ()):
                root3 = self.build(tree)
                mod2 = types.ModuleType('verif_c19_mod2')
                mod2.load_tests = lambda loader, tests, pattern, _r=root3: _r
                with tempfile.NamedTemporaryFile('w', suffix='.list', delete=False) as fh:
                    fh.write(self.list_file_text(idset, ids))
                out = io.StringIO()
                del self.LOG[:]
                try:
                    TestProgram(module=mod2, argv=['prog', '--list'] if flag == '--list' else ['prog', '--load-list', fh.name],
                                stdout=out, exit=False)
                finally:
                    os.unlink(fh.name)
                if flag == '--list' and sorted(int(l[1:]) for l in out.getvalue().split()) != sorted(listed):
                    return ['raised', 'list-depends-on-how-the-suite-reaches-TestProgram']
                if flag == '--load-list' and sorted(int(x[1:]) for x in self.LOG) != sorted(loaded):
                    return ['raised', 'load-list-depends-on-how-the-suite-reaches-TestProgram']
            return [it, fshape, fit, srt, listed, loaded, sortfilt]
        except Exception as e:
            return ['raised', type(e).__name__]

    def list_file_text(self, idset, ids):
        """the --load-list file: one id per line; depending on the input also a blank line, CRLF line ends and blanks around an id, and no terminator after the last line (ids are
        stripped by TestProgram; a blank line names the id '' which no generated test has) - none of this may change what is run"""
        lines = sorted(idset)
        style = (len(ids) * 3 + sum(ids)) % 4
        # half of the files do not end with a line terminator (written with '\n'.join(ids): the same id subset)
        unterminated = (len(ids) + 2 * sum(ids)) % 2 == 1
        if style == 1:
            lines = [''] + lines + ['']
        if style == 2:
            text = ''.join('  ' + x + ' \r\n' for x in lines)
            return text[:-2] if unterminated and lines else text
        if style == 3:
            lines = lines + ['   ']
        text = ''.join(x + '\n' for x in lines)
        return text[:-1] if unterminated and lines else text

    def unwrapped_route(self, inp):
        """is the second TestProgram route exercised for this input?  Always when the root is a bare test case or a suite with its
        own filter_by_ids (the roots for which filter_by_ids returns a NEW object), for a third of the other cases (run time)"""
        tree, ids = inp
        return tree[0] in ('case', 'cfilter') or (len(ids) + sum(ids)) % 3 == 0

    # ----- generators
    def gen_tree(self, rng, depth, ids):
        if depth == 0 or rng.random() < 0.35:
            return ['case', ids()]
        k = rng.choice(['plain', 'plain', 'custom', 'csort', 'cfilter', 'fixture'])
        return [k] + [self.gen_tree(rng, depth - 1, ids) for _ in range(rng.choice([0, 1, 2, 2, 3, 4]))]

    def gen(self, rng, tier):
        mode = rng.random()
        counter = itertools.count()
        pool = rng.choice([4, 8, 40])
        if mode < 0.65:   # unique ids in random order
            perm = list(range(60))
            rng.shuffle(perm)
            ids = lambda: perm[next(counter) % 60] if True else 0
        else:             # duplicates likely
            ids = lambda: rng.randrange(pool)
        tree = self.gen_tree(rng, rng.choice([0, 1, 2, 2, 3, 3, 4, 4]), ids)
        if tree[0] == 'case' and rng.random() < 0.9:
            tree = [rng.choice(['plain', 'plain', 'custom', 'csort', 'cfilter', 'fixture']), tree] + [self.gen_tree(rng, rng.randint(0, 3), ids) for _ in range(rng.randint(0, 3))]
        leaves = self.leaves(tree)
        universe = sorted(set(leaves)) + [100, 101]
        sel = [x for x in universe if rng.random() < rng.choice([0.0, 0.3, 0.5, 0.9, 1.0])]
        return [tree, sel]

    def leaves(self, t):
        return [t[1]] if t[0] == 'case' else [x for c in t[1:] for x in self.leaves(c)]

    def shapes(self, n):
        """all trees with exactly n nodes; cases carry a placeholder id"""
        if n == 1:
            yield ['case', None]
        for k in KINDS:
            for forest in self.forests(n - 1):
                yield [k] + forest

    def forests(self, n):
        if n == 0:
            yield []
            return
        for first in range(1, n + 1):
            for t in self.shapes(first):
                for rest in self.forests(n - first):
                    yield [t] + rest

    def assign(self, t, it):
        if t[0] == 'case':
            return ['case', next(it)]
        return [t[0]] + [self.assign(c, it) for c in t[1:]]

    def enumerate(self, tier):
        for n in range(1, 6):
            for sh in self.shapes(n):
                nl = len(self.leaves(sh))
                pats = [list(range(nl, 0, -1)), list(range(1, nl + 1))]
                if nl >= 2:
                    pats.append([1, 1] + list(range(2, nl)))
                for pat in pats[: (1 if nl == 0 or n == 5 else 3)]:      # (5 nodes: one id pattern, two id subsets - run time)
                    tree = self.assign(sh, iter(pat))
                    sels = ([], sorted(set(pat)), [x for x in sorted(set(pat)) if x % 2 == 0], pat[:1] + [100])
                    for j, sel in enumerate(sels[2:] if n == 5 else sels):
                        # every second case realises the sort_tests suites by the real FixtureSuite instead of the harness's own class
                        yield [self.as_fixture(tree) if j % 2 else tree, sel]

    def as_fixture(self, t):
        return t if t[0] == 'case' else [('fixture' if t[0] == 'csort' else t[0])] + [self.as_fixture(c) for c in t[1:]]

    def nontrivial(self, inp, trace):
        tree = inp[0]
        ls = self.leaves(tree)
        s = str(tree)
        return len(ls) >= 2 and (len(set(ls)) != len(ls) or 'custom' in s or 'csort' in s or 'cfilter' in s or 'fixture' in s or s.count('plain') > 1)

    def features(self, inp, trace):
        tree, ids = inp
        ls = self.leaves(tree)
        f = ['leaves=%s' % (len(ls) if len(ls) < 6 else '6+'), 'dup' if len(set(ls)) != len(ls) else 'unique',
             'ids=' + ('none' if not ids else 'all' if set(ls) <= set(ids) else 'some')]
        for k in KINDS + ['fixture']:
            if ("'%s'" % k) in str(tree):
                f.append('kind:' + k)
        if trace and trace[0] == 'raised':
            f.append('raised:' + trace[1])
        else:
            f.append('caller-owned-check')
            if self.unwrapped_route(inp):
                f.append('unwrapped-route-check' + (':bare-case-root' if tree[0] == 'case' else ':cfilter-root' if tree[0] == 'cfilter' else ''))
        return f

    def shrink(self, inp):
        tree, ids = inp
        for t in self.shrink_tree(tree):
            yield [t, ids]
        for i in range(len(ids)):
            yield [tree, ids[:i] + ids[i + 1:]]

    def shrink_tree(self, t):
        if t[0] == 'case':
            return
        for i in range(1, len(t)):
            yield t[:i] + t[i + 1:]          # drop a child
            yield t[i]                       # hoist a child
            for c in self.shrink_tree(t[i]):
                yield t[:i] + [c] + t[i + 1:]
        if t[0] != 'plain':
            yield ['plain'] + t[1:]


PROP = C19()
