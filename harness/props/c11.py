"""C11 - stream decorators forward each event once, change only their field, never alias
(CopyStreamResult, StreamTagger, TimestampingStreamResult, StreamFailFast, StreamToQueue).
Input : [tree, objs, calls]
        tree  = 'sink' | 'failfast' | ['copy', t...] | ['tagger', [add], [discard], t...] | ['stamp', t] | ['queue', code-chars, t]
        objs  = [[frozen, [tag numbers]], ...]   the caller's set / frozenset objects
        calls = 'start' | 'stop' | ['status', event]   (the event's tags field is an index into objs)
Trace : [leaf logs (left to right), caller-side (before, after) snapshots per status call, caller objects at the end]
"""
import itertools
from harness.core import Prop
from harness.props import _stream as S

#: None and every member of the code's STATES table (S.extract_tables checks that the table has no member this list lacks)
STATUSES = [None, 'inprogress', 'success', 'fail', 'uxsuccess', 'skip', 'xfail', 'exists', 'unknown']


def ev(tid=None, status=None, tags=None, runnable=True, fname=None, fbytes=None, eof=False, mime=None, route=None, ts=None):
    return [S.opt(tid), S.opt(status), S.opt(tags), runnable, S.opt(fname), S.opt(fbytes), eof, S.opt(mime),
            None if route is None else ['some', [ord(c) for c in route]], S.opt(ts)]


class ForwardQueue:
    """the queue.Queue handed to StreamToQueue: every event put is dispatched to the inner result at once"""

    def __init__(self, inner):
        self.inner = inner

    def put(self, d):
        d = dict(d)
        kind = d.pop('event')
        if kind == 'status':
            self.inner.status(**d)
        elif kind in ('startTestRun', 'stopTestRun'):
            d.pop('result')
            getattr(self.inner, kind)()
        else:
            raise AssertionError('unknown queue event %r' % kind)


PARAMS = ['test_id', 'test_status', 'test_tags', 'runnable', 'file_name', 'file_bytes', 'eof', 'mime_type', 'route_code', 'timestamp']


class C11(Prop):
    id = 'C11'
    budgets = {'quick': 3000, 'thorough': 40000}
    time_limit = {'quick': 60, 'thorough': 600}
    rule = ('random decorator trees of depth 1-3, fan-out 1-3 over recording sinks and StreamFailFast leaves (copy / tagger with add+discard '
            'sets over 4 tags / timestamper / StreamToQueue with code "0","1","ab" or the empty code drained into its inner result); 0-3 caller tag objects '
            '(set or frozenset, possibly empty, re-used by several calls); call scripts startTestRun, 0-5 status (all ten fields varied; test_status = None or any member of the code\'s STATES table incl. unknown; test ids, route codes '
            'and file names incl. the empty string; 30% with one event sent twice), '
            'stopTestRun, 15% in unusual order. thorough adds every tree with <= 2 inner nodes on a path and fan-out <= 2 (taggers that add, discard everything, or do nothing) over a fixed '
            '7-call script (tags None, non-empty, empty) and over a script with one event per status (None and every member of STATES, incl. unknown). non-trivial = at least one status call and (>= 2 leaves or a field-owning decorator on some path); '
            'distinct = distinct input S-expression')
    assumptions = ['translator tie (harness/pystream.py): TimestampingStreamResult.status and StreamToQueue.route_code are symbolically executed; the queue dict, the status signatures, CopyStreamResult and StreamFailFast.status are matched on every run; trusted: the translator and the reading of the recognised forms by TTV/Model/DecoSrc.lean (_strict_map(methodcaller(...)) = call every target in order = the plain for loop); trusted normalisations before comparing: `timestamp or now` = `now if timestamp is None` (a datetime is never false), the timestamp written back into kwargs instead of popped and passed by keyword, a + "/" + b = "/".join((a, b)) = f"{a}/{b}" for str, dict(...) = dict literal with the key order immaterial, the adjusted route code / the dict bound to a local first, `in (…)` = `==`/`or` chain = early return on `not in` for StreamFailFast - the order of super() and the targets is asserted as written',
                   'datetime.now(utc) is an oracle value: canonicalised to `now` after checking it is tz-aware UTC and inside the run window',
                   'Python set/frozenset object identity and mutation are modelled by a heap of tag lists; the queue handed to StreamToQueue dispatches each event to the inner result synchronously',
                   'status() is called with the first k parameters positional (k varies with the input) and the rest by keyword, except that the field a `*args, **kwargs` decorator owns is always passed by keyword (StreamTagger: test_tags, TimestampingStreamResult: timestamp - passing those positionally through them raises TypeError in the unchanged code: outside the generated domain; audit/C11 v1 reads the property over every calling convention: recorded as an interpretation, not repaired)',
                   'INTERPRETATION pinned by the suite (audit/C11 v2 read the prose the other way): StreamTagger.status forwards `test_tags or None`, so an EMPTY resulting tag set - an empty set supplied to a tagger with nothing to do, or every supplied tag discarded - reaches the targets as None; TestStreamTagger.test_discarding asserts exactly that, so it is intended behaviour and not repaired. Downstream None means "no tag information": a consumer behind a tagger (_update_case: `if test_tags is not None`) keeps the PREVIOUS tags of the test where it would have recorded the empty set; the model keeps None and the empty set apart everywhere else',
                   'INTERPRETATIONS (audit/C11 borderline list, modelled from the code): the set a StreamTagger builds is ONE object handed to all its targets, CopyStreamResult / StreamToQueue hand the caller\'s own object on - observable only by a target that writes to what it receives (the recording sinks do not; clause no-late-write checks that nobody else does); a raising target ends the fan-out; `targets` is kept by reference']

    manifest = {
        'text': 'Theorems for every decorator tree (any depth and fan-out of CopyStreamResult / StreamTagger / TimestampingStreamResult / StreamToQueue over '
                'sinks and StreamFailFast leaves), every heap of caller tag-set objects and every call sequence: each sink receives each startTestRun / stopTestRun / '
                'status exactly once, in order, and the status it receives is the composition along its own path of: tags (t | add) - discard (None when that is empty - pinned by the suite, see assumptions), timestamp '
                'filled iff missing, route code prefixed - every other field unchanged, independent of siblings; StreamFailFast fires exactly for fail and uxsuccess; '
                'no object of the caller is written (the heap only grows) and what a sink holds at the end is what it received. The hand-written model is tied to the '
                'code by a differential check with receipt-time and end-of-run snapshots and object identities.',
        'note': 'trusted: Lean kernel, the model TTV/Model/StreamDeco.lean (heap of tag sets), the harness; datetime.now modelled as the token `now`; the field a decorator owns is always passed by keyword',
        'technique': 'Lean 4 structural induction over decorator trees (mutual recursion) with a heap-monotonicity invariant; executable path specification shared with a differential correspondence check',
    }

    def extract_tables(self, repo):
        from harness.pyset2lean import translate
        out = dict(S.extract_tables(repo))
        out['TTV/Generated/C11.lean'] = translate(repo)['TTV/Generated/C11.lean']   # StreamTagger's set arithmetic, translated from the source
        from harness import pystream
        out.update(pystream.generate_deco(repo))        # the other decorators' decision logic, translated from the source
        return out

    # ----- implementation side
    def build(self, t, leaves, ctx):
        from testtools import CopyStreamResult, StreamTagger, TimestampingStreamResult, StreamFailFast, StreamToQueue
        if t == 'sink':
            log = []
            leaves.append(log)
            return _Sink(log, ctx)
        if t == 'failfast':
            log = []
            leaves.append(log)
            return StreamFailFast(lambda: log.append(['fired', ctx['call']]))
        if t[0] == 'copy':
            return CopyStreamResult(self.targets([self.build(c, leaves, ctx) for c in t[1:]], ctx))
        if t[0] == 'tagger':
            add, dis = t[1], t[2]
            kids = [self.build(c, leaves, ctx) for c in t[3:]]
            return StreamTagger(self.targets(kids, ctx), add=self.tag_arg(add, ctx), discard=self.tag_arg(dis, ctx))
        if t[0] == 'stamp':
            return TimestampingStreamResult(self.build(t[1], leaves, ctx))
        if t[0] == 'queue':
            return StreamToQueue(ForwardQueue(self.build(t[2], leaves, ctx)), ''.join(chr(c) for c in t[1]))
        raise ValueError(t)

    #: a decorator behaves by the VALUE its constructor arguments had at construction.  How the arguments are handed over is a
    #: realisation detail of the input: the kind cycles per argument, mutable ones are changed after construction and between events
    KINDS = ['scratch', 'set', 'list', 'frozenset', 'generator', 'tuple', 'scratch', 'list']
    #: CopyStreamResult / StreamTagger used to keep the caller's `targets` LIST by reference (`self.targets = targets`): a list that
    #: was changed afterwards changed the decorator (repaired in /repo, see KNOWN_FINDINGS.txt); the realisation is always generated
    MUTATE_TARGETS = True

    def tag_arg(self, ns, ctx):
        """the `add` / `discard` argument of a StreamTagger for the tags `ns`"""
        if not ns and ctx['arg'] % 3:
            ctx['arg'] += 1
            return None
        kind = self.KINDS[(ctx['arg'] + ctx['salt']) % len(self.KINDS)]
        ctx['arg'] += 1
        tags = [S.tag(n) for n in ns]
        if kind == 'scratch':
            # a builder that re-uses ONE scratch set for all the taggers it makes
            ctx['scratch'].clear()
            ctx['scratch'].update(tags)
            return ctx['scratch']
        if kind == 'set':
            v = set(tags)
            ctx['mutables'].append(v)
            return v
        if kind == 'list':
            v = list(tags)
            ctx['mutables'].append(v)
            return v
        if kind == 'frozenset':
            return frozenset(tags)
        if kind == 'tuple':
            return tuple(tags)
        return (t for t in tags)          # a one-shot iterator

    def targets(self, kids, ctx):
        kind = (ctx['arg'] + ctx['salt']) % 3
        ctx['arg'] += 1
        if kind == 0:
            return tuple(kids)
        if self.MUTATE_TARGETS and kind == 1:
            ctx['target_lists'].append(kids)
        return kids

    def disturb(self, ctx):
        """the caller goes on using the objects it passed to the constructors"""
        ctx['round'] += 1
        junk = S.tag(3 if ctx['round'] % 2 else 0)
        for v in ctx['mutables'] + [ctx['scratch']]:
            if isinstance(v, set):
                v.clear()
                v.add(junk)
            else:
                del v[:]
                v.append(junk)
        for l in ctx['target_lists']:
            del l[:]

    def run_impl(self, inp):
        tree, objs, calls = inp
        try:
            clock = S.Clock()
            objects = [S.tagset(es, frozen) for frozen, es in objs]
            ctx = {'call': 0, 'clock': clock, 'objects': objects, 'arg': 0, 'salt': len(calls) + len(objs), 'scratch': set(),
                   'mutables': [], 'target_lists': [], 'round': 0}
            leaves = []
            root = self.build(tree, leaves, ctx)
            caller = []
            for n, c in enumerate(calls):
                self.disturb(ctx)          # between construction and the first call, and between calls
                ctx['call'] = n
                if c == 'start':
                    root.startTestRun()
                elif c == 'stop':
                    root.stopTestRun()
                else:
                    e = c[1]
                    kw = S.event_kwargs(e[:2] + [None] + e[3:])
                    obj = None if e[2] is None else objects[e[2][1]]
                    kw['test_tags'] = obj
                    before = None if obj is None else ['some', S.un_tags(obj)]
                    # the calling convention varies with the input: the first k parameters positionally, in the order of
                    # StreamResult.status (a tree with a StreamTagger forwards *args next to its own test_tags keyword, so at
                    # most the two leading parameters can be positional there)
                    k = (n * 7 + len(calls) * 3 + len(str(e))) % 11
                    if 'tagger' in str(tree):
                        k = min(k, 2)
                    if 'stamp' in str(tree):
                        k = min(k, 9)      # likewise TimestampingStreamResult only looks at the `timestamp` keyword
                    pos = [kw.pop(name) for name in PARAMS[:k]]
                    root.status(*pos, **kw)
                    caller.append([before, None if obj is None else ['some', S.un_tags(obj)]])
            out = []
            for log in leaves:
                l = []
                for x in log:
                    if isinstance(x, list) and x[0] == 'status':
                        l.append(['status', x[1], x[2], None if x[3] is None else ['some', S.un_tags(x[3])]])
                    else:
                        l.append(x)
                out.append(l)
            return [out, caller, [S.un_tags(o) for o in objects]]
        except Exception as e:
            return ['raised', type(e).__name__]

    # ----- generators
    def gen_tree(self, rng, depth, root=False):
        if depth == 0 or (not root and rng.random() < 0.2):
            return 'failfast' if rng.random() < 0.15 else 'sink'
        k = rng.choice(['copy', 'copy', 'tagger', 'tagger', 'stamp', 'queue'])
        if k == 'copy':
            return ['copy'] + [self.gen_tree(rng, depth - 1) for _ in range(rng.choice([1, 2, 2, 3]))]
        if k == 'tagger':
            add = sorted(rng.sample([0, 1, 2, 3], rng.choice([0, 1, 1, 2])))
            dis = sorted(rng.sample([0, 1, 2, 3], rng.choice([0, 1, 1, 2, 4])))
            return ['tagger', add, dis] + [self.gen_tree(rng, depth - 1) for _ in range(rng.choice([0, 1, 1, 1, 2, 2, 2, 3, 3]))]
        if k == 'stamp':
            return ['stamp', self.gen_tree(rng, depth - 1)]
        return ['queue', [ord(c) for c in rng.choice(['0', '1', 'ab', 'ab', ''])], self.gen_tree(rng, depth - 1)]        # '': falsy but a legal routing code

    def gen_event(self, rng, nobj):
        tags = None if nobj == 0 or rng.random() < 0.3 else rng.randrange(nobj)
        fname = rng.choice([None, None, 2, 4, 5])          # 5: the empty file name
        return ev(rng.choice([None, 0, 1, S.EMPTY_ID]), rng.choice(STATUSES + ['fail', 'uxsuccess']), tags, rng.random() < 0.8, fname,
                  None if fname is None and rng.random() < 0.9 else rng.choice([[], [65], [0, 255]]), rng.random() < 0.3,
                  rng.choice([None, 0, 1, 2, 12]), rng.choice([None, None, 'r', 'r/s', '0', '']), rng.choice([None, None, 1, 5]))

    def gen(self, rng, tier):
        tree = self.gen_tree(rng, rng.choice([1, 2, 2, 3, 3]), root=True)
        nobj = rng.choice([0, 1, 2, 2, 3])
        objs = [[rng.random() < 0.4, sorted(rng.sample([0, 1, 2, 3], rng.choice([0, 1, 2, 2, 3])))] for _ in range(nobj)]
        status = [['status', self.gen_event(rng, nobj)] for _ in range(rng.choice([0, 1, 2, 3, 4, 5]))]
        if status and rng.random() < 0.3:
            # the very same event (same caller objects, same timestamp) once more
            status.insert(rng.randrange(len(status) + 1), list(rng.choice(status)))
        calls = ['start'] + status + ['stop']
        if rng.random() < 0.15:
            calls = calls + rng.choice([[], ['start'], ['stop'], ['start'] + status[:1] + ['stop']])
            if rng.random() < 0.5:
                rng.shuffle(calls)
        return [tree, objs, calls]

    def small_trees(self, depth):
        yield 'sink'
        yield 'failfast'
        if depth == 0:
            return
        subs = list(self.small_trees(depth - 1))
        for a in subs:
            yield ['stamp', a]
            yield ['queue', [48], a]
            yield ['copy', a]
            yield ['tagger', [1], [0], a]
            yield ['tagger', [], [0, 1], a]
            yield ['tagger', [], [], a]                 # nothing to do: the identity - except that an empty tag set goes on as None
        for a in subs:
            for b in subs:
                yield ['copy', a, b]
                yield ['tagger', [2], [], a, b]

    def enumerate(self, tier):
        objs = [[False, [0]], [True, [0, 1]], [True, []]]
        calls = ['start', ['status', ev(0, 'inprogress', 0, ts=1)], ['status', ev(0, 'fail', 1, route='r')],
                 ['status', ev(1, 'success', None, fname=2, fbytes=[65])], ['status', ev(0, 'uxsuccess', 0)],
                 ['status', ev(1, 'success', 2)], 'stop']           # the last one carries an empty frozenset: not None
        # one event per member of the status table (None and all of STATES), tags cycling None / set / frozenset
        every = ['start'] + [['status', ev(k % 2, st, [None, 0, 1][k % 3], ts=k)] for k, st in enumerate(STATUSES)] + ['stop']
        for t in self.small_trees(2):
            yield [t, objs, calls]
            yield [t, objs, every]

    # ----- evidence
    def walk(self, t, depth=0):
        if isinstance(t, str):
            yield (t, depth)
            return
        yield (t[0], depth)
        kids = t[3:] if t[0] == 'tagger' else t[2:] if t[0] == 'queue' else t[1:]
        for c in kids:
            yield from self.walk(c, depth + 1)

    def nontrivial(self, inp, trace):
        tree, objs, calls = inp
        nodes = list(self.walk(tree))
        leaves = [n for n in nodes if n[0] in ('sink', 'failfast')]
        return any(isinstance(c, list) for c in calls) and (len(leaves) >= 2 or any(n[0] in ('tagger', 'stamp', 'queue') for n in nodes))

    def features(self, inp, trace):
        tree, objs, calls = inp
        nodes = list(self.walk(tree))
        leaves = [n for n in nodes if n[0] in ('sink', 'failfast')]
        f = {'depth=%d' % max(d for _, d in nodes), 'leaves=%s' % (len(leaves) if len(leaves) < 5 else '5+'),
             'status-calls=%d' % sum(isinstance(c, list) for c in calls)}
        f |= {'node:' + k for k, _ in nodes}
        for c in calls:
            if isinstance(c, list):
                e = c[1]
                if e[2] is None:
                    f.add('tags:None')
                else:
                    frozen, es = objs[e[2][1]]
                    f.add('tags:' + ('frozenset' if frozen else 'set') + ('-empty' if not es else ''))
                f.add('timestamp:' + ('given' if e[9] is not None else 'missing'))
                f.add('route:' + ('None' if e[8] is None else 'given'))
                if e[1] is not None and e[1][1] in ('fail', 'uxsuccess'):
                    f.add('failfast-trigger')
        used = [c[1][2][1] for c in calls if isinstance(c, list) and c[1][2] is not None]
        if len(used) != len(set(used)):
            f.add('object-reused-across-calls')
        if calls[:1] != ['start'] or calls[-1:] != ['stop'] or calls.count('start') != 1:
            f.add('unusual-call-order')
        if trace and trace[0] == 'raised':
            f.add('raised:' + trace[1])
        return sorted(f)

    def shrink(self, inp):
        tree, objs, calls = inp
        for i in range(len(calls)):
            yield [tree, objs, calls[:i] + calls[i + 1:]]
        for t in self.shrink_tree(tree):
            yield [t, objs, calls]
        for i, c in enumerate(calls):
            if isinstance(c, list):
                e = c[1]
                for pos in (2, 4, 5, 7, 8, 9, 0, 1):
                    if e[pos] is not None:
                        yield [tree, objs, calls[:i] + [['status', e[:pos] + [None] + e[pos + 1:]]] + calls[i + 1:]]

    def shrink_tree(self, t):
        if isinstance(t, str):
            return
        first = 3 if t[0] == 'tagger' else 2 if t[0] == 'queue' else 1
        for i in range(first, len(t)):
            yield t[i]
            if t[0] in ('copy', 'tagger'):
                yield t[:i] + t[i + 1:]
            for c in self.shrink_tree(t[i]):
                yield t[:i] + [c] + t[i + 1:]


class _Sink:
    """recording StreamResult: logs the received arguments, the tags value at receipt, which object it was, and keeps the
    object itself for the end-of-run snapshot"""

    def __init__(self, log, ctx):
        self.log, self.ctx = log, ctx

    def startTestRun(self):
        self.log.append('start')

    def stopTestRun(self):
        self.log.append('stop')

    def status(self, test_id=None, test_status=None, test_tags=None, runnable=True, file_name=None, file_bytes=None,
               eof=False, mime_type=None, route_code=None, timestamp=None):
        ident = None
        if test_tags is not None:
            ks = [k for k, o in enumerate(self.ctx['objects']) if o is test_tags]
            ident = ['some', ['caller', ks[0]] if ks else 'fresh']
        self.log.append(['status', S.canon_event(self.ctx['clock'], test_id, test_status, test_tags, runnable, file_name,
                                                  file_bytes, eof, mime_type, route_code, timestamp), ident, test_tags])


PROP = C11()
