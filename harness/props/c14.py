"""C14 - Deferred-returning tests under AsynchronousDeferredRunTest(ForBrokenTwisted) on the virtual-time reactor.

Input : [timeout, [stop instant, ...], broken, suppress, store, nObs, setUp, body, tearDown] (+ ['real'] = on the real reactor)
  stage      = [[cleanup stage, ...], [side, ...], beh]    (the cleanups it registers at its start, in order; any depth)
  side       = ['junk', d] | 'logerr' | ['logerr', route] | 'dropfailed' | 'flush' | 'expect'
               route = err (twisted.python.log.err, as plain 'logerr') | failure (twisted.logger.Logger().failure) | error (Logger().error with
               log_failure=) | reactor (the call by which the reactor logs an exception raised by a delayed call)
  beh        = 'ret' | ['ret', v] | ['same', k] | ['raise', k] | ['fire', d] | ['fire', d, v] | ['faild', d, k] | 'never'
               ['same', k]: the stage returns the very Deferred object that the k-th stage started in this run returned
               v = a value token of harness/props/c15.py (objects with a hostile ==, falsy values; no v = None): what the stage returns /
               its Deferred fires with.  The model never looks at it.
  k          = err | fail | skip | ki (KeyboardInterrupt) | exit (SystemExit) | genexit (GeneratorExit), each also as k-nobool / k-nolen:
               the exception INSTANCE is falsy (a subclass whose __bool__ returns False / whose __len__ returns 0 - an "empty aggregate"
               exception).  The model never looks at it.
Trace : [events, stopRequested, raised, [[name, time, observers], ...], [live, ...], leftover, pending, obsRestored, realStops, finalTime]
(see TTV/Drv/C14.lean).  The interrupts are `reactor.stop()` calls scheduled before `case.run(result)`.
"""
import gc, itertools
from harness.core import Prop
from harness.props.c15 import VALUES, VALUE_NAMES, value_of      # the value tokens: objects with a hostile ==, falsy values

EXC = ['err', 'fail', 'skip']
UNCLAIMED = ['ki', 'exit', 'genexit']                       # KeyboardInterrupt, SystemExit, GeneratorExit
TRUTH = ['', '-nobool', '-nolen']                           # suffix of k: the truth value of the exception instance (seed C14-h)
_FALSY = {}


def base_of(k):
    return k.partition('-')[0]


def falsy(cls, truth):
    """the subclass of `cls` whose instances are falsy: by __bool__ ('-nobool') or by __len__ ('-nolen')"""
    if not truth:
        return cls
    if (cls, truth) not in _FALSY:
        how = {'__bool__': lambda self: False} if truth == '-nobool' else {'__len__': lambda self: 0}
        _FALSY[cls, truth] = type(cls.__name__ + {'-nobool': 'NoBool', '-nolen': 'Empty'}[truth], (cls,), how)
    return _FALSY[cls, truth]
CLEANUP_KW = ['f', None, 'fn', 'function', 'self', 'args', 'kwargs', 'x']   # names of the keyword argument of a cleanup (None: none)


def cleanup_kws(n, T):
    """the names of the keyword arguments of cleanup number n of a run with timeout T: none, or one of the fixed names above (the floor)
    plus one of the further names of harness/kwnames.py - the parameter names, read with inspect from the tree under test, of every
    function a cleanup's arguments travel through (addCleanup, _run_cleanups, the runners' _run_user, maybeDeferred, _got_user_exception,
    _got_user_failure): a renamed parameter on that path is followed"""
    from harness import kwnames
    i = n + T
    floor = CLEANUP_KW[i % len(CLEANUP_KW)]
    if floor is None:
        return []
    more = [k for k in kwnames.names() if k not in CLEANUP_KW]
    used = sum(CLEANUP_KW[j % len(CLEANUP_KW)] is not None for j in range(i))        # every further name gets its turn
    return [floor] + ([more[used % len(more)]] if more else [])
REAL_UNIT = 0.04                                            # seconds per time unit in the real-reactor scenarios


class Sink:
    """a result double recording the event names"""

    def __init__(self):
        self.ev = []
        self.stopped = False

    def startTest(self, t):
        self.ev.append('startTest')

    def stopTest(self, t):
        self.ev.append('stopTest')

    def stop(self):
        self.stopped = True

    def addSuccess(self, t, details=None):
        self.ev.append('success')

    def addError(self, t, err=None, details=None):
        self.ev.append('error')

    def addFailure(self, t, err=None, details=None):
        self.ev.append('failure')

    def addSkip(self, t, reason=None, details=None):
        self.ev.append('skip')

    def addExpectedFailure(self, t, err=None, details=None):
        self.ev.append('other-xfail')

    def addUnexpectedSuccess(self, t, details=None):
        self.ev.append('other-uxsuccess')


class C14(Prop):
    id = 'C14'
    budgets = {'quick': 8000, 'thorough': 120000}
    time_limit = {'quick': 40, 'thorough': 600}
    rule = ('test programs setUp / test / tearDown, each registering 0-2 cleanups which themselves register cleanups (nesting depth up to 3), '
            'every stage with 0-2 side effects (leave a delayed call, log an error, drop a failed Deferred, flush_logged_errors, failing '
            'expectThat) and a behaviour (return, raise error/failure/skip/KeyboardInterrupt/SystemExit, Deferred firing or failing with one '
            'of these after 0-4, never); timeout 0-9 and 0-2 reactor.stop() requests at instants 0-9 so that stages finishing exactly at the '
            'timeout / at an interrupt are frequent; both runner variants, suppress_twisted_logging and store_twisted_logs on/off, 0-2 '
            'pre-installed log observers; 63% of the programs are drawn "mostly clean" (half of those with exactly one flaw), 10% are '
            'zero-delay hop chains (several Deferreds firing at one instant in successive reactor iterations, with the timeout and/or a stop '
            'request at that instant, 60% broken-Twisted variant). thorough adds all programs over 7 behaviours per main stage x (no cleanup '
            '| one cleanup with 7 behaviours) x 3 timeouts, 5^5 x 2 programs with a cleanup registered by a cleanup and unclaimed '
            'exceptions, and scenarios on the REAL Twisted reactor (feature reactor:real; five of them also in quick). non-trivial = at '
            'least one stage returns a Deferred or has a side effect; distinct = distinct input S-expression')
    assumptions = [
        'translator tie: harness/pyasync2lean.py re-reads _run_deferred (callback chain and nested functions), _run_cleanups, _run_user, '
        '_log_user_exception, _blocking_run_deferred, _run_core, the broken-Twisted iteration count, flush_logged_errors, assert_fails_with '
        'and _ErrorObserver._setUp as data; TTV.AsyncSkel resolves the chain into a decision tree and runs it over the model\'s primitives, '
        'C14_src_* prove the model\'s chain and accounting are that interpretation (addCallback vs addBoth is in the data but not in the '
        'interpretation: the Deferreds of _run_user never fail); the Spinner side is C15\'s tie (C14_src_iterations uses its iteration '
        'count); trusted: the recognisers and that the interpreters read the forms as Python / Twisted do',
        'the route by which an error reaches Twisted\'s log is part of the side-effect alphabet: twisted.python.log.err, '
        'twisted.logger.Logger().failure, Logger().error with log_failure=, and the reactor\'s own call for an exception raised by a delayed '
        'call (emitted synchronously by the stage with the reactor\'s namespace and format; a delayed call that actually raises is not '
        'generated: harness/vreactor.py has an exception barrier, it does not log); the model does not distinguish routes; every quick run '
        'covers route x store_twisted_logs x suppress_twisted_logging x runner variant x stage',
        'every exception kind (err, fail, skip, KeyboardInterrupt, SystemExit, GeneratorExit) also comes as a subclass whose INSTANCE is '
        'falsy - by __bool__ returning False (k-nobool) and by __len__ returning 0 (k-nolen), an "empty aggregate" exception - raised by a '
        'stage, failing an already-failed Deferred or one that fails later, in every stage incl. cleanups registered by cleanups (seed '
        'C14-h: `if last_exception:` in clean_up_done); the decoder maps them to the same Exc as the truthy instance: the model never looks',
        'cleanups are registered with positional and keyword arguments: none, or one whose name cycles (by registration number + timeout) '
        'through f, fn, function, self, args, kwargs, x plus one whose name cycles through the further names of harness/kwnames.py - the '
        'parameter names, read with inspect from the tree under test, of every function the arguments travel through (addCleanup, '
        '_run_cleanups, _run_user of the three runners, maybeDeferred, _got_user_exception, _got_user_failure; on the unchanged code: '
        'result, callable, key, arguments, keywordArguments, exc_info, tb_label, failure), so that a renamed parameter is followed; the '
        'cleanup checks that it receives exactly them; the model ignores arguments',
        'LIMIT OF THE MODEL (audit C14 v1): an interrupt is "reactor.stop() requested at an instant of virtual time" (a delayed call). The '
        'runtime behaviour it cannot exhibit: a real SIGINT landing in the reactor iteration in which the run ends (while a synchronous '
        'stage runs, inside the delayed call that fires the last Deferred, or so shortly before it / before the timeout call that the '
        'queued stop and that call are processed in one iteration): Twisted\'s handler only queues reactor.callFromThread(reactor.stop), '
        'the result that was set wins, result.stop() is not called, and with the plain runner the queued stop survives in '
        'reactor.threadCallQueue (not a delayed call, not junk) and interrupts the NEXT test. threadCallQueue is not modelled; the '
        'same-instant tie between an interrupt and the end of the chain is decided in the model by the reactor\'s call order and left to '
        'the correspondence; recorded, not repaired',
        'borderline, outside the stated domain (audit C14), not modelled: skip reasons that are not str; errors logged without a Failure '
        'are not counted; a failed Deferred still referenced at the end counts as unhandled; ForBrokenTwisted executes a left-over '
        'callLater(0) in its obligatory iterations (modelled: stage-run-by-shake-out-iteration) ; callFromThread / system event triggers '
        'left by a stage are not junk; only the LAST failing cleanup\'s exception is kept (modelled as is); @unittest.expectedFailure on a '
        'Deferred-returning test; a stage blocking synchronously beyond the timeout; the spinner\'s own timeout call reported as junk '
        'after an interrupt (modelled); after a timeout / interrupt dropped failed Deferreds are logged late',
        'aliasing: a stage may return the very Deferred an earlier stage returned (beh same; decoded as "returns at once": the runner '
        'waits on a Deferred of its own since fix <commit>); GeneratorExit raised by / failing the Deferred of any stage is the third '
        'unclaimed exception next to KeyboardInterrupt and SystemExit',
        'after Spinner.run has left reactor.run() the callbacks it hung on the chain\'s final Deferred are dead (fix <commit>): a chain '
        'that ends during _clean\'s shake-out iterations records nothing (model: Chain.over / finishChain)',
        'values: 30% of the returning / firing stages return (fire with) a value other than None - an object equal to everything, mock.ANY, '
        'one whose == has no truth value, 0, 0.0, False, empty str/list/tuple/dict, a falsy object, an int; the model ignores the value (the '
        'codec drops it), i.e. the claim is that the runner never looks at it; every quick run covers value x (returned | fired at 0 | fired '
        'at 1) x (setUp | test | tearDown | cleanup)',
        'PARTIAL w.r.t. the Twisted runtime: Deferred callback chaining, inlineCallbacks, maybeDeferred, the log publisher / observers and '
        'DebugInfo (garbage collection of failed Deferreds) are modelled in TTV/Model/AsyncRun.lean, not verified; the theorems are about the '
        'runner\'s staging and bookkeeping logic',
        'the reactor is harness/vreactor.py (twisted Clock + run/crash/stop/iterate with the iteration semantics of '
        'ReactorBase.runUntilCurrent: a call scheduled during an iteration waits for the next one), shared model TTV/Model/Reactor.lean',
        'REAL reactor: 11 smoke scenarios (passing async test, failing Deferred, timeout, unclean reactor, logged error, async cleanups '
        'LIFO, broken-Twisted variant, interrupt, nested cleanups, KeyboardInterrupt in the test, dropped failed Deferred) run on '
        'twisted.internet.reactor with 40 ms per time unit and distinct instants at least 2 units apart; a stage is reported at the '
        'nominal instant of the delayed call that started it, a run in which some call was more than 0.9 unit late is repeated with a '
        'doubled unit (at most 3 times); the whole trace is then compared with the model exactly as for the virtual reactor (5 scenarios '
        'in quick, all in thorough); everything else runs on the virtual-time reactor only',
        'CPython reference counting: a dropped failed Deferred is collected (and its DebugInfo recorded) at once',
        'of several cleanup exceptions _run_cleanups keeps the last only (modelled as is); expected failures are not generated',
    ]
    manifest = {
        'text': 'PARTIAL (runner logic proved, Twisted runtime modelled). Theorems for all test programs (setUp / test / tearDown and every '
                'cleanup registering any cleanups, to any depth; every stage with any side effects - leftover delayed call, logged error, '
                'dropped failed Deferred, flush, failed expectation - and returning / raising / returning a Deferred that fires or fails after '
                'any delay / never, the exception being an error, a failure, a skip or KeyboardInterrupt/SystemExit), all timeouts, all sets '
                'of interrupt instants, both runner variants, logging suppression and capture on/off: on the discrete-event model of '
                'AsynchronousDeferredRunTest over the shared reactor/Spinner model (reactor iterations as in runUntilCurrent; the result of '
                'Spinner.run determined before _clean\'s shake-out iterations) exactly one outcome is reported between startTest and stopTest; '
                'the stages that run are a prefix of the path setUp,[test,tearDown],cleanups-LIFO (cleanups registered by a cleanup right '
                'after it) and each starts only after its predecessor\'s Deferred fired; the outcome is success iff the whole path ran under '
                'the running reactor, its last Deferred fired strictly before the timeout, no stop was requested, every stage completed '
                'cleanly, no logged error was left unflushed, no failed Deferred dropped, no expectation failed and nothing was left '
                'scheduled; not-in-time gives an error; the result is asked to stop only for an interrupt before the timeout and always '
                'when one came while the chain was not over; run() re-raises only KeyboardInterrupt/SystemExit, after reporting an error, '
                'always when setUp/test/tearDown raised one and only if some stage that ran raised one; afterwards no delayed call is '
                'pending and the log observers are the original ones in order; the reactor loop always ends by a crash within the '
                'model\'s fuel. Tied to the real runner by a differential check on a virtual-time reactor (random programs incl. one-flaw '
                'programs, ties at the timeout / interrupt instant, zero-delay hop chains across reactor iterations, exhaustive small '
                'grids) and by 11 smoke scenarios on the real Twisted reactor.',
        'note': 'partial w.r.t. the Twisted runtime: Deferred chaining, inlineCallbacks/maybeDeferred, the log publisher and observers, '
                'DebugInfo/GC of failed Deferreds are modelled (TTV/Model/AsyncRun.lean), not verified; trusted: Lean kernel, the models '
                'TTV/Model/Reactor.lean + AsyncRun.lean, the harness and harness/vreactor.py; real-reactor coverage = 11 scenarios '
                '(feature reactor:real: 5 per quick run, 11 per thorough run), everything else on the virtual-time reactor; at the very '
                'instant at which the chain is over, whether a simultaneous interrupt wins is decided by the reactor\'s call order '
                '(covered by the correspondence, not by a readable theorem); expected failures are outside the generated domain. LIMIT OF THE '
                'MODEL: interrupts are reactor.stop() requests at instants of virtual time (delayed calls); a real SIGINT whose queued '
                'callFromThread(reactor.stop) lands in the reactor iteration in which the run ends is lost (success, no result.stop()) and, '
                'with the plain runner, stays in reactor.threadCallQueue and interrupts the next test - threadCallQueue is not modelled, the '
                'model cannot exhibit this (audit C14 v1, recorded, not repaired)',
        'technique': 'Lean 4 invariant proofs over a discrete-event model (sorted call queue with dynamic scheduling, fuelled reactor loop, '
                     'potential-function termination argument, chain invariant through suspensions), executable spec shared with a '
                     'differential correspondence check against the real code on a virtual-time reactor',
    }

    # ----- translator tie: the asynchronous runner's source as data (TTV/Generated/AsyncSkel.lean), the Spinner's (shared with C15)
    def extract_tables(self, repo):
        from harness import pyasync2lean, pyspinner2lean
        return {'TTV/Generated/AsyncSkel.lean': pyasync2lean.generate(repo), 'TTV/Generated/SpinnerSkel.lean': pyspinner2lean.generate(repo)}

    # ----- implementation side
    def run_impl(self, inp):
        from twisted.logger import globalLogPublisher as pub
        if not C14._frozen:
            # what exists when the first program is run (modules, the harness) is not garbage: take it out of the collector's
            # sight, the full collections - the runner under test does one per run - then cost a fraction
            gc.collect()
            gc.freeze()
            C14._frozen = True
        orig = list(pub._observers)
        for o in orig:
            pub.removeObserver(o)
        try:
            scale = REAL_UNIT
            trace = None
            for attempt in range(4):
                info = {}
                trace = self._run(inp, pub, [], scale, info)
                if not info.get('disturbed'):
                    return trace
                # the real reactor ran a call late by most of a time unit (machine under load), so the nominal scenario was not
                # realised: once more, with a longer unit
                gc.collect(1)
                for o in list(pub._observers):
                    pub.removeObserver(o)
                scale *= 2
            return trace + [['real-reactor-disturbed', info['drift']]]
        except BaseException as e:
            if isinstance(e, KeyboardInterrupt) and not getattr(e, 'verif_generated', False):
                raise
            return ['raised', type(e).__name__]
        finally:
            # A failed Deferred the test dropped is logged ("Unhandled error in Deferred") when its DebugInfo is collected.  The
            # runner consumes those it reports; after a TimeoutError / NoResultError it leaves them behind, in reference cycles.
            # Collect them now, while only the run's own observers are attached - otherwise Twisted's not-yet-started log system
            # echoes each of them to stderr at some later collection.  (The run is over: nothing the runner observes changes.)
            if self._drops(inp) and not (isinstance(trace, list) and len(trace) >= 10 and not trace[1] and trace[9] < inp[0]):
                # (not needed when the run ended before the timeout without a stop request: the runner consumed them)
                gc.collect()
            else:
                gc.collect(1)
            for o in list(pub._observers):
                pub.removeObserver(o)
            for o in orig:
                pub.addObserver(o)

    _frozen = False

    def _drops(self, inp):
        return any('dropfailed' in st[1] for st in self._stages(inp))

    def _run(self, inp, pub, markers, scale, info):
        import testtools
        from testtools.matchers import Equals
        from twisted.internet import defer
        from twisted.python import log
        from testtools.twistedsupport import (AsynchronousDeferredRunTest, AsynchronousDeferredRunTestForBrokenTwisted,
                                              flush_logged_errors)
        from harness.vreactor import VirtualReactor
        T, stops, broken, suppress, store, n_obs, su, bo, td = inp[:9]
        real = len(inp) > 9 and inp[9] == 'real'
        if real:
            # the REAL Twisted reactor; delays in units of `scale` seconds.  Every delayed call carries its nominal instant (the nominal
            # instant at which it was scheduled + its delay); the time reported for a stage is the nominal instant of the call that is
            # running.  The nominal order is the real order as long as every call runs less than one unit late (distinct instants are
            # at least 2 units apart in the scenarios); the lateness is measured, a disturbed run is repeated by run_impl.
            from twisted.internet import reactor as r
            if r.running or r.getDelayedCalls():
                return ['real-reactor-not-clean']
            t0 = r.seconds()
            clock = {'instant': 0, 'drift': 0.0}

            def now():
                return clock['instant']

            def later(delay, f, *args):
                due = clock['instant'] + delay

                def call():
                    arrive(due)
                    return f(*args)
                return r.callLater(delay * scale, call)

            def arrive(instant):
                clock['drift'] = max(clock['drift'], (r.seconds() - t0) / scale - instant)
                clock['instant'] = instant
        else:
            r = VirtualReactor()
            scale = 1

            def now():
                return int(r.seconds())

            def later(delay, f, *args):
                return r.callLater(delay, f, *args)
        for i in range(n_obs):
            m = (lambda i: (lambda event: None))(i)
            markers.append(m)
            pub.addObserver(m)
        slog, live, made = [], [], []
        counts = {'scheduled': 0, 'ran': 0}
        numbering = itertools.count()

        def mine(f=None):
            def call():
                counts['ran'] += 1
                if f is not None:
                    f()
            counts['scheduled'] += 1
            return call

        def register(case, cleanups):
            # cleanups are registered with positional AND keyword arguments; the keyword's name cycles through names that collide
            # with parameters of the functions the arguments travel through (maybeDeferred(f, ...), _run_user(function, ...),
            # addCleanup(fn, ...)): cleanup number n of a run with timeout T gets cleanup_kws(n, T) - none, or a fixed name and a name read
            # from the signatures of the tree under test
            for c in cleanups:
                n = next(numbering)
                case.addCleanup(do_cleanup, case, ['cleanup', n], c, **{kw: ('kw', kw, n) for kw in cleanup_kws(n, T)})

        def do_cleanup(case, name, stage, /, **kwargs):
            if kwargs != {kw: ('kw', kw, name[1]) for kw in cleanup_kws(name[1], T)}:
                raise AssertionError('cleanup %r called with keyword arguments %r' % (name, kwargs))
            return do(case, name, stage)

        def do(case, name, stage):
            cleanups, sides, beh = stage
            register(case, cleanups)
            slog.append([name, now(), len(pub._observers)])
            live.append(bool(r.running))
            for s in sides:
                if s == 'logerr':
                    log.err(ZeroDivisionError('logged'))
                elif s[0] == 'logerr':
                    self._log_error(s[1])
                elif s == 'dropfailed':
                    defer.fail(KeyError('dropped'))
                elif s == 'flush':
                    flush_logged_errors()
                elif s == 'expect':
                    case.expectThat(1, Equals(2))
                else:
                    later(s[1], mine())
            made.append(None)
            if beh == 'ret':
                return None
            if beh[0] == 'ret':
                return value_of(beh[1])
            if beh[0] == 'same':
                # the very Deferred object the beh[1]-th stage of this run returned (None if it returned none): aliasing between stages
                return made[beh[1]] if beh[1] < len(made) else None
            if beh == 'never':
                made[-1] = defer.Deferred()
                return made[-1]
            if beh[0] == 'raise':
                raise self._exc(case, beh[1], name)
            d = made[-1] = defer.Deferred()
            if beh[0] == 'fire':
                later(beh[1], d.callback, value_of(beh[2]) if len(beh) > 2 else None)
            else:
                later(beh[1], d.errback, self._exc(case, beh[2], name))
            return d

        cls = AsynchronousDeferredRunTestForBrokenTwisted if broken else AsynchronousDeferredRunTest
        if real:
            class cls(cls):                     # only to learn the instant at which the Spinner's timeout call runs
                def _make_spinner(self):
                    sp = super()._make_spinner()
                    timed_out = sp._timed_out

                    def noting(*args, **kwargs):
                        arrive(T)
                        return timed_out(*args, **kwargs)
                    sp._timed_out = noting
                    return sp

        class T_(testtools.TestCase):
            run_tests_with = cls.make_factory(reactor=r, timeout=T * scale, suppress_twisted_logging=suppress,
                                              store_twisted_logs=store)

            def setUp(self):
                super().setUp()
                return do(self, 'setUp', su)

            def test(self):
                return do(self, 'body', bo)

            def tearDown(self):
                try:
                    return do(self, 'tearDown', td)
                finally:
                    super().tearDown()

        for s in stops:
            later(s, mine(lambda: r.stop()))
        sink = Sink()
        raised = False
        try:
            T_('test').run(sink)
        except BaseException as e:
            if isinstance(e, Exception) or getattr(e, 'verif_generated', False):
                raised = True
            else:
                raise
        gc.collect(1)
        trace = [sink.ev, sink.stopped, raised, slog, live, counts['scheduled'] - counts['ran'], len(r.getDelayedCalls()),
                 list(pub._observers) == markers, 0 if real else r.real_stops, now()]
        if real:
            for dc in r.getDelayedCalls():          # leave the process clean whatever happened
                dc.cancel()
            arrive(clock['instant'])                # the synchronous tail counts, too
            info['drift'] = round(clock['drift'], 2)
            info['disturbed'] = clock['drift'] > 0.9
        elif r.errors:
            trace.append(['reactor-errors'] + [type(e).__name__ for e in r.errors])
        return trace

    def _log_error(self, route):
        from twisted.python import log
        from twisted.python.failure import Failure
        from twisted.logger import Logger
        try:
            raise ZeroDivisionError('logged')
        except ZeroDivisionError:
            f = Failure()
        if route == 'err':
            log.err(f)
        elif route == 'failure':
            Logger(namespace='verif').failure('logged by the test', failure=f)
        elif route == 'error':
            Logger(namespace='verif').error('logged by the test', log_failure=f)
        else:
            # what ReactorBase.runUntilCurrent does with an exception raised by a delayed call
            Logger(namespace='twisted.internet.base').failure('while handling timed call {timed}', failure=f, timed='<DelayedCall>')

    def _exc(self, case, k, name):
        import unittest
        k, _, truth = k.partition('-')
        truth = truth and '-' + truth
        if k == 'err':
            return falsy(ValueError, truth)(str(name))
        if k == 'fail':
            return falsy(case.failureException, truth)(str(name))
        if k == 'skip':
            return falsy(unittest.SkipTest, truth)(str(name))
        e = falsy(KeyboardInterrupt, truth)() if k == 'ki' else falsy(SystemExit, truth)(3) if k == 'exit' else falsy(GeneratorExit, truth)()
        e.verif_generated = True
        return e

    # ----- scenarios on the real reactor (distinct instants at least 2 units apart)
    @staticmethod
    def _st(beh, sides=(), cleanups=()):
        return [list(cleanups), list(sides), beh]

    def real_inputs(self, quick_only):
        st = self._st
        scen = [
            ('passing-async-test', True, [10, [], False, True, True, 1, st(['fire', 2]), st(['fire', 2]), st('ret')]),
            ('failing-deferred', True, [10, [], False, True, True, 0, st('ret'), st(['faild', 2, 'fail']), st('ret')]),
            ('timeout', True, [3, [], False, True, True, 0, st('ret'), st('never'), st('ret', cleanups=[st('ret')])]),
            ('unclean-reactor', True, [6, [], False, True, True, 0, st('ret'), st('ret', sides=[['junk', 8]]), st('ret')]),
            ('logged-error', True, [6, [], False, False, True, 2, st('ret'), st('ret', sides=['logerr']), st('ret')]),
            ('async-cleanups-lifo', False, [12, [], False, True, True, 0,
                                           st('ret', cleanups=[st(['fire', 2]), st(['fire', 2])]), st(['fire', 2]), st('ret')]),
            ('broken-twisted-variant', False, [10, [], True, True, False, 0, st('ret'), st(['fire', 2], sides=[['junk', 0]]), st('ret')]),
            ('interrupted', False, [10, [2], False, True, True, 0, st('ret'), st(['fire', 6]), st('ret', cleanups=[st('ret')])]),
            ('nested-cleanups', False, [12, [], False, True, True, 0,
                                       st('ret', cleanups=[st('ret'), st(['fire', 2], cleanups=[st(['fire', 2]), st('ret')])]),
                                       st('ret'), st('ret')]),
            ('keyboard-interrupt-in-test', False, [10, [], False, True, True, 0, st('ret', cleanups=[st(['fire', 2])]),
                                                  st(['raise', 'ki']), st('ret')]),
            ('dropped-failure', False, [6, [], False, True, True, 0, st('ret'), st(['fire', 2], sides=['dropfailed']), st('ret')]),
        ]
        return [inp + ['real'] for _, quick, inp in scen if quick or not quick_only]

    ROUTES = ['err', 'failure', 'error', 'reactor']

    def _logerr(self, rng):
        return 'logerr' if rng.random() < 0.25 else ['logerr', rng.choice(self.ROUTES)]

    def corpus(self):
        return Prop.corpus(self) + self.real_inputs(True) + self.value_grid() + self.log_grid() + self.falsy_grid()

    def falsy_grid(self):
        """an exception whose instance is falsy is an exception: kind x (__bool__ | __len__) x (raised | Deferred already failed | Deferred
        failing later) x (setUp | the test method | tearDown | the first-registered cleanup | the last-registered cleanup | a cleanup
        registered by a cleanup) x runner variant.  The first-registered cleanup is the LAST one to fail: its exception is what
        _run_cleanups hands to the chain (seed C14-h tested its truth value)"""
        st = self._st
        out = []
        for k in EXC + UNCLAIMED:
            for truth in TRUTH[1:]:
                for beh in (['raise', k + truth], ['faild', 0, k + truth], ['faild', 2, k + truth]):
                    for where in range(6):
                        b = [beh if where == i else 'ret' for i in range(6)]
                        for broken in (False, True):
                            out.append([6, [], broken, True, True, 0, st(b[0]),
                                        st(b[1], cleanups=[st(b[3]), st('ret', cleanups=[st(b[5])]), st(b[4])]), st(b[2])])
        # a truthy failure of a later-registered (= earlier run) cleanup must not be swallowed by a falsy one after it, nor the reverse
        for a, b in (('err', 'err-nolen'), ('err-nobool', 'err'), ('err-nolen', 'fail-nobool'), ('ki-nobool', 'err-nolen')):
            for mode in (lambda k: ['raise', k], lambda k: ['faild', 1, k]):
                out.append([6, [], False, True, True, 0, st('ret'), st('ret', cleanups=[st(mode(a)), st(mode(b))]), st('ret')])
        return out

    def log_grid(self):
        """an error logged to Twisted and left unflushed fails the test whatever the route it takes into the log and whatever the
        logging options: route x store_twisted_logs x suppress_twisted_logging x runner variant x stage; and flushed, it does not"""
        st = self._st
        out = []
        for route in self.ROUTES:
            for store in (False, True):
                for suppress in (False, True):
                    for broken in (False, True):
                        for where in range(4):
                            sd = [[['logerr', route]] if where == i else [] for i in range(4)]
                            out.append([5, [], broken, suppress, store, 1, st('ret', sides=sd[0]),
                                        st(['fire', 1], sides=sd[1], cleanups=[st('ret', sides=sd[3])]), st('ret', sides=sd[2])])
                        out.append([5, [], broken, suppress, store, 0, st('ret'), st('ret', sides=[['logerr', route], 'flush']), st('ret')])
        return out

    def value_grid(self):
        """every value token x (returned by | carried by the Deferred of) x (setUp | the test method | tearDown | a cleanup): the
        outcome and the staging are those of a stage returning None"""
        st = self._st
        out = []
        for v in range(len(VALUES) + 1):
            for beh in (['ret', v], ['fire', 1, v], ['fire', 0, v]):
                for where in range(4):
                    b = [beh if where == i else 'ret' for i in range(4)]
                    out.append([5, [], False, True, True, 0, st(b[0]), st(b[1], cleanups=[st('ret'), st(b[3])]), st(b[2])])
        # stages returning the very Deferred an earlier stage returned (stage numbers: setUp 0, test 1, tearDown 2, cleanups 3, 4)
        for first in (['fire', 1], ['fire', 0], ['faild', 1, 'err']):
            for broken in (False, True):
                out.append([5, [], broken, True, True, 0, st(first), st(['same', 0]), st(['same', 0])])
                out.append([5, [], broken, True, True, 0, st('ret'), st(first, cleanups=[st(['same', 1]), st(['same', 1])]), st(['same', 1])])
                out.append([5, [], broken, True, True, 0, st('ret'), st('ret', cleanups=[st(['same', 3]), st(first)]), st(['same', 1])])
        return out

    # ----- generators
    def gen_stage(self, rng, clean, T, depth=0):
        sides = []
        for _ in range(rng.choice([0, 0, 0, 1] if clean else [0, 1, 1, 2])):
            k = rng.random()
            if clean and k < 0.85:
                sides.extend([['junk', rng.choice([0, 0, 1])]] if k < 0.4 else [self._logerr(rng), 'flush'] if k < 0.7 else ['flush'])
            elif k < 0.35:
                sides.append(['junk', rng.choice([0, 1, 2, 3, T, T + 1, 9])])
            elif k < 0.55:
                sides.append(self._logerr(rng))
            elif k < 0.7:
                sides.append('dropfailed')
            elif k < 0.88:
                sides.append('flush')
            else:
                sides.append('expect')
        k = rng.random()
        delay = rng.choice([0, 0, 1, 1, 2, 3, 4])
        exc = lambda: rng.choice(EXC + EXC + UNCLAIMED) + rng.choice(TRUTH + TRUTH[:1])        # half of them falsy instances
        if clean:
            beh = 'ret' if k < 0.45 else ['fire', delay] if k < 0.93 else ['raise', exc()] if k < 0.96 else \
                ['faild', delay, exc()] if k < 0.985 else 'never'
        else:
            beh = 'ret' if k < 0.3 else ['fire', delay] if k < 0.6 else ['raise', exc()] if k < 0.75 else \
                ['faild', delay, exc()] if k < 0.9 else 'never'
        if rng.random() < 0.3:
            # the stage returns a value / its Deferred fires with a value other than None: the runner must not look at it
            if beh == 'ret':
                beh = ['ret', rng.randrange(len(VALUES) + 1)] if rng.random() < 0.7 else ['same', rng.randrange(4)]
            elif beh[0] == 'fire':
                beh = beh + [rng.randrange(len(VALUES) + 1)]
        if depth == 0:
            n = rng.choice([0, 0, 1, 1, 2])
        elif depth == 1:
            n = rng.choice([0, 0, 0, 1, 2])
        else:
            n = rng.choice([0, 0, 0, 0, 1]) if depth == 2 else 0
        return [[self.gen_stage(rng, clean, T, depth + 1) for _ in range(n)], sides, beh]

    def flat(self, st):
        yield st
        for c in st[0]:
            for x in self.flat(c):
                yield x

    def gen_hops(self, rng):
        """zero-delay hop chains: several Deferreds firing at the same instant, each scheduled by its predecessor's callback, hence run
        by successive reactor iterations; a stop request / the timeout at that very instant ends reactor.run() in the middle of the
        chain, the rest is run - and its result discarded - by the shake-out iterations of Spinner._clean"""
        d = rng.choice([0, 1, 2, 3])

        def hop():
            return rng.choice([['fire', 0], ['fire', 0], ['fire', 0], ['faild', 0, rng.choice(EXC)], 'ret'])

        def stage(beh, depth=0):
            n = rng.choice([0, 0, 1, 2]) if depth < 2 else 0
            sides = [['junk', 0]] if rng.random() < 0.2 else []
            return [[stage(hop(), depth + 1) for _ in range(n)], sides, beh]

        first = rng.randrange(3)
        prog = [stage(['fire', d] if i == first else hop()) for i in range(3)]
        if rng.random() < 0.25:
            T, stops = d, rng.choice([[], [], [d]])
        else:
            T, stops = d + rng.choice([1, 2, 5]), rng.choice([[d], [d], [d], [d, d + 1], [d, d]])
        return [T, stops, rng.random() < 0.6, rng.random() < 0.7, rng.random() < 0.7, rng.choice([0, 1])] + prog

    def gen(self, rng, tier):
        mode = rng.random()
        if mode >= 0.9:
            return self.gen_hops(rng)
        clean = mode < 0.7
        T = rng.choice([0, 1, 2, 3, 4, 5, 6, 7, 9])
        prog = [self.gen_stage(rng, clean, T) for _ in range(3)]
        stages = [s for m in prog for s in self.flat(m)]
        total = sum(s[2][1] for s in stages if isinstance(s[2], list) and s[2][0] in ('fire', 'faild'))
        k = rng.random()
        if k < 0.3:
            T = rng.choice([total, total, total + 1, max(total - 1, 0)])     # ties with the timeout
        elif clean or k < 0.6:
            T = total + rng.choice([1, 2, 3])
        ns = rng.choice([0, 0, 0, 0, 1] if clean else [0, 0, 1, 1, 2])
        stops = [rng.choice([total, total, total + 1, T, T + 1, 9] if clean else [0, 1, 2, 3, total, total, T, max(T - 1, 0), T + 1, 9])
                 for _ in range(ns)]
        if 0.35 <= mode < 0.7:
            # an otherwise clean program with exactly one flaw
            st = rng.choice(stages)
            flaw = rng.choice(['logerr', 'dropfailed', 'expect', 'junk', 'raise', 'faild', 'never', 'stop', 'logerr-flush-logerr',
                               'unclaimed', 'unclaimed'])
            if flaw in ('logerr', 'dropfailed', 'expect'):
                st[1].append(self._logerr(rng) if flaw == 'logerr' else flaw)
            elif flaw == 'logerr-flush-logerr':
                st[1].extend([self._logerr(rng), 'flush', self._logerr(rng)])
            elif flaw == 'junk':
                st[1].append(['junk', rng.choice([total + 1, T, T + 1, 9])])
            elif flaw == 'raise':
                st[2] = ['raise', rng.choice(EXC) + rng.choice(TRUTH)]
            elif flaw == 'unclaimed':
                st[2] = rng.choice([['raise', rng.choice(UNCLAIMED) + rng.choice(TRUTH)],
                                    ['faild', rng.choice([0, 1, 2]), rng.choice(UNCLAIMED) + rng.choice(TRUTH)]])
            elif flaw == 'faild':
                st[2] = ['faild', rng.choice([0, 1, 2]), rng.choice(EXC) + rng.choice(TRUTH)]
            elif flaw == 'never':
                st[2] = 'never'
            else:
                stops = stops + [rng.choice([0, max(total - 1, 0), total, total + 1])]
        return [T, stops, rng.random() < 0.3, rng.random() < 0.7, rng.random() < 0.7, rng.choice([0, 1, 2])] + prog

    BEHS = ['ret', ['raise', 'err'], ['raise', 'skip'], ['fire', 2], ['fire', 0], ['faild', 2, 'err'], 'never']
    BEHS2 = ['ret', ['raise', 'ki'], ['raise', 'err'], ['raise', 'err-nolen'], ['fire', 2], ['faild', 2, 'exit']]

    def enumerate(self, tier):
        for inp in self.real_inputs(False):
            yield inp
        st = self._st
        for a, b, c in itertools.product(self.BEHS, repeat=3):
            for cl in [None] + self.BEHS:
                for T in (1, 4, 9):
                    yield [T, [], False, True, True, 0, st(a, cleanups=[st(cl)] if cl is not None else []), st(b), st(c)]
        # unclaimed exceptions and cleanups registered by cleanups
        for a, b, c1, c2, c3 in itertools.product(self.BEHS2, repeat=5):
            for T in (3, 9):
                yield [T, [], False, True, True, 0, st(a, cleanups=[st(c1), st(c2, cleanups=[st(c3)])]), st(b), st('ret')]

    # ----- measures
    def _stages(self, inp):
        return [s for m in inp[6:9] for s in self.flat(m)]

    def depth(self, st):
        return 1 + max([self.depth(c) for c in st[0]] + [0])

    def nontrivial(self, inp, trace):
        return any(s[1] or (isinstance(s[2], list) and s[2][0] in ('fire', 'faild')) or s[2] == 'never' for s in self._stages(inp))

    def features(self, inp, trace):
        T, stops, broken, suppress, store, n_obs = inp[:6]
        stages = self._stages(inp)
        f = ['reactor:' + ('real' if len(inp) > 9 else 'virtual'), 'variant:' + ('broken' if broken else 'plain'),
             'suppress=%s' % suppress, 'store=%s' % store, 'observers=%d' % n_obs, 'stops=%d' % len(stops),
             'cleanups=%d' % min(len(stages) - 3, 6), 'cleanup-nesting=%d' % (max(self.depth(m) for m in inp[6:9]) - 1)]
        for n in range(len(stages) - 3):
            f.extend('cleanup-keyword:' + k for k in cleanup_kws(n, T) or ['None'])
        for s in stages:
            f.append('beh:' + (s[2] if isinstance(s[2], str) else s[2][0] + ('-' + base_of(s[2][-1]) if s[2][0] in ('raise', 'faild') else '')))
            if isinstance(s[2], list) and s[2][0] in ('raise', 'faild'):
                f.append('exception-instance:' + (s[2][-1].partition('-')[2] or 'truthy'))
            if isinstance(s[2], list) and ((s[2][0] == 'ret') or (s[2][0] == 'fire' and len(s[2]) > 2)):
                f.append('stage-value:' + (VALUE_NAMES[s[2][-1]] if s[2][-1] < len(VALUES) else 'int'))
            for side in s[1]:
                f.append('side:' + (side if isinstance(side, str) else side[0] + ('-' + side[1] if side[0] == 'logerr' else '')))
        if not isinstance(trace, list) or len(trace) < 10 or trace[0] == 'raised':
            return f + ['harness-raised']
        ev, stopped, raised, slog = trace[:4]
        f.append('outcome:' + '+'.join(e for e in ev if e not in ('startTest', 'stopTest')))
        f.append('stages-run=%d' % min(len(slog), 8))
        if raised:
            f.append('run-raised')
        if stopped:
            f.append('interrupted')
        if slog:
            last = slog[-1][1]
            if last == T:
                f.append('stage-started-at-timeout')
            if any(s == last for s in stops):
                f.append('stage-started-at-interrupt')
        if not all(trace[4]):
            f.append('stage-run-by-shake-out-iteration')
        if trace[5]:
            f.append('leftover-calls')
        if trace[9] == T and T > 0:
            f.append('ended-at-timeout-instant')
        return f

    def shrink(self, inp):
        tail = inp[9:]
        T, stops = inp[0], inp[1]
        head = inp[:6]
        for i in range(len(stops)):
            yield [T, stops[:i] + stops[i + 1:]] + inp[2:]
        if inp[2]:
            yield [T, stops, False] + inp[3:]
        if inp[5]:
            yield inp[:5] + [0] + inp[6:]
        if T > 0:
            yield [T - 1] + inp[1:]
        ms = inp[6:9]
        for i, m in enumerate(ms):
            for cand in self.shrink_stage(m):
                yield head + ms[:i] + [cand] + ms[i + 1:] + tail

    def shrink_stage(self, st):
        cleanups, sides, beh = st
        for j in range(len(cleanups)):
            yield [cleanups[:j] + cleanups[j + 1:], sides, beh]
            if cleanups[j][0]:                                   # hoist the cleanups it registers
                yield [cleanups[:j] + cleanups[j][0] + cleanups[j + 1:], sides, beh]
            for cand in self.shrink_stage(cleanups[j]):
                yield [cleanups[:j] + [cand] + cleanups[j + 1:], sides, beh]
        for j in range(len(sides)):
            yield [cleanups, sides[:j] + sides[j + 1:], beh]
        if beh != 'ret':
            yield [cleanups, sides, 'ret']
        if isinstance(beh, list) and beh[0] == 'fire' and len(beh) > 2:
            yield [cleanups, sides, beh[:2]]
        if isinstance(beh, list) and beh[0] in ('fire', 'faild') and beh[1] > 0:
            yield [cleanups, sides, [beh[0], beh[1] - 1] + beh[2:]]
        if isinstance(beh, list) and beh[0] == 'faild':
            yield [cleanups, sides, ['raise', beh[2]]]
            yield [cleanups, sides, ['fire', beh[1]]]
        if isinstance(beh, list) and beh[0] in ('raise', 'faild'):
            k, _, truth = beh[-1].partition('-')
            if truth:
                yield [cleanups, sides, beh[:-1] + [k]]                     # a truthy instance of the same class
                truth = '-' + truth
            if k in ('exit', 'genexit'):
                yield [cleanups, sides, beh[:-1] + ['ki' + truth]]
            if k in ('fail', 'skip'):
                yield [cleanups, sides, beh[:-1] + ['err' + truth]]


PROP = C14()
