"""C07 - mismatches are always describable; assertThat / assert_that / expectThat report them faithfully.

Three kinds of input (grammar: lean/TTV/Drv/C07.lean):
  [describe, m, v, annotated, verbose]   str(matcher), match(), describe(), get_details(), str(MismatchError)
                                          of Annotate.if_message(message, m) on v (m, v as in C06)
  [textrepr, isBytes, ml, np, s]          text_repr(s, multiline=ml), ast.literal_eval of it, repr(s), literal_eval of that
  [assert, api, existing, mismatch]       a real TestCase whose body has the details `existing`, then calls the api with a
                                          matcher that returns None / a Mismatch with the given detail names
  [assert, api, existing, mismatch, after, tearDown, cleanups[, place]]
                                          ... and what the stage does after the call, what tearDown and the cleanups do;
                                          place = body (default) | setUp | setUpEarly: the stage that holds all of that
                                          (setUpEarly: in the test's setUp BEFORE its upcall to the base setUp, which comes last)
"""
import ast, itertools, os, random, sys, warnings
from harness.core import Prop, some
from harness.props import c06 as C6

P6 = C6.PROP

CLASS_ROWS = ['Equals', 'NotEquals', 'Is', 'LessThan', 'GreaterThan', 'SameMembers', 'StartsWith', 'EndsWith', 'Contains',
              'IsInstance', 'KeysEqual', 'MatchesException', 'Raises', 'MatchesPredicate', 'Not', 'MatchesAll', 'MatchesAny',
              'AllMatch', 'AnyMatch', 'MatchesListwise', 'MatchesSetwise', 'MatchesStructure', 'MatchesDict', 'ContainsDict',
              'ContainedByDict', 'Annotate', 'AfterPreprocessing']

ALPHABET = ["'", '"', '\\', '\n', 'a', '\xe9', '\x00', '\r', '\t', '\x7f', '\x80', '\xa0', '\xad', ' ', '\U0001f600',
            '\ud800', '\uffff', '\U0010ffff', 'n', 'x', ' ', '0', 'b', 'u']
SMALL = ["'", '"', '\\', '\n', 'a', '\xe9', '\x00', '\r', '\x85', ' ', '\U0001f600', 'n']
BYTE_ALPHABET = [39, 34, 92, 10, 97, 0, 13, 9, 127, 128, 255, 110, 120, 32]
SMALL_BYTES = [39, 34, 92, 10, 97, 0, 13, 255, 110]


ACTS = ['skip', 'skip', 'xfail', 'xfail', 'uxsuccess', 'failure', 'error', 'interrupt']


import enum


class Color(enum.Enum):
    RED = 1
    BLUE = 2


class _Plain:
    """hashable, no ordering"""

    def __init__(self, n):
        self.n = n

    def __repr__(self):
        return '<plain %d>' % self.n


OBJKEY, OBJKEY2 = _Plain(1), _Plain(2)


class AnyEq:
    """== answers True to everything (unittest.mock.ANY-like)"""

    def __eq__(self, other):
        return True

    def __ne__(self, other):
        return False

    def __hash__(self):
        return 1

    def __repr__(self):
        return '<ANY>'


class NeverEq:
    """== answers False to everything, itself included (NaN-like)"""

    def __eq__(self, other):
        return False

    def __ne__(self, other):
        return True

    def __hash__(self):
        return 2

    def __repr__(self):
        return '<NEVER>'


class ArrayLike:
    """== is element-wise and its result has no truth value when it has not exactly one element (numpy-like)"""

    def __init__(self, xs):
        self.xs = list(xs)

    def __eq__(self, other):
        return _Truth([x == other for x in self.xs])

    def __ne__(self, other):
        return _Truth([x != other for x in self.xs])

    __hash__ = None

    def __len__(self):
        return len(self.xs)

    def __iter__(self):
        return iter(self.xs)

    def __repr__(self):
        return 'array(%r)' % self.xs


class _Truth:
    def __init__(self, bs):
        self.bs = bs

    def __bool__(self):
        if len(self.bs) != 1:
            raise ValueError('The truth value of an array with more than one element is ambiguous')
        return bool(self.bs[0])

    def __repr__(self):
        return 'array(%r)' % self.bs


def ctor_table():
    """[(name in testtools.matchers.__all__, [factory, ...])]: every stock matcher with the legal shapes of the constructor
    arguments that its __str__ / the describe() of its mismatches interpolate (tuple of length 0/1/2, list, set, frozenset,
    str vs bytes, None, non-ASCII text ...).  APPEND ONLY: (row, variant) indices are part of recorded inputs.
    Not listed on purpose (argument types that are not documented, see `assumptions`): MatchesRegex(<compiled pattern>),
    StartsWith/EndsWith(<tuple containing a newline>), DocTestMatches(<bytes>)."""
    import doctest, re
    import testtools.matchers as M
    P = C6.Scratch.get().path
    exc = ValueError(1)
    shapes = [3, 'caf\xe9\n\x00', b'\xff\n', None, (), (1,), (1, 2), [1, 2], {'a': 1}, {1, 2}, frozenset([1])]

    class Example:
        a = (1, 2)
        b = 'x'
    # round e: falsy-but-valid expected values, objects whose == is not an honest Boolean, keys of ONE type without an order
    falsy = [0, False, True, '', b'', [], {}, set(), AnyEq(), NeverEq(), ArrayLike([1, 2]), ArrayLike([])]
    late = [256, -1, 1.5]      # appended after `falsy` (append only): out-of-range needles for bytes
    K1, K2 = (1, 'a'), ('a', 1)
    T = [
        ('Equals', [lambda x=x: M.Equals(x) for x in shapes + falsy]),
        ('NotEquals', [lambda x=x: M.NotEquals(x) for x in shapes + falsy]),
        ('Is', [lambda x=x: M.Is(x) for x in shapes + falsy]),
        ('LessThan', [lambda x=x: M.LessThan(x) for x in shapes]),
        ('GreaterThan', [lambda x=x: M.GreaterThan(x) for x in shapes]),
        ('SameMembers', [lambda x=x: M.SameMembers(x) for x in ([], [1, (1, 2)], (), (1,), (1, 2), {1, 2}, 'ab', b'ab')]),
        ('StartsWith', [lambda x=x: M.StartsWith(x) for x in ('', 'a', 'caf\xe9\n', b'a', b'\xff\n', ('a', 'b'), ())]),
        ('EndsWith', [lambda x=x: M.EndsWith(x) for x in ('', 'a', 'caf\xe9\n', b'a', b'\xff\n', ('a', 'b'), ())]),
        ('Contains', [lambda x=x: M.Contains(x) for x in shapes + falsy + late]),
        ('ContainsAll', [lambda x=x: M.ContainsAll(x) for x in ([], [1, 2], (), (1,), ((1, 2), 'a'), {1}, frozenset([1, 2]), 'ab')]),
        ('IsInstance', [lambda: M.IsInstance(), lambda: M.IsInstance(int), lambda: M.IsInstance(int, str), lambda: M.IsInstance(tuple),
                        lambda: M.IsInstance(int | str), lambda: M.IsInstance((int, str)), lambda: M.IsInstance(bytes, int | None),
                        lambda: M.IsInstance((int, (str, (bytes,))), dict), lambda: M.IsInstance(Color), lambda: M.IsInstance(())]),
        ('HasLength', [lambda: M.HasLength(0), lambda: M.HasLength(2)]),
        ('Always', [lambda: M.Always()]),
        ('Never', [lambda: M.Never()]),
        ('KeysEqual', [lambda: M.KeysEqual(), lambda: M.KeysEqual('a'), lambda: M.KeysEqual('a', 'b'), lambda: M.KeysEqual({'a': 1, 'b': 2}),
                       lambda: M.KeysEqual((1, 2), (3,)), lambda: M.KeysEqual(1, 2), lambda: M.KeysEqual('caf\xe9'),
                       lambda: M.KeysEqual(1, 'a'), lambda: M.KeysEqual(None, 'a'), lambda: M.KeysEqual((1, 2), 'a', b'k', None, 1),
                       lambda: M.KeysEqual(K1, K2), lambda: M.KeysEqual(1j, 2j), lambda: M.KeysEqual(Color.RED, Color.BLUE), lambda: M.KeysEqual(K1, K2, 1j, Color.RED, OBJKEY, 0, False, ''),
                       lambda: M.KeysEqual(0), lambda: M.KeysEqual(''), lambda: M.KeysEqual(False, None)]),
        ('MatchesAll', [lambda: M.MatchesAll(), lambda: M.MatchesAll(M.Equals((1, 2)), M.Never()),
                        lambda: M.MatchesAll(M.Never(), M.Equals(()), first_only=True)]),
        ('MatchesAny', [lambda: M.MatchesAny(), lambda: M.MatchesAny(M.Equals((1,)), M.Never())]),
        ('Not', [lambda: M.Not(M.Always()), lambda: M.Not(M.Equals((1, 2))), lambda: M.Not(M.TarballContains(('a', 'b')))]),
        ('Annotate', [lambda x=x: M.Annotate(x, M.Never()) for x in ('note', '', 'caf\xe9', b'\xff', (), (1,), (1, 2), None, ['a'])]),
        ('AfterPreprocessing', [lambda: M.AfterPreprocessing(len, M.Equals(7)), lambda: M.AfterPreprocessing(str, M.Never(), annotate=False),
                                lambda: M.AfterPreprocessing(lambda v: (v,), M.Equals(())), lambda: M.AfterPreprocessing(C6.Fn(ret=(1, 2)), M.Never())]),
        ('AllMatch', [lambda: M.AllMatch(M.Equals((1, 2))), lambda: M.AllMatch(M.Never())]),
        ('AnyMatch', [lambda: M.AnyMatch(M.Equals((1, 2))), lambda: M.AnyMatch(M.Never())]),
        ('MatchesListwise', [lambda: M.MatchesListwise([]), lambda: M.MatchesListwise((M.Equals(1), M.Never())),
                             lambda: M.MatchesListwise([M.Never()], first_only=True)]),
        ('MatchesSetwise', [lambda: M.MatchesSetwise(), lambda: M.MatchesSetwise(M.Equals(1), M.Equals((1, 2))), lambda: M.MatchesSetwise(M.Never(), M.Never()),
                            lambda: M.MatchesSetwise(*[M.Equals(1)] * 2), lambda: M.MatchesSetwise(*[M.Always()] * 3), lambda: M.MatchesSetwise(*[M.Contains(1)] * 2)]),
        ('MatchesStructure', [lambda: M.MatchesStructure(), lambda: M.MatchesStructure(args=M.Equals((1,))), lambda: M.MatchesStructure.byEquality(a=(1, 2), b='x'),
                              lambda: M.MatchesStructure.fromExample(Example, 'a', 'b'), lambda: M.MatchesStructure(a=M.Never(), b=M.Never()).update(b=None)]),
        ('MatchesDict', [lambda: M.MatchesDict({}), lambda: M.MatchesDict({'a': M.Equals((1, 2)), 'caf\xe9': M.Never()}), lambda: M.MatchesDict({1: M.Never(), 2: M.Equals(())}),
                         lambda: M.MatchesDict({1: M.Never(), 'a': M.Equals(2)}), lambda: M.MatchesDict({None: M.Never(), 'a': M.Never(), (1, 2): M.Never(), b'k': M.Never()}),
                         lambda: M.MatchesDict({K1: M.Never(), K2: M.Never()}), lambda: M.MatchesDict({1j: M.Never(), 2j: M.Equals(0), Color.RED: M.Never(), Color.BLUE: M.Never(), OBJKEY: M.Never(), OBJKEY2: M.Never()}),
                         lambda: M.MatchesDict({0: M.Equals(0), '': M.Equals(''), False: M.Never()})]),
        ('ContainsDict', [lambda: M.ContainsDict({}), lambda: M.ContainsDict({'a': M.Equals((1, 2)), 'z': M.Never()}), lambda: M.ContainsDict({(1, 2): M.Never()}),
                          lambda: M.ContainsDict({1: M.Equals(1), 'a': M.Equals(2), None: M.Never()}),
                          lambda: M.ContainsDict({K1: M.Never(), K2: M.Never(), 1j: M.Never(), 2j: M.Never()})]),
        ('ContainedByDict', [lambda: M.ContainedByDict({}), lambda: M.ContainedByDict({'a': M.Never()}), lambda: M.ContainedByDict({b'k': M.Equals(1)}),
                             lambda: M.ContainedByDict({1: M.Never(), 'a': M.Never()}),
                             lambda: M.ContainedByDict({K1: M.Never(), K2: M.Never(), Color.RED: M.Never(), Color.BLUE: M.Never()})]),
        ('MatchesException', [lambda: M.MatchesException(ValueError), lambda: M.MatchesException((KeyError, ValueError)), lambda: M.MatchesException(()),
                              lambda: M.MatchesException(ValueError(1)), lambda: M.MatchesException(ValueError((1, 2), 'x')), lambda: M.MatchesException(ValueError()),
                              lambda: M.MatchesException(ValueError, '2'), lambda: M.MatchesException(Exception, M.MatchesStructure(args=M.Equals((3,)))),
                              # round g: classes with a metaclass, a named tuple of classes, __slots__, subclasses of the signal exceptions
                              lambda: M.MatchesException(C6.MetaError), lambda: M.MatchesException(C6.MetaError, 'x'), lambda: M.MatchesException(C6.MetaSub((1, 2))),
                              lambda: M.MatchesException(C6.named_tuple_of([C6.MetaValueError, KeyError])), lambda: M.MatchesException(C6.named_tuple_of([])),
                              lambda: M.MatchesException(C6.OddError, M.Never()), lambda: M.MatchesException(C6.UserInterrupt), lambda: M.MatchesException(C6.OddError(1))]),
        ('Raises', [lambda: M.Raises(), lambda: M.Raises(M.MatchesException(KeyError)), lambda: M.Raises(M.Never()),
                    lambda: M.Raises(M.MatchesException(C6.MetaError)), lambda: M.Raises(M.MatchesException(C6.UserExit))]),
        ('raises', [lambda: M.raises(ValueError), lambda: M.raises((KeyError, TypeError)), lambda: M.raises(ValueError(2)),
                    lambda: M.raises(C6.MetaError), lambda: M.raises(C6.named_tuple_of([C6.MetaSub, C6.OddError])), lambda: M.raises(C6.MetaSub(2))]),
        ('MatchesPredicate', [lambda: M.MatchesPredicate(C6._p_never, '%s is never ok'), lambda: M.MatchesPredicate(C6._p_falsy, 'caf\xe9 %r'),
                              lambda: M.MatchesPredicate(C6._p_is_none, '%s %%'), lambda: M.MatchesPredicate(str.isidentifier, '%s'),
                              lambda: M.MatchesPredicate(C6._p_never, '%s')]),
        ('MatchesPredicateWithParams', [lambda: M.MatchesPredicateWithParams(C6._pred_small, '{0} is not < {1}', 'Small')(3),
                                        lambda: M.MatchesPredicateWithParams(lambda x, *a, **k: False, '{0} {1} {limit}')((1, 2), limit=()),
                                        lambda: M.MatchesPredicateWithParams(lambda x, *a: False, '{0}')(3), lambda: M.MatchesPredicateWithParams(lambda x, *a: False, '{1}')('')]),
        ('MatchesRegex', [lambda: M.MatchesRegex('a+b'), lambda: M.MatchesRegex('caf\xe9\n\\\\', re.S | re.I), lambda: M.MatchesRegex(b'\xff\n')]),
        ('DocTestMatches', [lambda: M.DocTestMatches('a...b', doctest.ELLIPSIS), lambda: M.DocTestMatches('caf\xe9\n'), lambda: M.DocTestMatches('')]),
        ('PathExists', [lambda: M.PathExists()]),
        ('DirExists', [lambda: M.DirExists()]),
        ('FileExists', [lambda: M.FileExists()]),
        ('DirContains', [lambda x=x: M.DirContains(x) for x in (['y', 'x'], ('x', 'y'), (), ('x',), {'x', 'y'}, frozenset())] +
         [lambda: M.DirContains(matcher=M.Equals(('x', 'y'))), lambda: M.DirContains(matcher=M.Never())]),
        ('FileContains', [lambda: M.FileContains('hello\n'), lambda: M.FileContains(''), lambda: M.FileContains('caf\xe9'), lambda: M.FileContains(b'abc'),
                          lambda: M.FileContains(matcher=M.Equals(('a',))), lambda: M.FileContains(matcher=M.Never())]),
        ('HasPermissions', [lambda: M.HasPermissions('0644'), lambda: M.HasPermissions('4755'), lambda: M.HasPermissions('1777'), lambda: M.HasPermissions(b'0644')]),
        ('SamePath', [lambda: M.SamePath(P(2)), lambda: M.SamePath(P(4)), lambda: M.SamePath(P(2).encode()), lambda: M.SamePath('caf\xe9')] +
         [lambda i=i: M.SamePath(C6.Scratch.get().wide_paths()[i]) for i in (0, 1, 2, 30, 19, 18)]),
        ('TarballContains', [lambda x=x: M.TarballContains(x) for x in (['other', 'file'], ('other', 'file'), (), ('file',), {'file'}, frozenset(['file', 'other']))]),
        ('Warnings', [lambda: M.Warnings(), lambda: M.Warnings(M.HasLength(2)), lambda: M.Warnings(M.Never())]),
        ('WarningMessage', [lambda: M.Warnings(M.AllMatch(M.WarningMessage(UserWarning))),
                            lambda: M.Warnings(M.MatchesListwise([M.WarningMessage(DeprecationWarning, message=M.Equals('x'), filename=M.Never(), lineno=M.Equals((1,)), line=M.Never())]))]),
        ('IsDeprecated', [lambda: M.IsDeprecated(M.Contains('old')), lambda: M.IsDeprecated(M.Never())]),
    ]
    return T


def ctor_matchees():
    """[(kind, factory)] matchees for the ctor inputs; kind 'int' is never given to filesystem matchers (open(<int>) adopts
    that file descriptor).  APPEND ONLY."""
    import sys
    S = C6.Scratch.get()

    def exc_info():
        try:
            raise ValueError((1, 2), 'x')
        except ValueError:
            return sys.exc_info()
    obj = C6.OBJ[0](a=(1, 2), b='x', args=(1,))
    V = [('int', lambda: 3), ('str', lambda: ''), ('str', lambda: 'ab'), ('str', lambda: 'caf\xe9\n\x00\''), ('bytes', lambda: b'\xff\n\x00'),
         ('none', lambda: None), ('tuple', lambda: ()), ('tuple', lambda: (1,)), ('tuple', lambda: (1, 2)), ('tuple', lambda: ((1, 2), 'a')),
         ('tuple', exc_info), ('list', lambda: []), ('list', lambda: [1, (1, 2)]), ('dict', lambda: {}), ('dict', lambda: {'a': (1, 2), 'b': 1}),
         ('set', lambda: {1, 2}), ('set', lambda: frozenset()), ('obj', lambda: obj), ('exc', lambda: ValueError(1)),
         ('fn', lambda: C6.Fn(ret=(1, 2))), ('fn', lambda: C6.Fn(ret=1)), ('fn', lambda: C6.Fn(ret=2)), ('fn', lambda: C6.Fn(exc=KeyError((1, 2))))]
    V += [('path', lambda i=i: S.path(i)) for i in range(len(S.paths))]
    V += [('tuple', lambda: (S.path(2), S.path(0))), ('bytes', lambda: S.path(2).encode()), ('dict', lambda: {1: 'x', 2: (3,)}), ('list', lambda: ['x', 'y'])]
    # dicts whose keys cannot be ordered with each other
    V += [('dict', lambda: {1: 'x', 'a': 'y'}), ('dict', lambda: {None: 0, 'a': 1, (1, 2): 2, b'k': 3}), ('dict', lambda: {1: 0, 'a': 0}),
          ('dict', lambda: {'a': 2, 1: 1})]
    # round e: keys of one type that cannot be ordered; falsy / odd-== matchees
    V += [('dict', lambda: {(1, 'a'): 0, ('a', 1): 1}), ('dict', lambda: {1j: 0, 2j: 1}), ('dict', lambda: {Color.RED: 0, Color.BLUE: 1}),
          ('dict', lambda: {OBJKEY: 0, OBJKEY2: 1, (1, 'a'): 2, ('a', 1): 3, 1j: 4, 2j: 5}), ('dict', lambda: {0: 0, '': '', False: False} ),
          ('bool', lambda: False), ('bool', lambda: True), ('zero', lambda: 0), ('bytes', lambda: b''), ('obj', lambda: AnyEq()), ('obj', lambda: NeverEq()),
          ('obj', lambda: ArrayLike([1, 2])), ('list', lambda: [AnyEq(), 0, '', None, False]), ('tuple', lambda: (0, '', None))]
    V += [('list', lambda: [1, 1]), ('list', lambda: [1, 1, 1]), ('bytes', lambda: b'a'), ('float', lambda: 1.5), ('obj', lambda: Color.RED)]
    # round f: the wider path vocabulary (symlinked directories and `..`, relative spellings, loops ...)
    V += [('path', lambda i=i: S.wide_paths()[i]) for i in range(34)]
    # round g: exc_info tuples / raising callables of user-defined exception classes
    def info_of(e):
        try:
            raise e
        except BaseException:
            return sys.exc_info()
    V += [('tuple', lambda: info_of(C6.MetaSub(2))), ('tuple', lambda: info_of(C6.MetaValueError((1, 2)))), ('tuple', lambda: info_of(C6.OddError(1))),
          ('tuple', lambda: info_of(C6.UserInterrupt())), ('fn', lambda: C6.Fn(exc=C6.MetaSub(2))), ('fn', lambda: C6.Fn(exc=C6.OddError((1, 2)))),
          ('fn', lambda: C6.Fn(exc=C6.MetaError('x')))]
    # round h: callables that repeat a warning, emit near-repeats, quiet categories
    V += [('fn', lambda k=k: C6.Fn(ret=C6.WARN_BASE + k)) for k in (0, 1, 3, 8, 11)]
    return V


def touches_fs(obj, depth=0):
    """does the matcher (or a matcher inside it) hand its matchee to open() / os.stat()?"""
    if depth > 6:
        return False
    if hasattr(obj, 'match') and not isinstance(obj, type):
        if type(obj).__module__.endswith('_filesystem'):
            return True
        pred = getattr(obj, 'predicate', None)
        if getattr(pred, '__module__', '') in ('genericpath', 'posixpath', 'os.path'):
            return True
        return any(touches_fs(x, depth + 1) for x in getattr(obj, '__dict__', {}).values())
    if isinstance(obj, (list, tuple)):
        return any(touches_fs(x, depth + 1) for x in obj)
    if isinstance(obj, dict):
        return any(touches_fs(x, depth + 1) for x in obj.values())
    return False


INT_LIKE = ('int', 'bool', 'zero')       # never given to filesystem matchers: open(<int>) adopts that file descriptor
PATH_ROWS = {'PathExists', 'DirExists', 'FileExists', 'DirContains', 'FileContains', 'HasPermissions', 'SamePath', 'TarballContains'}


def render_name(n):
    base = {0: 'Failed expectation', 1: 'traceback'}.get(n[0], 'd%d' % n[0])
    return base if n[1] == 0 else '%s-%d' % (base, n[1])


def parse_name(s):
    import re
    m = re.match(r'^(Failed expectation|traceback|d(\d+))(?:-(\d+))?$', s)
    if not m:
        return [99, 0]
    base = 0 if m.group(1) == 'Failed expectation' else 1 if m.group(1) == 'traceback' else int(m.group(2))
    return [base, int(m.group(3) or 0)]


class C07(Prop):
    id = 'C07'
    budgets = {'quick': 60000, 'thorough': 1200000}
    time_limit = {'quick': 40, 'thorough': 480}
    rule = ('35% describe inputs (value-directed matcher expressions of C06 incl. MatchesPredicate leaves with well- and '
            'ill-formed messages, x annotated x verbose), 20% ctor inputs (every stock matcher of __all__ built with each legal shape of the '
            'constructor arguments its __str__/describe() interpolate - tuple of length 0/1/2, list, set, frozenset, str, bytes, None, '
            'non-ASCII - on a pool of matchees incl. tuples, exc_info, paths with special mode bits), 30% text_repr inputs (str and bytes over an adversarial alphabet: '
            'quotes, backslash, newlines, controls, Latin-1, Z/C categories, astral, lone surrogate; multiline None/True/False), '
            '15% assertThat/assert_that/expectThat programs (pre-existing detail names that collide with the mismatch details / '
            '"Failed expectation"; the call sits in the test method or - a third of them - in setUp, before or after its upcall to the base setUp; after the call that stage, tearDown and 0-3 cleanups return / skip / raise an expected failure / an '
            'unexpected success / a failure / an error / KeyboardInterrupt). thorough adds every (place x api x mismatch x after x tearDown x cleanup) combination of a small alphabet, every (constructor shape x matchee x annotated x verbose) combination and every str of length <= 4 over a 12-character alphabet and every bytes of '
            'length <= 4 over 9 bytes, x 3 multiline settings. non-trivial: describe = a mismatch was returned; text_repr = the '
            'text contains a quote, backslash, newline or non-printable; assert = a mismatch with details or existing details')
    assumptions = [
        'repr(), pprint.pformat(), % and str.format on the values of the universe are assumed total (exercised, not proved); the one value of the C06 universe for which str() is not - an instance of the harness class StrRaisesError, kept there for MatchesException(type, "regex") - is left out of the C07 inputs (NotAnInstance.describe() and others format the matchee with %s)',
        'bool values are outside the matcher-expression universe (True == 1 would break structural equality); False / True / 0 / empty str, bytes, list, dict, set as expected values and as matchees, objects whose == answers True / False to everything or has no truth value (array-like), and dict keys without an order inside one type (complex, enum members, plain objects) are exercised through the ctor inputs only',
        'mismatch objects are assumed truthy (every stock Mismatch is): a user-defined falsy Mismatch (e.g. one that is also an empty dict) is treated as "matched" by assertThat/assert_that, AllMatch, AnyMatch, MatchesListwise, the dict matchers and Raises, which test truthiness, but not by MatchesAll/MatchesAny/Not/Annotate, which test `is None` - reported, outside the alphabet',
        'constructor arguments of undocumented types are outside the alphabet: MatchesRegex(<compiled pattern>) fails to build its mismatch (pattern.decode), StartsWith/EndsWith(<tuple containing a newline>) fail in describe() (text_repr of a tuple), DocTestMatches(<bytes>) fails in the constructor; SameMembers over one-shot iterators; lone surrogates in matchees (describe() returns text, but the detail cannot be encoded by the text results)',
        'describe() of the mismatches of opaque leaves (MatchesRegex, DocTestMatches, filesystem matchers, Warnings) is tested, not proved',
        'pyRepr / pyEval are models of CPython repr() and of string-literal evaluation, validated against repr / ast.literal_eval on every text_repr input; str.isprintable for code points >= 128 is an input of the model',
        'MatchesSetwise: messages naming left-over matchers are built inside match(); the model only accounts for them through the str() table',
        'detail names of the harness have no "-<digits>" tail, so that name-<n> is rendered injectively',
        'the end of the run (exceptions collected from body / tearDown / cleanups, forced failure appended last, _select_exception) is a small model of RunTest._run_core restricted to one exception per stage; the full run model belongs to C01-C05',
        '"makes the test fail once it has finished" is claimed for expectations recorded in the test method and in setUp, before or after the upcall to the base setUp (whatever setUp then does: return, skip, expected failure, error ... - the setUp-failed branch of RunTest._run_core raises the forced failure too, since the fix); force_failure left by an earlier run of the same instance is carried over (_reset does not clear it) - M-Run models that as ff0 and C03 judges those runs',
        'describe() / str(MismatchError) / str(matcher) are asked twice of the same object and must answer the same text',
    ]

    manifest = {
        'text': 'Theorems: C07_text_repr_roundtrip - for every str/bytes (any code points incl. quotes, backslashes, newlines, controls, non-printables, '
                'astral, lone surrogates), multiline None/True/False and every isprintable predicate, evaluating text_repr(s) as a Python literal gives s '
                '(per-line repr, un-escaping of quotes, joining with real newlines, the triple-quote escaping loop, the backslash-newline opener; on top of '
                'a model of repr() and of literal evaluation that is itself proved to round-trip). C07_str_total / C07_describe_total / '
                'C07_mismatch_error_str_total - in an error monad whose failure sources are those of the code (inherited Matcher.__str__ per a table '
                'extracted from the tree on every run, unset Mismatch._description, %-formatting arity), str(matcher), describe(), get_details() and '
                'str(MismatchError) (verbose or not, annotated or not) succeed for every stock matcher expression of any depth and every value; a well-formed MatchesPredicate returns its Mismatch for every matchee, tuples included. '
                'C07_assertThat_iff / C07_expectThat / C07_details_nonclobbering - assertThat and assert_that raise MismatchError iff match() returned a '
                'mismatch; expectThat never raises and forces the failure: C07_expectThat_fails - after an expectThat mismatch, recorded in the test method or in setUp, the run is reported with addFailure whatever the rest of that stage (setUp may give up with a skip or an expected failure), tearDown and any number of cleanups do (return, skip, expected failure, unexpected success, failure, error), and with addError + re-raise when a stage raised KeyboardInterrupt - never success/skip/expected failure/unexpected success (selectExn_forced: the forced AssertionError is appended last and _select_exception prefers the last non-benign exception); details are attached under fresh names (pigeonhole proof for addDetailUniqueName). '
                'Tied to the code by a differential check (real str()/describe()/MismatchError over matcher expressions and over every stock matcher built with each '
                'legal shape of its constructor arguments (tuples of length 0/1/2, list, set, frozenset, str/bytes, None) on tuple and other matchees; '
                'text_repr vs ast.literal_eval; real TestCase runs).',
        'note': 'no finding class left (MatchesPredicate formats a tuple matchee as one value since the fix); repr/pformat/%-formatting of values assumed total; describe() of opaque-leaf mismatches tested, not proved; pyRepr/pyEval are models of '
                'CPython validated against repr/ast.literal_eval; the end-of-run outcome is a three-line model of RunTest',
        'technique': 'Lean 4: list-level proof of the text_repr round trip (hex codec, escape atoms, replace state machine, triple-quote loop), structural '
                     'induction over matcher expressions in an error monad with a table regenerated from the tree, pigeonhole argument for unique detail '
                     'names; executable spec shared with a differential correspondence check',
    }

    def __init__(self):
        self.unmodelled = None

    # ----- tie 1: which classes have a usable __str__
    def extract_tables(self, repo):
        import testtools.matchers as M
        from testtools.matchers._impl import Matcher
        import testtools.matchers._dict, testtools.matchers._higherorder, testtools.matchers._const

        def kind(cls):
            f = cls.__str__
            if f is Matcher.__str__:
                return 'inherited'
            if f is object.__str__:
                return 'object'
            return 'own'
        rows = []
        for name in CLASS_ROWS:
            cls = getattr(M, name, None)
            if isinstance(cls, type):
                rows.append((name, kind(cls)))
        for name, make in (('_MatchesPredicateWithParams', lambda: M.HasLength(1)), ('_Always', M.Always), ('_Never', M.Never)):
            try:
                rows.append((name, kind(type(make()))))
            except Exception:
                pass

        seen = {r[0] for r in rows}
        for name, variants in ctor_table():
            for make in variants:
                try:
                    cls = type(make())
                except Exception:
                    continue
                if cls.__name__ not in seen:
                    seen.add(cls.__name__)
                    rows.append((cls.__name__, kind(cls)))

        def usable(obj, depth=0):
            if depth > 6:
                return True
            if hasattr(obj, 'match') and not isinstance(obj, type):
                if kind(type(obj)) == 'inherited':
                    return False
                return all(usable(x, depth + 1) for x in getattr(obj, '__dict__', {}).values())
            if isinstance(obj, (list, tuple)):
                return all(usable(x, depth + 1) for x in obj)
            if isinstance(obj, dict):
                return all(usable(x, depth + 1) for x in obj.values())
            return True
        opq = []
        for i, (name, make, _) in enumerate(P6.cat()):
            try:
                opq.append((i, usable(make())))
            except Exception:
                opq.append((i, False))
        text = ('/-! GENERATED by harness/props/c07.py (`extract_tables`) from the tree under test - do not edit.\n'
                'How `str()` of an instance of each stock matcher class is resolved: `own` = the class (or a base other\n'
                'than `Matcher`/`object`) defines `__str__`; `object` = falls through to `object.__str__` (total, does not\n'
                'render sub-matchers); `inherited` = resolves to `Matcher.__str__`, which raises NotImplementedError. -/\n'
                'namespace TTV.Generated.C07\n'
                'inductive StrKind | own | object | inherited\nderiving DecidableEq, Repr\n'
                'def strKinds : List (String × StrKind) :=\n  [' +
                ',\n   '.join('("%s", .%s)' % r for r in rows) + ']\n'
                '/-- catalog id of an opaque leaf ↦ every matcher object inside the built instance has a usable `__str__` -/\n'
                'def opaqueStr : List (Nat × Bool) :=\n  [' +
                ', '.join('(%d, %s)' % (i, 'true' if b else 'false') for i, b in opq) + ']\n'
                'end TTV.Generated.C07\n')
        from harness import pymatch2lean
        return {'TTV/Generated/C07.lean': text, 'TTV/Generated/MatchSrc.lean': pymatch2lean.generate(repo)}

    # ----- describe
    def result(self, f, typ):
        try:
            x = f()
        except BaseException as e:
            if isinstance(e, (KeyboardInterrupt, SystemExit)) and not getattr(e, 'verif_generated', False):
                raise
            return ['raised', C6.classify_exc(e)], None
        if not isinstance(x, typ):
            return ['wrong-type', type(x).__name__], x
        if typ is str:
            # the same question asked again of the same object must get the same text (a mismatch that describes
            # itself from a generator is empty the second time)
            try:
                y = f()
            except BaseException as e:
                if isinstance(e, (KeyboardInterrupt, SystemExit)) and not getattr(e, 'verif_generated', False):
                    raise
                return ['raised', 'Unstable'], x
            if y != x:
                return ['raised', 'Unstable'], x
        return 'ok', x

    def run_describe(self, inp):
        from testtools.matchers import Annotate, MismatchError
        _, m, v, annotated, verbose = inp
        P6.cat()
        if P6.unmodelled:
            return ['unmodelled'] + P6.unmodelled
        with warnings.catch_warnings():
            warnings.simplefilter('ignore')
            ctx = C6.Ctx()
            pv = C6.build_v(v, ctx)
            real = P6.build_m(m, ctx, 1 if verbose else 0, [])    # verbose: equal sub-terms are one shared object
            matcher = Annotate.if_message('msg \xe9' if annotated else '', real)
            rs, _ = self.result(lambda: str(matcher), str)
            try:
                mm = matcher.match(pv)
                matched = 'match' if mm is None else 'mismatch'
            except BaseException as e:
                if isinstance(e, (KeyboardInterrupt, SystemExit)) and not getattr(e, 'verif_generated', False):
                    raise
                matched = ['raised', 'Any' if P6.coarse(m) else C6.classify_exc(e)]
                mm = None
            if matched == 'mismatch':
                rd, _ = self.result(mm.describe, str)
                rg, _ = self.result(mm.get_details, dict)
                # a fresh mismatch, as in assertThat (LabelledMismatches of the dict matchers describes only once:
                # it holds a generator)
                err = MismatchError(pv, matcher, matcher.match(pv), verbose)
                re_, _ = self.result(lambda: str(err), str)
            else:
                rd = rg = re_ = 'ok'
        return ['describe', rs, matched, rd, rg, re_]

    # ----- text_repr
    def run_textrepr(self, inp):
        from testtools.compat import text_repr
        _, is_bytes, ml, np, s = inp
        text = bytes(s) if is_bytes else ''.join(map(chr, s))
        multiline = None if ml is None else ml[1]

        def back(lit):
            try:
                x = ast.literal_eval(lit)
            except Exception:
                return None
            if type(x) is not type(text):
                return None
            return ['some', list(x) if is_bytes else [ord(c) for c in x]]
        out = text_repr(text, multiline=multiline)
        rep = repr(text)
        return ['textrepr', [ord(c) for c in out], back(out), [ord(c) for c in rep], back(rep)]

    # ----- assertThat / assert_that / expectThat
    def run_assert(self, inp):
        import testtools
        from testtools.assertions import assert_that
        from testtools.content import text_content
        from testtools.matchers import Mismatch, MismatchError
        from testtools.testresult.doubles import ExtendedTestResult
        api, existing, mm = inp[1:4]
        after, td, cleanups = (inp[4], inp[5], inp[6]) if len(inp) > 4 else ('ret', 'ret', [])
        place = inp[7] if len(inp) > 7 else 'body'
        names = None if mm is None else mm[1]
        obs = {'raised': False, 'continued': False, 'names': None, 'ff': None}

        def do(case, act):
            """what a stage of the test does after the call under test"""
            if act == 'skip':
                case.skipTest('optional dependency missing')
            elif act == 'xfail':
                case.expectFailure('known bug', case.assertEqual, 1, 0)
            elif act == 'uxsuccess':
                case.expectFailure('known bug', case.assertEqual, 1, 1)
            elif act == 'failure':
                case.fail('plain failure')
            elif act == 'error':
                raise ValueError('plain error')
            elif act == 'interrupt':
                e = KeyboardInterrupt()
                e.verif_generated = True
                raise e

        class Mis(Mismatch):
            def describe(self):
                return 'does not fit \xe9'

            def get_details(self):
                return {render_name([b, 0]): text_content('from the mismatch %d' % b) for b in names}

        class DM:
            def match(self, x):
                return None if names is None else Mis()

            def __str__(self):
                return 'DM()'

        class T(testtools.TestCase):
            def tearDown(self):
                super().tearDown()
                do(self, td)

            def setUp(self):
                if place == 'setUpEarly':      # own work first, the upcall last (never reached when the stage raises)
                    self.stage()
                super().setUp()
                if place == 'setUp':
                    self.stage()

            def test_it(self):
                if place == 'body':
                    self.stage()

            def stage(self):
                for c in cleanups:
                    self.addCleanup(do, self, c)
                for n in existing:
                    self.addDetail(render_name(n), text_content('pre-existing'))
                try:
                    if api == 'assertThat':
                        self.assertThat(1, DM(), 'note' if len(existing) % 2 else '', verbose=bool(len(existing) % 3))
                    elif api == 'expectThat':
                        self.expectThat(1, DM(), 'note' if len(existing) % 2 else '', verbose=bool(len(existing) % 3))
                    else:
                        assert_that(1, DM(), 'note' if len(existing) % 2 else '', verbose=bool(len(existing) % 3))
                    obs['continued'] = True
                except MismatchError:
                    obs['raised'] = True
                    raise
                finally:
                    obs['names'] = [parse_name(k) for k in self.getDetails()]
                    obs['ff'] = bool(getattr(self, 'force_failure', None))
                do(self, after)
        res = ExtendedTestResult()
        propagated = False
        try:
            T('test_it').run(res)
        except KeyboardInterrupt as e:
            if not getattr(e, 'verif_generated', False):
                raise
            propagated = True
        kinds = [e[0] for e in res._events if e[0].startswith('add')]
        outcome = {'addSuccess': 'success', 'addFailure': 'failure', 'addError': 'error', 'addSkip': 'skip',
                   'addExpectedFailure': 'xfail', 'addUnexpectedSuccess': 'uxsuccess'}.get(kinds[0] if len(kinds) == 1 else '', 'other')
        # the details reported with the outcome still contain every name seen right after the call
        if kinds and len(res._events) >= 2:
            ev = [e for e in res._events if e[0].startswith('add')][0]
            reported = ev[2] if len(ev) > 2 and isinstance(ev[2], dict) else {}
            if outcome != 'success' and not all(render_name(n) in reported for n in obs['names']):
                outcome = 'details-lost'
        return ['assert', obs['raised'], obs['continued'], obs['names'], obs['ff'], outcome, propagated]

    # ----- constructor-argument shapes
    def ctors(self):
        if getattr(self, '_ctors', None) is None:
            import testtools.matchers as M
            self._ctors = ctor_table()
            self._matchees = ctor_matchees()
            self._ctor_seen = {}
            self._fs = {}
            self._ctor_missing = sorted(set(M.__all__) - {n for n, _ in self._ctors})
        return self._ctors

    def fs_variant(self, row, variant):
        k = (row, variant)
        if k not in self._fs:
            self._fs[k] = self._ctors[row][0] in PATH_ROWS or touches_fs(self._ctors[row][1][variant]())
        return self._fs[k]

    def run_ctor(self, inp):
        from testtools.matchers import Annotate, MismatchError
        _, cls, row, variant, mi, annotated, verbose = inp
        T = self.ctors()
        if self._ctor_missing:
            return ['unmodelled'] + self._ctor_missing
        with warnings.catch_warnings():
            warnings.simplefilter('ignore')
            real = T[row][1][variant]()
            if type(real).__name__ != cls:
                return ['ctor-class-changed', type(real).__name__]
            kind, make = self._matchees[mi]
            if kind in INT_LIKE and self.fs_variant(row, variant):
                return ['unsafe-input', 'int-to-filesystem-matcher']
            value = make()
            matcher = Annotate.if_message('msg \xe9' if annotated else '', real)
            rs, _ = self.result(lambda: str(matcher), str)
            rd = rg = re_ = 'ok'
            refused = False
            try:
                mm = matcher.match(value)
            except BaseException as e:
                if isinstance(e, (KeyboardInterrupt, SystemExit)) and not getattr(e, 'verif_generated', False):
                    raise
                mm, refused = None, True   # match() may refuse a matchee outside the matcher's domain: nothing to describe then
            self._ctor_seen[(row, variant, mi)] = 'refused' if refused else 'match' if mm is None else 'mismatch'
            if mm is not None:
                rd, _ = self.result(mm.describe, str)
                rg, _ = self.result(mm.get_details, dict)
                err = MismatchError(value, matcher, matcher.match(value), verbose)
                re_, _ = self.result(lambda: str(err), str)
        return ['ctor', rs, rd, rg, re_]

    def gen_ctor(self, rng):
        T = self.ctors()
        while True:
            row = rng.randrange(len(T))
            variant = rng.randrange(len(T[row][1]))
            mi = rng.randrange(len(self._matchees))
            if self._matchees[mi][0] in INT_LIKE and self.fs_variant(row, variant):
                continue
            if T[row][0] in PATH_ROWS and rng.random() < 0.5:
                mi = rng.choice([i for i, (k, _) in enumerate(self._matchees) if k == 'path'])
            cls = type(T[row][1][variant]()).__name__
            return ['ctor', cls, row, variant, mi, rng.random() < 0.3, rng.random() < 0.5]

    def run_impl(self, inp):
        try:
            if inp[0] == 'ctor':
                return self.run_ctor(inp)
            if inp[0] == 'describe':
                return self.run_describe(inp)
            if inp[0] == 'textrepr':
                return self.run_textrepr(inp)
            return self.run_assert(inp)
        except Exception as e:
            return ['harness-raised', type(e).__name__]

    # ----- generators
    def np_of(self, s):
        return sorted({c for c in s if c >= 128 and not chr(c).isprintable()})

    def gen_text(self, rng, small=False):
        is_bytes = rng.random() < 0.3
        n = rng.choice([0, 1, 2, 3, 3, 4, 5, 6, 8])
        if rng.random() < 0.3:      # quote-heavy: runs of quotes next to backslashes and line ends
            s = [rng.choice([39, 39, 39, 39, 92, 10, 34, 97]) for _ in range(n)]
        elif is_bytes:
            s = [rng.choice(BYTE_ALPHABET) if rng.random() < 0.85 else rng.randrange(256) for _ in range(n)]
        else:
            s = [ord(rng.choice(ALPHABET)) if rng.random() < 0.85 else rng.choice([rng.randrange(0x80), rng.randrange(0x3000), rng.randrange(0x110000)])
                 for _ in range(n)]
        ml = rng.choice([None, ['some', True], ['some', False]])
        return ['textrepr', is_bytes, ml, [] if is_bytes else self.np_of(s), s]

    def gen_assert(self, rng):
        api = rng.choice(['assertThat', 'assertThat', 'expectThat', 'expectThat', 'assert_that'])
        pool = [[b, s] for b in (0, 2, 3) for s in (0, 1, 2, 3)]
        existing = rng.sample(pool, rng.choice([0, 0, 1, 2, 3, 4, 6]))
        if rng.random() < 0.5:       # dense prefixes name, name-1, name-2: the interesting collisions
            existing = [[b, s] for b in rng.sample([0, 2, 3], rng.randint(1, 3)) for s in range(rng.randint(1, 3))]
            rng.shuffle(existing)
        mm = None if rng.random() < 0.25 else ['some', rng.sample([2, 3, 4], rng.choice([0, 1, 1, 2, 3]))]
        if rng.random() < 0.35:
            return ['assert', api, existing, mm, 'ret', 'ret', []]
        # the test goes on after the call: rest of the body, tearDown, cleanups (registered in this order, run LIFO)
        act = lambda: rng.choice(ACTS) if rng.random() < 0.45 else 'ret'
        cleanups = [act() for _ in range(rng.choice([0, 0, 1, 1, 2, 3]))]
        if rng.random() < 0.35:      # the call sits in setUp, which then returns or gives up (skip, expected failure, error ...)
            return ['assert', api, existing, mm, rng.choice(ACTS) if rng.random() < 0.6 else 'ret', act(), cleanups,
                    rng.choice(['setUp', 'setUp', 'setUpEarly'])]
        return ['assert', api, existing, mm, act(), act(), cleanups]

    def gen_describe(self, rng):
        g = C6.Gen(rng, P6)
        while True:
            v = g.value()
            if rng.random() < 0.12:
                v = rng.choice([['ei', 'ValueError', 1], ['s', 233, 10, 0, 39], ['b', 255, 0, 10], v])
            m = g.matcher(v, rng.choice([0, 0, 1, 1, 2, 2, 3]))
            if rng.random() < 0.12:
                m = ['pred', rng.randrange(len(C6.PREDS)), rng.choice(['one', 'one', 'one', 'zero', 'empty', 'two'])]
            elif rng.random() < 0.08:
                m, v = C6.exc_case(rng, g)
            if 'StrRaisesError' in repr((m, v)):
                continue      # a value whose __str__ raises is outside the universe of C07 (describe() formats matchees with %s)
            c = P6.complete([m, v])
            if c is not None:
                return ['describe', c[0], c[1], rng.random() < 0.4, rng.random() < 0.5]

    def gen(self, rng, tier):
        x = rng.random()
        if x < 0.35:
            return self.gen_describe(rng)
        if x < 0.65:
            return self.gen_text(rng)
        if x < 0.85:
            return self.gen_ctor(rng)
        return self.gen_assert(rng)

    def enumerate(self, tier):
        # every constructor shape of every stock matcher x every matchee of the pool x annotated x verbose
        T = self.ctors()
        for row, (name, variants) in enumerate(T):
            for variant, make in enumerate(variants):
                cls = type(make()).__name__
                for mi, (kind, _) in enumerate(self._matchees):
                    if kind in INT_LIKE and self.fs_variant(row, variant):
                        continue
                    for a in (False, True):
                        for vb in (False, True):
                            yield ['ctor', cls, row, variant, mi, a, vb]
        for n in range(0, 5):
            for tup in itertools.product(SMALL, repeat=n):
                s = [ord(c) for c in tup]
                for ml in (None, ['some', True], ['some', False]):
                    yield ['textrepr', False, ml, self.np_of(s), s]
            for tup in itertools.product(SMALL_BYTES, repeat=n):
                for ml in (None, ['some', True], ['some', False]):
                    yield ['textrepr', True, ml, [], list(tup)]
        # every stock opaque leaf / predicate leaf at the root, on a few values
        vals = [['s'] + [ord(c) for c in C6.Scratch.get().path(i)] for i in range(len(C6.Scratch.get().paths))] + [['s', 97, 98], ['i', 3], ['fr', ['i', 1]], ['ei', 'ValueError', 1]]
        for k in range(len(P6.cat())):
            for v in vals:
                if k in C6.OPQ_FOR['path'] and v[0] != 's':
                    continue
                c = P6.complete([['opq', k], v])
                if c is not None:
                    for a in (False, True):
                        for vb in (False, True):
                            yield ['describe', c[0], c[1], a, vb]

        # the call in either stage x what the stage goes on to do x tearDown x a cleanup
        for place in ('body', 'setUp', 'setUpEarly'):
            for api in ('assertThat', 'expectThat', 'assert_that'):
                for mm in (None, ['some', []], ['some', [2]]):
                    for after in ['ret'] + sorted(set(ACTS)):
                        for td in ('ret', 'skip', 'error', 'interrupt'):
                            for cs in ([], ['skip'], ['xfail', 'ret'], ['interrupt']):
                                yield ['assert', api, [[0, 0]] if mm else [], mm, after, td, cs, place]

    def nontrivial(self, inp, trace):
        if not isinstance(trace, list) or not trace:
            return False
        if inp[0] == 'ctor':
            return getattr(self, '_ctor_seen', {}).get((inp[2], inp[3], inp[4])) == 'mismatch'
        if inp[0] == 'describe':
            return trace[0] == 'describe' and trace[2] == 'mismatch'
        if inp[0] == 'textrepr':
            return any(c in (39, 34, 92, 10) or c < 32 or c > 126 for c in inp[4])
        return bool(inp[2]) or (inp[3] is not None and bool(inp[3][1])) or (len(inp) > 4 and (inp[4] != 'ret' or inp[5] != 'ret' or bool(inp[6])))

    def features(self, inp, trace):
        f = ['kind:' + inp[0]]
        ok = isinstance(trace, list) and trace and trace[0] == inp[0]
        if inp[0] == 'ctor':
            T = self.ctors()
            f += ['ctor:' + T[inp[2]][0], 'ctor-matchee:' + self._matchees[inp[4]][0],
                  'ctor-outcome:' + self._ctor_seen.get((inp[2], inp[3], inp[4]), '?')]
            if ok:
                for name, r in zip(('str', 'describe', 'details', 'errstr'), trace[1:5]):
                    if r != 'ok':
                        f.append('ctor-%s-fails:%s' % (name, r[1] if isinstance(r, list) else r))
        elif inp[0] == 'describe':
            m = inp[1]
            f += ['root:' + m[0], 'annotated' if inp[3] else 'plain', 'verbose' if inp[4] else 'terse',
                  'value:' + (inp[2][0] if isinstance(inp[2], list) else 'none')]
            if ok:
                f.append('matched:' + (trace[2] if isinstance(trace[2], str) else 'raised'))
                for name, r in zip(('str', 'describe', 'details', 'errstr'), (trace[1], trace[3], trace[4], trace[5])):
                    if r != 'ok':
                        f.append('%s-fails:%s' % (name, r[1]))
        elif inp[0] == 'textrepr':
            s = inp[4]
            f += ['bytes' if inp[1] else 'str', 'ml=' + ('None' if inp[2] is None else str(inp[2][1])), 'len=%d' % min(len(s), 6)]
            for tag, test in (('quote', lambda c: c == 39), ('dquote', lambda c: c == 34), ('backslash', lambda c: c == 92),
                              ('newline', lambda c: c == 10), ('control', lambda c: c < 32 and c != 10), ('nonascii', lambda c: c > 127),
                              ('astral', lambda c: c > 0xffff)):
                if any(test(c) for c in s):
                    f.append('has:' + tag)
            if "''" in ''.join(chr(c) for c in s if c < 0x110000 and not 0xd800 <= c < 0xe000):
                f.append('has:quote-run')
            if inp[3]:
                f.append('has:nonprintable>=128')
        else:
            f += ['api:' + inp[1], 'existing=%d' % min(len(inp[2]), 4), 'mismatch:' + ('none' if inp[3] is None else 'details=%d' % len(inp[3][1]))]
            if len(inp) > 4:
                f += ['after:' + inp[4], 'tearDown:' + inp[5], 'cleanups=%d' % len(inp[6])] + sorted({'cleanup:' + c for c in inp[6]})
                place = inp[7] if len(inp) > 7 else 'body'
                f.append('place:' + place)
                if inp[1] == 'expectThat' and inp[3] is not None and any(a in ('skip', 'xfail') for a in [inp[4], inp[5]] + inp[6]):
                    f.append('failed-expectation-then-skip/xfail')
                if place != 'body' and inp[4] != 'ret':
                    f.append('setUp-gives-up:' + inp[4])
                    if inp[1] == 'expectThat' and inp[3] is not None:
                        f.append('failed-expectation-in-setUp-then:' + inp[4])
            if ok:
                f.append('outcome:' + str(trace[5]))
                if any(n[1] > 0 for n in trace[3][len(inp[2]):]):
                    f.append('renamed-detail')
        if not ok:
            f.append('trace:' + str(trace[0] if isinstance(trace, list) and trace else trace))
        return f

    def shrink(self, inp):
        if inp[0] == 'ctor':
            if inp[5]:
                yield inp[:5] + [False, inp[6]]
            if inp[6]:
                yield inp[:6] + [False]
            return
        if inp[0] == 'textrepr':
            s = inp[4]
            for i in range(len(s)):
                t = s[:i] + s[i + 1:]
                yield ['textrepr', inp[1], inp[2], [c for c in inp[3] if c in t], t]
            for i, c in enumerate(s):
                if c != 97:
                    t = s[:i] + [97] + s[i + 1:]
                    yield ['textrepr', inp[1], inp[2], [c for c in inp[3] if c in t], t]
        elif inp[0] == 'describe':
            for c in P6.shrink([inp[1], inp[2]]):
                yield ['describe', c[0], c[1], inp[3], inp[4]]
            if inp[3]:
                yield ['describe', inp[1], inp[2], False, inp[4]]
            if inp[4]:
                yield ['describe', inp[1], inp[2], inp[3], False]
        else:
            ex = inp[2]
            tail = list(inp[4:]) if len(inp) > 4 else ['ret', 'ret', []]
            if len(inp) > 4:
                after, td, cs = tail[:3]
                pl = tail[3:]
                for i in range(len(cs)):
                    yield ['assert', inp[1], ex, inp[3], after, td, cs[:i] + cs[i + 1:]] + pl
                if td != 'ret':
                    yield ['assert', inp[1], ex, inp[3], after, 'ret', cs] + pl
                if after != 'ret':
                    yield ['assert', inp[1], ex, inp[3], 'ret', td, cs] + pl
                if pl == ['setUpEarly']:
                    yield ['assert', inp[1], ex, inp[3], after, td, cs, 'setUp']
                if pl and pl != ['body']:
                    yield ['assert', inp[1], ex, inp[3], after, td, cs]
            for i in range(len(ex)):
                yield ['assert', inp[1], ex[:i] + ex[i + 1:], inp[3]] + tail
            if inp[3] is not None:
                ds = inp[3][1]
                for i in range(len(ds)):
                    yield ['assert', inp[1], ex, ['some', ds[:i] + ds[i + 1:]]] + tail


PROP = C07()
