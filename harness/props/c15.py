"""C15 - Spinner.run returns the function's own result within the timeout and restores the process.

The real `testtools.twistedsupport._spinner.Spinner` is driven on the virtual-time reactor
`harness/vreactor.py` through a *history* of steps on one reactor and one Spinner object.

Input : [debug, [step, ...]]
  step = ['run', T, [[delay, act], ...]   calls scheduled before spinner.run() (they precede the timeout call)   [+ , n] see below
                 , [op, ...]              what f does, in order: ['later', delay, act] | ['now', act]
                 , term]                  ['ret', v] | ['raise', e] | 'deferred' (f returns the scenario's Deferred)
                 [, n]]                   optional: Spinner._OBLIGATORY_REACTOR_ITERATIONS for this run (default 0)
       | 'clear'                          spinner.clear_junk()
       | ['setsig', s, h]                 between two calls the process installs handler h for SIGNALS[s]
       | 'swap'                           from now on the calls go to the other of two Spinner objects on the same reactor
  T    = n | 'neg'                        'neg': a negative timeout - reactor.callLater raises, run() raises before its try/finally
  act  = ['fire', v] | ['fail', e] | 'stop' | 'noop' | 'addsel' | ['setsig', s, h] | ['reenter', fresh]
       | ['spawn', d, child]                       a delayed call that schedules `callLater(d, child)` when it runs; child = 'noop' | 'addsel' |
                                                   ['spawn', d, child]; the child's label = the parent's + len(pre) + len(body).  Only in runs whose f
                                                   returns / raises synchronously (the loop does not iterate; the call can only be run by the obligatory
                                                   iterations of _clean) and only as a delayed call
       | ['fireold', k, v] | ['failold', k, e]     fire / fail the Deferred of the run k runs earlier (of either Spinner): a Deferred
                                                   that outlived its run (timeout, interrupt) and fires during a later one
  v    = a value token: VALUES[v] for v < len(VALUES) (objects with a hostile ==, falsy-but-valid values), else the int v.
         "run returns the value f returned or its Deferred fired with" is about the IDENTITY of the value: the harness reports
         the token of the object that came back, found with `is`.
  e    = a failure token: the Deferred fails with / f raises `failure_of(e)`, a KeyError carrying e whose INSTANCE is falsy for
         e % 3 == 1 (a subclass with __bool__ returning False) and e % 3 == 2 (a subclass with __len__ returning 0): the truth value of
         an exception is nothing the Spinner may look at (seed C14-h did, in the runner).
Trace : [obs, ...]   (see TTV/Drv/C15.lean)
  obs  = ['run', result, events, reentries, junk, pending, sels, running, stopRestored, sigBefore, sigAfter, elapsed]
       | ['cleared', junk] | ['sigs', handlers now] | 'swapped'
Labels: the i-th `pre` call has label i, the j-th operation of f has label len(pre)+j, the spinner's own
timeout call is `timeout`.
"""
import itertools, signal
from harness.core import Prop

SIGNALS = ['SIGINT', 'SIGTERM', 'SIGCHLD', 'SIGUSR1']      # = Spinner.sigNames in TTV/Model/Spinner.lean
NH = 4                                                      # marker handlers per signal
REAL_UNIT = 0.04                                            # seconds per time unit in the real-reactor scenarios


class Anything:
    """equal to everything (unittest.mock.ANY style)"""

    def __eq__(self, other):
        return True

    def __ne__(self, other):
        return False

    __hash__ = None


class NoTruth:
    """the result of comparing an ArrayLike: it has no truth value"""

    def __bool__(self):
        raise ValueError('The truth value of an array with more than one element is ambiguous')


class ArrayLike:
    """== yields an object without a truth value (numpy / pandas style)"""

    def __eq__(self, other):
        return NoTruth()

    __ne__ = __eq__
    __hash__ = None


class Falsy:
    """an ordinary object that happens to be false and empty"""

    def __bool__(self):
        return False

    def __len__(self):
        return 0


def _values():
    from unittest import mock
    return [Anything(), ArrayLike(), None, 0, '', [], False, 0.0, mock.ANY, (), Falsy(), {}]


VALUES = _values()                                          # value token v < len(VALUES) -> VALUES[v]; a larger token is the int itself
VALUE_NAMES = ['anything', 'arraylike', 'None', '0', 'empty-str', 'empty-list', 'False', '0.0', 'mock.ANY', 'empty-tuple', 'falsy-object',
               'empty-dict']


class KeyErrorNoBool(KeyError):
    def __bool__(self):
        return False


class KeyErrorEmpty(KeyError):
    def __len__(self):
        return 0


def failure_of(e):
    """the exception of failure token e: a KeyError carrying e; for e % 3 == 1 / 2 its instance is falsy (by __bool__ / by __len__)"""
    return (KeyError, KeyErrorNoBool, KeyErrorEmpty)[e % 3](e)


def value_of(v):
    return VALUES[v] if v < len(VALUES) else v


def token_of(x):
    """the token of the very object `x` (identity, never ==), or None"""
    for k, obj in enumerate(VALUES):
        if x is obj:
            return k
    if type(x) is int and x >= len(VALUES):
        return x
    return None


def _mk_handler(s, h):
    def handler(signum, frame):
        pass
    handler.__name__ = 'marker_%s_%d' % (SIGNALS[s], h)
    return handler


HANDLERS = [[_mk_handler(s, h) for h in range(NH)] for s in range(len(SIGNALS))]


class Sel:
    def __init__(self, label):
        self.label = label


class C15(Prop):
    id = 'C15'
    budgets = {'quick': 4000, 'thorough': 150000}
    time_limit = {'quick': 40, 'thorough': 600}
    rule = ('histories of 1-4 runs (steps: spinner.run scenario | clear_junk | the process installs a signal handler) on one virtual-time '
            'reactor and one Spinner: f returns / raises / '
            'returns a Deferred; 0-3 delayed calls scheduled before run() and 0-5 operations inside f (delayed or immediate: fire, fail, '
            'reactor.stop, noop, register selectable, install signal handler, re-entrant Spinner.run), delays and timeout in 0..6 so that '
            'ties between firing, timeout and stop are frequent; thorough adds the full grid term x (fire|fail at 1,2,3 before/inside f or '
            'at once) x (stop at 1,2,3 before/inside f or at once) x order x 0-2 leftovers with timeout 2, and two-run histories with and '
            'without clear_junk. non-trivial = some run is not refused and has a Deferred-returning f with at least one delayed fire/fail/stop, '
            'or the history has a refused or rejected run; a fifth of the histories is about Deferreds that outlive their run: runs that '
            'end by timeout / interrupt without their Deferred having fired, later runs (same Spinner, or after `swap` the second Spinner '
            'object on the same reactor) during which the Deferred of the run 1-3 runs earlier fires or fails (before, at, after the later '
            'run\'s own firing, inside f, scheduled before run) - plus a fixed grid of such histories in every quick run; the values f returns / its Deferred fires with are drawn from 12 special objects '
            '(equal to everything, mock.ANY, == without a truth value, None, 0, 0.0, False, empty str/list/tuple/dict, a falsy object) and '
            'plain ints, and the value that comes back is identified with `is`; every quick run also covers the grid value x (returned | '
            'already-fired Deferred | fired later before/inside f | fired at the instant of a stop) x timeout 0/3 and a reuse history; distinct = distinct input S-expression. A quarter of the random histories is about '
            'the signal handlers: 2-5 runs on the one Spinner, 40% of them with a negative timeout (reactor.callLater raises, run() raises '
            'before its try/finally), the process installing handlers (4 signals x 4 handler tokens) between the calls, 85% clear_junk; '
            'thorough adds (signal x handler) x rejected call x (signal x handler) x 6 kinds of next run. 13 scenarios on the REAL Twisted '
            'reactor (feature reactor:real) come first in the thorough enumeration, 5 of them are part of every quick run')
    assumptions = [
        'translator tie: harness/pyspinner2lean.py re-reads Spinner.run (ordered skeleton incl. the per-run token and the finally '
        'ladder), run_function, _got_success/_got_failure/_stop_reactor/_timed_out/_fake_stop/_cancel_timeout, the arms of _get_result, '
        '_clean, _OBLIGATORY_REACTOR_ITERATIONS and (as shapes) _save_signals/_restore_signals/not_reentrant/trap_unhandled_errors as data; '
        'TTV.SpinnerSkel gives the data its meaning, C15_src_* prove the model is that interpretation (trusted: the recogniser, and that '
        'the interpreter reads the recognised statement forms as Python does); unrecognised statements become .unknown',
        '_OBLIGATORY_REACTOR_ITERATIONS is a per-run input (0-3). `spawn` actions (a delayed call that schedules another one - chains up to '
        'depth 4, also registering selectables) are generated, and accepted by the decoder, only in runs whose f returns / raises '
        'synchronously and only as delayed calls: the loop of reactor.run() then does not iterate, so such a call can only be run by '
        '_clean\'s obligatory iterations, where the model gives it its meaning (batch semantics per iteration: what an iteration schedules '
        'waits for the next). Inside the loop a call that schedules calls would need the iteration semantics in the loop model as well '
        '(C14 has it); not modelled for C15. During the iterations the callbacks of the run are dead (fire / fail are inert)',
        'with obligatory iterations a leftover that installs a signal handler is run AFTER _restore_signals: the clauses clean / signals '
        'exempt exactly the runs with _OBLIGATORY_REACTOR_ITERATIONS > 0 whose scenario contains a handler-installing call (lateHandler); '
        'the exact junk accounting (clause junk, C15_junk_exact) is stated for 0 iterations - with more, nothing-pending / no-selectables '
        '(clause clean), the re-entry accounting, boundedness and the differential check cover the iterations',
        'LIMIT OF THE MODEL (audit C15 v3): an interrupt is "reactor.stop() requested at an instant of virtual time", executed as a '
        'delayed call of the reactor. The runtime behaviour it cannot exhibit: a real SIGINT/SIGTERM whose Twisted handler queues '
        'reactor.callFromThread(reactor.stop) (a) in the very reactor iteration in which the run ends - the queued _fake_stop stays in '
        'reactor.threadCallQueue, is not junk, and crashes the NEXT run (NoResultError) - or (b) in the few bytecodes between '
        'un-patching reactor.stop and restoring the signal handlers in the finally block - the REAL reactor.stop is queued and later '
        'runs get NoResultError / ReactorNotRestartable. threadCallQueue and signal delivery between bytecodes are not modelled; '
        'recorded, not repaired',
        'borderline, outside the stated domain (audit C15 b1-b9), not modelled: waiting with a second Spinner on a Deferred that already '
        'went through a run yields None (the chain ends in None by Twisted\'s rules); stop and firing in the SAME reactor iteration yield '
        'the value ("stopped first" is iteration-granular - modelled as is: the calls of one instant run in scheduling order, C15_tie_*); '
        'Spinner._UNSET as a value; f returning a Failure / coroutine; f cancelling the spinner\'s own timeout call; signal handlers '
        'Python reports as None; set_wakeup_fd / siginterrupt not restored; _OBLIGATORY_REACTOR_ITERATIONS > 0 with a stop during the '
        'extra iterations reaching the real reactor.stop; TimeoutError\'s message calling a raising __repr__',
        'values are opaque tokens in the model (it never looks at them); the harness maps a token to a Python object and maps the object '
        'that run() returned back with `is` (identity, never ==), so "returns the value f returned or its Deferred fired with" is '
        'checked as identity for objects with a hostile == and for falsy values; a failure token e is a KeyError carrying e whose instance '
        'is falsy for e % 3 == 1 (__bool__) and e % 3 == 2 (__len__ returning 0): the truth value of an exception is invisible to the model',
        'the reactor loop, DelayedCall ordering/cancellation and Deferred callback chaining (twisted) are modelled (TTV/Model/Reactor.lean), '
        'not verified; the correspondence runs on harness/vreactor.py (a twisted Clock with the iteration semantics of '
        'ReactorBase.runUntilCurrent) except for the real-reactor scenarios',
        'REAL reactor: 13 smoke scenarios (sync return, sync raise, fires / fails well before the timeout, never fires, stop requested, '
        'leftover junk cancelled and reported, re-entrant run refused, stale junk refused, signal handlers and reactor.stop restored, call '
        'scheduled before run, fires after the timeout, rejected timeout then handlers changed then an ordinary run) run on '
        'twisted.internet.reactor, spun repeatedly (crash, never stop), with 40 ms '
        'per time unit and distinct instants at least 2 units apart; an executed call is reported at its nominal delay, a run in which some '
        'call was more than 0.9 unit late is repeated with a doubled unit (at most 3 times); the trace (order of the executed calls, '
        'result, junk, what is left in the reactor, signal handlers) is compared with the model exactly as for the virtual reactor; the '
        'process is left clean (no delayed calls, readers, writers; reactor not running). 5 scenarios in quick, all 13 in thorough',
        'invalid timeouts: only negative ones are generated (ReactorBase.callLater asserts delay >= 0; harness/vreactor.py asserts the '
        'same); None / str timeouts (TypeError out of callLater) take the same path through Spinner.run and are not generated',
        'the Spinner model has no parameter for the obligatory shake-out iterations of _clean (_OBLIGATORY_REACTOR_ITERATIONS = 0 for the '
        'plain Spinner; the model decides the result when the loop ends and then collects the junk): their interplay with the result is '
        'covered by C14 (broken-Twisted variant), not here',
        'the signal module is modelled as a table handler-per-signal; the thread-pool branch of Spinner._clean is not exercised',
        'not_reentrant is modelled as: every nested call of Spinner.run raises ReentryError and changes nothing',
        'Spinner(debug=True) (DebugTwisted) is exercised but assumed to be unobservable',
    ]

    manifest = {
        'text': 'Theorems for all histories of runs on one reactor and one Spinner object (any number of delayed calls before/inside f, any '
                'delays and timeout, stop requests at any instant, any signal handlers, re-entrant calls, clear_junk or not): the discrete-event '
                'model of Spinner.run on a Clock-like reactor returns/raises exactly the declarative expected result - the function\'s own value or '
                'exception, TimeoutError, NoResultError - decided by the first of "Deferred fires/fails" and "timeout call" in the reactor\'s call '
                'order (time, scheduling order), unless a stop is due strictly earlier (ties at the timeout instant proved in both directions); '
                'StaleJunkError iff junk is uncleared and ReentryError for every nested call, both without any other change; a timeout the '
                'Deferred of an EARLIER run (same or another Spinner on the reactor) that fires or fails during a later run is inert - the '
                'later run returns its own result (per-run callbacks, fix <commit>); a timeout the '
                'reactor rejects makes run raise what callLater raised with nothing changed but the spinner\'s own _saved_signals; whenever '
                'run returns or raises - also then, and whatever an earlier call left in _saved_signals or the process installed in between '
                '- the SIGINT/SIGTERM/SIGCHLD handlers are what they were immediately before THAT call (per call, and by induction over '
                'the history of calls, clear_junk and handler installations on one Spinner); after every run '
                'the reactor is not running, has no delayed calls or selectables, reactor.stop and SIGINT/SIGTERM/SIGCHLD handlers are restored, '
                'the junk is exactly the leftovers, the run lasts at most the timeout and its loop ends by a crash. The hand-written model is tied '
                'to the real Spinner by a differential check on a virtual-time reactor (random histories + exhaustive timing grid), by 13 smoke '
                'scenarios on the real Twisted reactor and by the extracted _PRESERVED_SIGNALS table.',
        'note': 'trusted: Lean kernel, the models TTV/Model/Reactor.lean + Spinner.lean, the harness and harness/vreactor.py; the Twisted reactor '
                'loop, DelayedCall, Deferred chaining and the signal module are modelled, not verified; real-reactor coverage = 12 smoke scenarios '
                '(feature reactor:real: 5 per quick run, 13 per thorough run), everything else on the virtual-time reactor; the thread-pool '
                'path of _clean is not exercised. LIMIT OF THE MODEL: interrupts are reactor.stop() requests at instants of virtual time; a real '
                'signal whose queued callFromThread(reactor.stop) arrives in the iteration in which the run ends, or between un-patching '
                'reactor.stop and restoring the handlers, leaks into the next run (NoResultError / ReactorNotRestartable) - threadCallQueue and '
                'signal delivery between bytecodes are not modelled, the model cannot exhibit this (audit C15 v3, recorded, not repaired)',
        'technique': 'Lean 4 invariant proofs over a discrete-event model (sorted call queue, fuelled reactor loop), executable spec shared with a '
                     'differential correspondence check against the real code on a virtual-time reactor',
    }

    # ----- tie 1: table
    def extract_tables(self, repo):
        from testtools.twistedsupport._spinner import Spinner
        names = list(Spinner._PRESERVED_SIGNALS)
        assert all(isinstance(n, str) and n.isidentifier() for n in names)
        text = ('/-! GENERATED by harness/props/c15.py from testtools/twistedsupport/_spinner.py - do not edit. -/\n'
                'namespace TTV.Generated.C15\n\n'
                '/-- `Spinner._PRESERVED_SIGNALS` -/\n'
                'def preservedSignals : List String := [%s]\n\n'
                'end TTV.Generated.C15\n' % ', '.join('"%s"' % n for n in names))
        # tie 2 (translator): Spinner.run, its callbacks, _get_result, _clean, the signal helpers, not_reentrant, trap_unhandled_errors
        from harness import pyspinner2lean
        return {'TTV/Generated/C15.lean': text, 'TTV/Generated/SpinnerSkel.lean': pyspinner2lean.generate(repo)}

    # ----- implementation side
    def run_impl(self, inp):
        sigs = [getattr(signal, n) for n in SIGNALS]
        saved = [signal.getsignal(s) for s in sigs]
        try:
            scale = REAL_UNIT
            for attempt in range(4):
                for s, sig in enumerate(sigs):
                    signal.signal(sig, HANDLERS[s][0])
                info = {}
                trace = self._run(inp, scale, info)
                if not info.get('disturbed'):
                    return trace
                # the real reactor ran a call late by most of a time unit (machine under load), so the order of the nominal
                # scenario is not guaranteed: once more, with a longer unit
                scale *= 2
            return trace + [['real-reactor-disturbed', info['drift']]]
        except BaseException as e:
            if isinstance(e, KeyboardInterrupt):
                raise
            return ['raised', type(e).__name__]
        finally:
            for sig, h in zip(sigs, saved):
                signal.signal(sig, h)

    def _cur_sigs(self):
        out = []
        for s, n in enumerate(SIGNALS):
            h = signal.getsignal(getattr(signal, n))
            out.append(HANDLERS[s].index(h) if h in HANDLERS[s] else 99)
        return out

    def _run(self, inp, real_unit, info):
        from twisted.internet import defer
        from twisted.internet.defer import AlreadyCalledError
        from testtools.twistedsupport import _spinner as S
        from harness.vreactor import VirtualReactor
        debug, steps = inp[0], inp[1]
        real = len(inp) > 2 and inp[2] == 'real'
        if real:
            # the REAL Twisted reactor, spun repeatedly by the Spinner (crash, never stop); delays in units of `real_unit` seconds;
            # event times are reported as the nominal delay of the call that ran (order and outcome are observed, durations are not);
            # the nominal order is the real order as long as every call runs less than one unit late (distinct instants are at
            # least 2 units apart in the scenarios): the lateness is measured, a disturbed run is repeated by run_impl
            from twisted.internet import reactor as r
            scale = real_unit
            if r.running or r.getDelayedCalls():
                return ['real-reactor-not-clean']
        else:
            r = VirtualReactor()
            scale = 1
        real_events = []

        def make_spinner():
            sp = S.Spinner(r, debug=debug)
            if real:
                timed_out = sp._timed_out          # instrumentation only: note when the spinner's own timeout call runs

                def noting_timed_out(*a, **kw):
                    arrived(real_T[0])
                    real_events.append([real_T[0], 'timeout'])
                    return timed_out(*a, **kw)
                sp._timed_out = noting_timed_out
            return sp
        sp, other_sp = make_spinner(), make_spinner()
        olds = []           # the Deferreds of the earlier runs
        real_T = [0]
        drift = [0.0]

        def arrived(delay):
            drift[0] = max(drift[0], (r.seconds() - t0) / scale - delay)
        label = {}          # id(DelayedCall) -> label
        keep = []           # keeps the labelled objects alive (ids stay unique)
        timeouts = set()

        def jrepr(x):
            if isinstance(x, Sel):
                return ['sel', x.label]
            if id(x) in timeouts:
                return ['call', 'timeout']
            return ['call', label.get(id(x), 'unknown')]

        trace = []
        for step in steps:
            if step == 'clear':
                trace.append(['cleared', [jrepr(x) for x in sp.clear_junk()]])
                continue
            if step == 'swap':
                sp, other_sp = other_sp, sp
                trace.append('swapped')
                continue
            if step[0] == 'setsig':
                signal.signal(getattr(signal, SIGNALS[step[1]]), HANDLERS[step[1]][step[2]])
                trace.append(['sigs', self._cur_sigs()])
                continue
            _, T, pre, body, term = step[:5]
            oblig = step[5] if len(step) > 5 else 0
            sp._OBLIGATORY_REACTOR_ITERATIONS = oblig      # (the class attribute, per run)
            n_labels = len(pre) + len(body)
            bad = T == 'neg'
            T = 0 if bad else T
            d = defer.Deferred()
            t0 = r.seconds()
            now_events, reentries = [], []

            def act(l, a):
                kind = a if isinstance(a, str) else a[0]
                if kind == 'fire':
                    def go():
                        try:
                            d.callback(value_of(a[1]))
                        except AlreadyCalledError:
                            pass
                elif kind == 'fail':
                    def go():
                        try:
                            d.errback(failure_of(a[1]))
                        except AlreadyCalledError:
                            pass
                elif kind in ('fireold', 'failold'):
                    def go():
                        if 1 <= a[1] <= len(olds):
                            try:
                                if kind == 'fireold':
                                    olds[-a[1]].callback(value_of(a[2]))
                                else:
                                    olds[-a[1]].errback(failure_of(a[2]))
                            except AlreadyCalledError:
                                pass
                elif kind == 'stop':
                    def go():
                        r.stop()
                elif kind == 'noop':
                    def go():
                        pass
                elif kind == 'addsel':
                    def go():
                        if real:
                            raise ValueError('selectables are not used in the real-reactor scenarios')
                        r.selectables.append(Sel(l))
                elif kind == 'setsig':
                    def go():
                        if a[1] < len(SIGNALS):
                            signal.signal(getattr(signal, SIGNALS[a[1]]), HANDLERS[a[1]][a[2]])
                elif kind == 'spawn':
                    # a delayed call that schedules another one when it runs; the child's label is the parent's + the number of labels
                    def go():
                        later(a[1], l + n_labels, a[2], (nominal.get(l, 0) + a[1]))
                elif kind == 'reenter':
                    def go():
                        inner = S.Spinner(r) if a[1] else sp
                        try:
                            inner.run(1 * scale, lambda: None)
                            reentries.append('returned')
                        except S.ReentryError:
                            reentries.append('reentry')
                        except Exception as e:
                            reentries.append(['other', type(e).__name__])
                else:
                    raise ValueError(a)
                return go

            nominal = {}        # label -> nominal instant (since the start of the run) of the call

            def later(delay, l, a, at=None):
                go = act(l, a)
                nominal[l] = delay if at is None else at
                if real:
                    def go(go=go, at=nominal[l]):
                        arrived(at)
                        real_events.append([at, l])
                        go()
                dc = r.callLater(delay * scale, go)
                label[id(dc)] = l
                keep.append(dc)

            for i, (delay, a) in enumerate(pre):
                later(delay, i, a)
            p = len(pre)

            def f():
                for j, op in enumerate(body):
                    if op[0] == 'later':
                        later(op[1], p + j, op[2])
                    else:
                        now_events.append([0 if real else int(r.seconds() - t0), p + j])
                        act(p + j, op[1])()
                if term == 'deferred':
                    return d
                if term[0] == 'ret':
                    return value_of(term[1])
                raise failure_of(term[1])

            stop0 = r.stop
            sig_before = self._cur_sigs()
            n_exec = 0 if real else len(r.executed)
            del real_events[:]
            real_T[0] = T
            tc_before = sp._timeout_call
            try:
                x = sp.run(-1 if bad else T * scale, f)
                res = ['value', token_of(x)] if token_of(x) is not None else ['odd-value', type(x).__name__]
            except S.TimeoutError:
                res = 'timeout'
            except S.NoResultError:
                res = 'noresult'
            except S.StaleJunkError:
                res = 'stalejunk'
            except S.ReentryError:
                res = 'reentry'
            except KeyError as e:
                res = ['raised', e.args[0]]
            except AssertionError as e:
                # what ReactorBase.callLater raises for a negative delay
                res = 'rejected' if bad and 'is not greater than or equal to 0' in str(e) else ['other', 'AssertionError']
            except Exception as e:
                res = ['other', type(e).__name__]
            if sp._timeout_call is not tc_before and sp._timeout_call is not None:
                timeouts.add(id(sp._timeout_call))
                keep.append(sp._timeout_call)
            if real:
                arrived(max([e[0] for e in real_events] + [0]))      # the synchronous tail counts, too
                events = now_events + [list(e) for e in real_events]
                n_sel = len([x for x in r.getReaders() + r.getWriters() if x not in r._internalReaders])
                elapsed = max([e[0] for e in real_events] + [0])
            else:
                events = now_events + [[int(t - t0), 'timeout' if id(dc) in timeouts else label.get(id(dc), 'unknown')]
                                       for t, dc in r.executed[n_exec:]]
                n_sel = len(r.selectables)
                elapsed = int(r.seconds() - t0)
            obs = ['run', res, events, reentries, [jrepr(x) for x in sp.get_junk()], len(r.getDelayedCalls()),
                   n_sel, bool(r.running), r.stop == stop0, sig_before, self._cur_sigs(), elapsed]
            if not real and r.errors:
                obs.append(['reactor-errors'] + [type(e).__name__ for e in r.errors])
                del r.errors[:]
            trace.append(obs)
            # the caller tidies up what *it* scheduled if the spinner refused to run (after the observation)
            if res in ('stalejunk', 'rejected'):
                for dc in r.getDelayedCalls():
                    dc.cancel()
            d.addErrback(lambda failure: None)     # an orphaned failed Deferred shall not log at collection
            olds.append(d)
        if real:
            for dc in r.getDelayedCalls():          # leave the process clean whatever happened
                dc.cancel()
            info['drift'] = round(drift[0], 2)
            info['disturbed'] = drift[0] > 0.9
        return trace

    # ----- scenarios on the real reactor (events at least 2 units apart, so that their order is robust under load)
    REAL = [
        ('sync-return', [['run', 4, [], [], ['ret', 7]]], True),
        ('sync-raise', [['run', 4, [], [], ['raise', 3]]], True),
        ('fires-before-timeout', [['run', 6, [], [['later', 2, ['fire', 5]]], 'deferred']], True),
        ('fails-before-timeout', [['run', 6, [], [['later', 2, ['fail', 3]]], 'deferred']], False),
        ('never-fires', [['run', 3, [], [['later', 8, 'noop']], 'deferred'], 'clear'], False),
        ('stop-requested', [['run', 6, [[2, 'stop']], [], 'deferred'], 'clear'], False),
        ('leftover-becomes-junk', [['run', 6, [], [['later', 2, ['fire', 1]], ['later', 8, 'noop']], 'deferred'], 'clear',
                                   ['run', 4, [], [], ['ret', 2]]], False),
        ('reentry-refused', [['run', 8, [], [['now', ['reenter', False]], ['later', 2, ['reenter', True]], ['later', 4, ['fire', 6]]],
                              'deferred']], False),
        ('stale-junk-refused', [['run', 4, [], [['later', 9, 'noop']], ['ret', 1]], ['run', 4, [[3, 'noop']], [], ['ret', 2]], 'clear',
                                ['run', 4, [], [], ['ret', 3]]], True),
        ('signals-restored', [['run', 8, [], [['now', ['setsig', 0, 2]], ['later', 2, ['setsig', 2, 3]], ['now', ['setsig', 3, 1]],
                                             ['later', 4, ['fire', 4]]], 'deferred']], False),
        ('scheduled-before-run', [['run', 6, [[2, ['fire', 1]]], [['later', 4, 'noop']], 'deferred'], 'clear'], False),
        ('fires-after-timeout', [['run', 2, [], [['later', 5, ['fire', 9]]], 'deferred'], 'clear'], True),
        ('obligatory-iterations-run-a-chain', [['run', 4, [], [['later', 0, ['spawn', 50, 'noop']], ['later', 0, ['spawn', 60, 'addsel']]], ['ret', 1], 2],
                                               'clear', ['run', 6, [], [['later', 2, ['fire', 5]]], 'deferred', 2]], False),
        ('rejected-timeout-then-run', [['setsig', 0, 1], ['run', 'neg', [[2, 'noop']], [], ['ret', 0]], ['setsig', 0, 2], ['setsig', 1, 3],
                                       ['run', 6, [], [['later', 2, ['fire', 5]]], 'deferred']], False),
    ]

    def real_inputs(self, quick_only):
        return [[False, steps, 'real'] for _, steps, quick in self.REAL if quick or not quick_only]

    def corpus(self):
        return Prop.corpus(self) + self.real_inputs(True) + self.value_grid() + self.late_grid() + self.oblig_grid()

    def oblig_grid(self):
        """_OBLIGATORY_REACTOR_ITERATIONS = 0..3 x leftovers of a run whose f returns at once (the loop does not iterate, so what f scheduled is
        still there): calls that are due (run by the iterations) or not, that schedule further calls (chains, due in the next iteration or
        never) or register selectables - afterwards nothing may be pending, and the next run must not see anything of it; and x
        interrupted runs with timeout 0, whose own timeout call is still pending and due when _clean iterates"""
        out = []
        chains = [['spawn', 0, ['spawn', 0, 'noop']], ['spawn', 5, 'noop'], ['spawn', 0, 'addsel'], ['spawn', 0, ['spawn', 3, 'addsel']],
                  ['spawn', 1, ['spawn', 0, ['spawn', 0, 'noop']]], 'addsel', 'noop']
        for n in range(4):
            for c in chains:
                for d in (0, 1):
                    for term in (['ret', 3], ['raise', 1]):
                        out.append([False, [['run', 4, [], [['later', d, c], ['later', 0, 'noop']], term, n], 'clear', ['run', 2, [], [], ['ret', 9]]]])
                out.append([False, [['run', 4, [[0, c]], [['later', 0, c]], ['ret', 3], n], 'clear', ['run', 2, [], [['later', 1, ['fire', 4]]], 'deferred', n]]])
            out.append([False, [['run', 3, [], [['later', 1, ['fire', 2]], ['later', 5, 'noop']], 'deferred', n], 'clear', ['run', 2, [[1, 'stop']], [], 'deferred', n]]])
            # an interrupted run whose own timeout call is already due when _clean iterates: the iterations run it, after the result
            # (NoResultError) has been read (seed C15-h cleaned first); the next run must not see the stored TimeoutError
            nxt = ['clear', ['run', 2, [], [['later', 1, ['fire', 4]]], 'deferred', n]]
            for pre, body in (([], [['now', 'stop']]), ([[0, 'stop']], []), ([], [['now', 'stop'], ['later', 0, 'noop']]),
                              ([[0, 'stop'], [0, 'addsel']], [['later', 0, 'noop']])):
                out.append([False, [['run', 0, pre, body, 'deferred', n]] + nxt])
                out.append([False, [['run', 0, pre, body, 'deferred', n], ['run', 0, [], [], 'deferred', n]]])
        return out

    def late_grid(self):
        """a Deferred that outlived its run fires / fails during a later run: first run (times out | is interrupted | times out and the
        junk is not cleared) x later run on (the same | the other) Spinner x what the later run has of its own (value after / before /
        at the instant of the late firing, nothing, a synchronous value, a failure) x late (value | failure)"""
        firsts = [[['run', 1, [], [], 'deferred']], [['run', 5, [[1, 'stop']], [], 'deferred'], 'clear'],
                  [['run', 1, [], [['later', 3, 'noop']], 'deferred'], 'clear'], [['run', 5, [], [['later', 1, 'stop'], ['later', 9, 'noop']], 'deferred']]]
        out = []
        for first in firsts:
            for swap in (False, True):
                for late in (['fireold', 1, 7], ['failold', 1, 2]):
                    seconds = [['run', 9, [], [['later', 1, late], ['later', 2, ['fire', 3]]], 'deferred'],
                               ['run', 9, [], [['later', 2, late], ['later', 1, ['fire', 3]]], 'deferred'],
                               ['run', 9, [], [['later', 1, late], ['later', 1, ['fire', 3]]], 'deferred'],
                               ['run', 9, [[1, ['fire', 3]]], [['later', 1, late]], 'deferred'],
                               ['run', 3, [], [['later', 1, late]], 'deferred'],
                               ['run', 3, [], [['now', late]], ['ret', 4]],
                               ['run', 9, [], [['later', 1, late], ['later', 2, ['fail', 1]]], 'deferred'],
                               ['run', 9, [], [['later', 1, late], ['later', 2, 'stop'], ['later', 3, ['fire', 3]]], 'deferred']]
                    for sec in seconds:
                        out.append([False, first + (['swap'] if swap else []) + [sec, 'clear', ['run', 2, [], [['later', 1, ['fire', 5]]], 'deferred']]])
        return out

    def value_grid(self):
        """every value token x every way a value reaches Spinner._got_success: returned by f, carried by an already fired Deferred,
        by a Deferred fired later (by a call made before run / by f), with timeout 0 where nothing has to be waited for, and once
        more on the same spinner afterwards"""
        out = []
        for v in range(len(VALUES) + 1):
            runs = [['run', 3, [], [], ['ret', v]], ['run', 0, [], [], ['ret', v]],
                    ['run', 3, [], [['now', ['fire', v]]], 'deferred'], ['run', 0, [], [['now', ['fire', v]]], 'deferred'],
                    ['run', 3, [], [['later', 1, ['fire', v]]], 'deferred'], ['run', 3, [[2, ['fire', v]]], [], 'deferred'],
                    ['run', 2, [], [['later', 1, 'stop'], ['later', 1, ['fire', v]]], 'deferred']]
            for sc in runs:
                out.append([False, [sc]])
            out.append([False, [runs[0], runs[4], ['run', 1, [], [['later', 2, ['fire', v]]], 'deferred'], 'clear', runs[2]]])
        return out

    # ----- generators
    def gen_act(self, rng, main=True):
        k = rng.random()
        if main and k < 0.30:
            return ['fire', rng.randrange(len(VALUES) + 3)]
        if main and k < 0.45:
            return ['fail', rng.randrange(4)]
        if k < 0.65:
            return 'stop'
        if k < 0.80:
            return 'noop'
        if k < 0.87:
            return 'addsel'
        if k < 0.94:
            return ['setsig', rng.randrange(4), rng.randrange(1, NH)]
        return ['reenter', rng.random() < 0.5]

    def gen_scen(self, rng):
        T = rng.choice([0, 1, 2, 3, 3, 4, 4, 5, 6])
        delay = lambda: rng.choice([0, 1, 2, 3, T, T, max(T - 1, 0), max(T - 2, 0), T + 1])
        pre = [[delay(), self.gen_act(rng)] for _ in range(rng.choice([0, 0, 0, 1, 1, 2, 3]))]
        body = []
        for _ in range(rng.choice([0, 1, 1, 2, 2, 3, 4, 5])):
            if rng.random() < 0.8:
                body.append(['later', delay(), self.gen_act(rng)])
            else:
                a = self.gen_act(rng, main=rng.random() < 0.3)
                if a == 'stop' and rng.random() < 0.7:
                    a = 'noop'
                body.append(['now', a])
        t = rng.random()
        term = 'deferred' if t < 0.7 else ['ret', rng.randrange(len(VALUES) + 3)] if t < 0.85 else ['raise', rng.randrange(4)]
        return ['run', T, pre, body, term]

    def gen_late(self, rng):
        """histories in which Deferreds outlive their run (timeout, interrupt) and fire during later runs of the same or the other Spinner"""
        steps = []
        for i in range(rng.choice([2, 2, 3, 3, 4])):
            sc = self.gen_scen(rng)
            if i == 0 or rng.random() < 0.5:
                # a run that ends without its Deferred having fired
                sc[4] = 'deferred'
                sc[2] = [[d, a] for d, a in sc[2] if not (isinstance(a, list) and a[0] in ('fire', 'fail'))]
                sc[3] = [op for op in sc[3] if not (isinstance(op[-1], list) and op[-1][0] in ('fire', 'fail'))]
                if rng.random() < 0.5:
                    sc[3].append(['later', rng.choice([0, 1, max(sc[1] - 1, 0)]), 'stop'])
            if i > 0:
                for _ in range(rng.choice([1, 1, 2])):
                    late = [rng.choice(['fireold', 'fireold', 'failold']), rng.choice([1, 1, 1, 2, 3]), rng.randrange(len(VALUES) + 3)]
                    if late[0] == 'failold':
                        late[2] = rng.randrange(4)
                    T = sc[1]
                    where = rng.random()
                    delay = rng.choice([0, 1, 1, 2, max(T - 1, 0), T, T + 1])
                    if where < 0.7:
                        sc[3].insert(rng.randrange(len(sc[3]) + 1), ['later', delay, late])
                    elif where < 0.85:
                        sc[3].insert(rng.randrange(len(sc[3]) + 1), ['now', late])
                    else:
                        sc[2].append([delay, late])
            steps.append(sc)
            if rng.random() < 0.8:
                steps.append('clear')
            if rng.random() < 0.35:
                steps.append('swap')
        return [rng.random() < 0.2, steps]

    def gen_child(self, rng, depth=0):
        k = rng.random()
        if depth >= 3 or k < 0.35:
            return 'noop'
        if k < 0.5:
            return 'addsel'
        return ['spawn', rng.choice([0, 0, 0, 1, 3]), self.gen_child(rng, depth + 1)]

    def gen_oblig(self, rng):
        """runs with _OBLIGATORY_REACTOR_ITERATIONS 0-3; most of them return / raise at once and leave delayed calls behind, some of which
        schedule further calls when they run"""
        steps = []
        for _ in range(rng.choice([1, 2, 2, 3])):
            n = rng.choice([0, 1, 1, 2, 2, 3])
            if rng.random() < 0.65:
                def left():
                    k = rng.random()
                    return ['spawn', rng.choice([0, 0, 1, 3]), self.gen_child(rng)] if k < 0.55 else 'noop' if k < 0.7 else 'addsel' if k < 0.8 \
                        else ['reenter', rng.random() < 0.5] if k < 0.87 else ['setsig', rng.randrange(4), rng.randrange(1, NH)] if k < 0.92 \
                        else 'stop' if k < 0.96 else ['fire', rng.randrange(len(VALUES) + 3)]
                T = rng.choice([0, 1, 2, 4])
                pre = [[rng.choice([0, 0, 1, 2]), left()] for _ in range(rng.choice([0, 0, 1]))]
                body = [['later', rng.choice([0, 0, 0, 1, 2, T]), left()] for _ in range(rng.choice([1, 1, 2, 3]))]
                term = ['ret', rng.randrange(len(VALUES) + 3)] if rng.random() < 0.7 else ['raise', rng.randrange(4)]
                steps.append(['run', T, pre, body, term, n])
            else:
                steps.append(self.gen_scen(rng) + [n])
            if rng.random() < 0.85:
                steps.append('clear')
        return [rng.random() < 0.2, steps]

    def gen(self, rng, tier):
        r0 = rng.random()
        if r0 < 0.12:
            return self.gen_oblig(rng)
        if r0 < 0.3:
            return self.gen_late(rng)
        n = rng.choice([1, 1, 1, 2, 2, 3, 4])
        steps = []
        # a quarter of the histories is about the signal handlers: calls the reactor rejects, the process installing handlers between
        # the calls, runs whose own actions install handlers
        sig_mode = rng.random() < 0.25
        if sig_mode:
            n = rng.choice([2, 3, 3, 4, 5])
        for _ in range(n):
            if sig_mode and rng.random() < 0.6:
                for _ in range(rng.choice([1, 1, 2])):
                    steps.append(['setsig', rng.randrange(4), rng.randrange(NH)])
            sc = self.gen_scen(rng)
            if rng.random() < (0.4 if sig_mode else 0.04):
                sc[1] = 'neg'
            steps.append(sc)
            if rng.random() < (0.85 if sig_mode else 0.75):
                steps.append('clear')
        return [rng.random() < 0.2, steps]

    def enumerate(self, tier):
        for inp in self.real_inputs(False):
            yield inp
        T = 2
        fires = [None] + [(where, d, k) for where in ('pre', 'body') for d in (1, 2, 3) for k in ('fire', 'fail')] + \
                [('now', 0, 'fire'), ('now', 0, 'fail')]
        stops = [None] + [(where, d) for where in ('pre', 'body') for d in (1, 2, 3)] + [('now', 0)]
        terms = ['deferred', ['ret', 7], ['raise', 8]]
        scens = []
        for term, fi, st, order, left in itertools.product(terms, fires, stops, (0, 1), (0, 1, 2)):
            pre, body = [], []
            items = []
            if fi:
                items.append((fi[0], fi[1], [fi[2], 5]))
            if st:
                items.append((st[0], st[1], 'stop'))
            if order:
                items.reverse()
            elif len(items) < 2:
                continue
            for where, d, a in items:
                if where == 'pre':
                    pre.append([d, a])
                elif where == 'body':
                    body.append(['later', d, a])
                else:
                    body.append(['now', a])
            for i in range(left):
                body.append(['later', 5, 'noop'] if i == 0 else ['now', 'addsel'])
            scens.append(['run', T, pre, body, term])
        for sc in scens:
            yield [False, [sc]]
        # two runs on the same spinner, with and without clear_junk between them
        firsts = [['run', 2, [], [['later', 5, 'noop']], ['ret', 1]], ['run', 2, [], [], ['raise', 2]],
                  ['run', 2, [], [['later', 1, 'stop']], 'deferred'], ['run', 1, [], [['later', 3, ['fire', 3]]], 'deferred']]
        for a in firsts:
            for b in scens[::7]:
                for clear in (False, True):
                    yield [False, [a] + (['clear'] if clear else []) + [b]]
        # a rejected call, the process installs handlers, an ordinary run: every signal x handler x kind of second run
        seconds = [['run', 2, [], [], ['ret', 1]], ['run', 2, [], [['later', 1, ['fire', 2]]], 'deferred'],
                   ['run', 1, [], [['later', 3, ['fire', 3]]], 'deferred'], ['run', 3, [], [['later', 1, 'stop']], 'deferred'],
                   ['run', 2, [], [['now', ['setsig', 0, 2]], ['later', 1, ['setsig', 1, 3]], ['later', 2, ['fire', 1]]], 'deferred'],
                   ['run', 'neg', [[1, 'noop']], [['now', ['setsig', 0, 1]]], 'deferred']]
        for s0, h0, s1, h1 in itertools.product(range(4), range(NH), range(4), range(NH)):
            for b in seconds:
                yield [False, [['setsig', s0, h0], ['run', 'neg', [], [], ['ret', 0]], ['setsig', s1, h1], b, 'clear',
                               ['run', 1, [], [], ['ret', 5]]]]

    # ----- measures
    def _runs(self, inp):
        return [s for s in inp[1] if s != 'clear' and s[0] == 'run']

    def _acts(self, sc):
        return [a for _, a in sc[2]] + [op[-1] for op in sc[3]]

    def nontrivial(self, inp, trace):
        if isinstance(trace, list) and any(isinstance(o, list) and o[0] == 'run' and o[1] in ('stalejunk', 'rejected') for o in trace):
            return True
        for sc in self._runs(inp):
            delayed = [a for _, a in sc[2]] + [op[2] for op in sc[3] if op[0] == 'later']
            if sc[4] == 'deferred' and any(a == 'stop' or (isinstance(a, list) and a[0] in ('fire', 'fail')) for a in delayed):
                return True
        return False

    def features(self, inp, trace):
        f = ['steps=%d' % len(inp[1]), 'runs=%d' % len(self._runs(inp)), 'reactor:' + ('real' if len(inp) > 2 else 'virtual')]
        kinds = [s if isinstance(s, str) else s[0] if s[0] == 'setsig' else 'run-neg' if s[1] == 'neg' else 'run' for s in inp[1]]
        if 'swap' in kinds:
            f.append('two-spinners')
        if 'setsig' in kinds:
            f.append('process-installs-handler-between-calls')
        for i, k in enumerate(kinds):
            if k == 'run-neg' and 'run' in kinds[i + 1:]:
                f.append('ordinary-run-after-rejected-call')
                if 'setsig' in kinds[i + 1:][:kinds[i + 1:].index('run')]:
                    f.append('handler-installed-between-rejected-call-and-run')
                break
        if inp[0]:
            f.append('debug')
        if not isinstance(trace, list) or (trace and trace[0] == 'raised'):
            return f + ['harness-raised']
        for sc, o in zip(self._runs(inp), [o for o in trace if isinstance(o, list) and o[0] == 'run']):
            res = o[1]
            f.append('result:' + (res if isinstance(res, str) else res[0]))
            if isinstance(res, list) and res[0] == 'value' and isinstance(res[1], int):
                f.append('value:' + (VALUE_NAMES[res[1]] if res[1] < len(VALUES) else 'int'))
            if isinstance(res, list) and res[0] == 'raised' and isinstance(res[1], int):
                f.append('raised-instance:' + ('truthy', 'falsy-by-bool', 'falsy-by-len')[res[1] % 3])
            f.append('term:' + (sc[4] if isinstance(sc[4], str) else sc[4][0]))
            f.append('obligatory-iterations=%d' % (sc[5] if len(sc) > 5 else 0))
            if len(sc) > 5 and sc[5] > 0 and any(isinstance(e[1], int) and e[1] >= len(sc[2]) + len(sc[3]) for e in o[2]):
                f.append('call-scheduled-during-obligatory-iterations-ran')
            T = 0 if sc[1] == 'neg' else sc[1]
            delayed = [(d, a, 'pre') for d, a in sc[2]] + [(op[1], op[2], 'body') for op in sc[3] if op[0] == 'later']
            for d, a, where in delayed:
                k = a if isinstance(a, str) else a[0]
                if k in ('fire', 'fail', 'stop'):
                    f.append('%s-%s-%s' % (k if k == 'stop' else 'fire', where, 'before' if d < T else 'at' if d == T else 'after') + '-timeout')
            for a in self._acts(sc):
                k = a if isinstance(a, str) else a[0]
                if k in ('addsel', 'setsig', 'reenter', 'fireold', 'failold', 'spawn'):
                    f.append('act:' + k)
            for op in sc[3]:
                if op[0] == 'now':
                    f.append('now:' + (op[1] if isinstance(op[1], str) else op[1][0]))
            olds_fired = [e for e in o[2] if isinstance(e[1], int) and e[1] < len(self._acts(sc)) and
                          isinstance(self._acts(sc)[e[1]], list) and self._acts(sc)[e[1]][0] in ('fireold', 'failold')]
            if olds_fired:
                f.append('earlier-runs-deferred-fired-during-run:' + (res if isinstance(res, str) else res[0]))
            if res not in ('stalejunk', 'rejected'):
                f.append('junk=%s' % min(len(o[4]), 3))
                f.append('events=%s' % min(len(o[2]), 4))
        return f

    def shrink(self, inp):
        for cand in self._shrink2(inp[:2]):
            yield cand + inp[2:]

    def _shrink2(self, inp):
        debug, steps = inp
        for i in range(len(steps)):
            yield [debug, steps[:i] + steps[i + 1:]]
        if debug:
            yield [False, steps]
        for i, s in enumerate(steps):
            if isinstance(s, str):
                continue
            def put(ns):
                return [debug, steps[:i] + [ns] + steps[i + 1:]]
            if s[0] == 'setsig':
                if s[2] > 0:
                    yield put(['setsig', s[1], s[2] - 1])
                if s[1] > 0:
                    yield put(['setsig', s[1] - 1, s[2]])
                continue
            _, T, pre, body, term = s[:5]
            tail_n = s[5:]
            if tail_n and tail_n[0] > 0:
                yield put(s[:5] + [tail_n[0] - 1])
            if T == 'neg':
                for j in range(len(pre)):
                    yield put(['run', T, pre[:j] + pre[j + 1:], body, term] + tail_n)
                if body:
                    yield put(['run', T, pre, [], term] + tail_n)
                if term != ['ret', 0]:
                    yield put(['run', T, pre, body, ['ret', 0]] + tail_n)
                continue
            for j in range(len(pre)):
                yield put(['run', T, pre[:j] + pre[j + 1:], body, term] + tail_n)
            for j in range(len(body)):
                yield put(['run', T, pre, body[:j] + body[j + 1:], term] + tail_n)
            if T > 0:
                yield put(['run', T - 1, pre, body, term] + tail_n)
            for j, (d, a) in enumerate(pre):
                if d > 0:
                    yield put(['run', T, pre[:j] + [[d - 1, a]] + pre[j + 1:], body, term] + tail_n)
                if a != 'noop':
                    yield put(['run', T, pre[:j] + [[d, 'noop']] + pre[j + 1:], body, term] + tail_n)
            for j, op in enumerate(body):
                if op[0] == 'later' and op[1] > 0:
                    yield put(['run', T, pre, body[:j] + [['later', op[1] - 1, op[2]]] + body[j + 1:], term] + tail_n)
                if op[-1] != 'noop':
                    yield put(['run', T, pre, body[:j] + [op[:-1] + ['noop']] + body[j + 1:], term] + tail_n)
            if term != ['ret', 0]:
                yield put(['run', T, pre, body, ['ret', 0]] + tail_n)


PROP = C15()
