"""Shared by the stream family (C09, C10, C11, C18): table extraction (tie 1), canonical vocabularies
(test ids, tags, file names, content types, timestamps), event construction and recording sinks."""
import datetime

STATUSES = ['inprogress', 'exists', 'xfail', 'uxsuccess', 'success', 'fail', 'skip', 'unknown']
LEAN_STATUS = {'inprogress': 'inprogress', 'exists': 'exist', 'xfail': 'xfail', 'uxsuccess': 'uxsuccess',
               'success': 'success', 'fail': 'fail', 'skip': 'skip', 'unknown': 'unknown'}
OUTCOME = {'addSuccess': 'success', 'addFailure': 'failure', 'addError': 'error', 'addSkip': 'skip',
           'addExpectedFailure': 'xfail', 'addUnexpectedSuccess': 'uxsuccess'}
BUCKETS = ['errors', 'failures', 'skipped', 'expectedFailures', 'unexpectedSuccesses']


# ---------------------------------------------------------------------------------------------- tie 1
def extract_tables(repo):
    """Read the constant tables the theorems depend on from the tree and render TTV/Generated/Stream.lean.
    Dict-valued tables are read directly; behaviour tables (which list of StreamSummary a status lands in, which
    statuses trigger StreamFailFast) are observed by running the code on one-event streams."""
    import testtools.testresult.real as real
    from testtools import StreamSummary, StreamFailFast

    def st(s):
        return 'none' if s is None else 'some .' + LEAN_STATUS[s]
    interim = sorted(real.INTERIM_STATES, key=lambda s: (s is not None, s or ''))
    for s in interim:
        if s is not None and s not in LEAN_STATUS:
            raise ValueError('INTERIM_STATES contains an unknown status %r' % (s,))
    smap = []
    for s in STATUSES:
        m = real._status_map.get(s)
        if m is not None and m not in OUTCOME:
            raise ValueError('_status_map[%r] = %r is not an outcome method' % (s, m))
        smap.append('  | .%s => %s' % (LEAN_STATUS[s], 'none' if m is None else 'some .' + OUTCOME[m]))
    extra = set(real._status_map) - set(STATUSES)
    if extra:
        raise ValueError('_status_map has unknown statuses %r' % sorted(extra))
    # the status alphabets of the generators are None + STATUSES: the code's STATES table must not have a member they lack
    extra = set(real.STATES) - set(STATUSES) - {None}
    if extra:
        raise ValueError('STATES has members the status vocabulary lacks: %r' % sorted(extra, key=str))
    missing = set(STATUSES) - set(real.STATES)
    if missing:
        raise ValueError('the status vocabulary has members that are not in STATES: %r' % sorted(missing))
    buckets, counted = [], []
    for s in STATUSES:
        r = StreamSummary()
        r.startTestRun()
        if s == 'unknown':
            r.status(test_id='t', file_name='f', file_bytes=b'x')
        else:
            r.status(test_id='t', test_status=s)
        r.stopTestRun()
        hit = [b for b in BUCKETS if len(getattr(r, b)) > 0]
        if len(hit) > 1 or r.testsRun not in (0, 1):
            raise ValueError('StreamSummary put a %r test into %r (testsRun=%r)' % (s, hit, r.testsRun))
        buckets.append('  | .%s => .%s' % (LEAN_STATUS[s], hit[0] if hit else 'none'))
        counted.append('  | .%s => %s' % (LEAN_STATUS[s], 'true' if r.testsRun == 1 else 'false'))
    ff = []
    for s in STATUSES:
        calls = []
        StreamFailFast(lambda: calls.append(1)).status(test_id='t', test_status=s)
        if calls:
            ff.append('.' + LEAN_STATUS[s])
    calls = []
    StreamFailFast(lambda: calls.append(1)).status(test_id='t', test_status=None)
    if calls:
        raise ValueError('StreamFailFast fires for test_status=None')
    text = '''import TTV.Model.StreamTypes
/-! GENERATED on every run from the tree under test by `harness/props/_stream.py` (tie 1) - do not edit.
`interim` = `INTERIM_STATES`, `statusMap` = `_status_map` (read), `bucket`/`counted` = the public list of
`StreamSummary` a single test reported with that status is appended to / whether `testsRun` counts it
(observed on one-event streams), `failFast` = the statuses for which `StreamFailFast` calls `on_error` (observed). -/
namespace TTV.Generated.Stream
open TTV.Stream

def interim : List (Option Status) := [%s]

def statusMap : Status → Option Outcome
%s

def bucket : Status → Bucket
%s

def counted : Status → Bool
%s

def failFast : List Status := [%s]

end TTV.Generated.Stream
''' % (', '.join(st(s) for s in interim), '\n'.join(smap), '\n'.join(buckets), '\n'.join(counted), ', '.join(ff))
    return {'TTV/Generated/Stream.lean': text}


# ---------------------------------------------------------------------------------------------- vocabularies
T0 = datetime.datetime(2000, 1, 1, tzinfo=datetime.timezone.utc)
#: file names: token 0 and 1 are the two names the converters treat specially
#: token 5 is the empty file name (falsy but a legal key)
NAMES = ['reason', 'traceback', 'log', 'nämé ☃', 'stdout', '']
#: content-type tokens -> (type, subtype, parameters); token 0 is the default of `_make_content_type(None)`
CTS = [('application', 'octet-stream', {}), ('text', 'plain', {'charset': 'utf8'}),
       ('text', 'x-thing', {'charset': 'utf8', 'k': 'v 1;2'}), ('image', 'png', {}), ('text', 'plain', {'charset': 'latin-1'}),
       ('text', 'x-traceback', {'charset': 'utf8', 'language': 'python'}),
       # parameter values that need quoting / escaping in the MIME rendering (inside C16's round-trip domain)
       ('application', 'x-quoted', {'title': 'the "big" log'}), ('application', 'x-backslash', {'k': 'a\\b\\'}),
       ('application', 'x-seps', {'k': '; , = /', 'l': ''}), ('text', 'plain', {'charset': 'utf8', 'note': '\u00e9 \u4e2d'}),
       # a comma inside a parameter that is not the charset, with and without a charset next to it
       ('text', 'csv', {'charset': 'utf8', 'columns': 'id,name,size'}), ('application', 'x-log', {'fields': 'time,level,msg'}),
       # tokens 12 and 13 differ from 2 and 11 only in the letter case of a parameter VALUE (values are case-sensitive): another type
       ('text', 'x-thing', {'charset': 'utf8', 'k': 'V 1;2'}), ('application', 'x-log', {'fields': 'Time,Level,MSG'})]


#: test id token 3 is the empty string (falsy but a legal id, distinct from None)
EMPTY_ID = 3


def test_id(n):
    return '' if n == EMPTY_ID else 't%d' % n


def un_test_id(s):
    return EMPTY_ID if s == '' else int(s[1:])


def tag(n):
    return 'g%d' % n


def tagset(ns, frozen=False):
    return (frozenset if frozen else set)(tag(n) for n in ns)


def un_tags(tags):
    return sorted(int(t[1:]) for t in tags)


def ts(n):
    return T0 + datetime.timedelta(seconds=n)


class Clock:
    """window of wall-clock time in which `now` values produced by the code under test must lie"""

    def __init__(self):
        self.start = datetime.datetime.now(datetime.timezone.utc)

    def canon(self, d):
        """None | int (one of the harness's instants) | 'now' | 'bad-timestamp'"""
        if d is None:
            return None
        if not isinstance(d, datetime.datetime) or d.tzinfo is None or d.utcoffset() != datetime.timedelta(0):
            return 'bad-timestamp'
        if d < self.start:
            secs = (d - T0).total_seconds()
            if secs == int(secs) and 0 <= secs < 10 ** 6:
                return int(secs)
            return 'bad-timestamp'
        if d <= datetime.datetime.now(datetime.timezone.utc):
            return 'now'
        return 'bad-timestamp'


def mime_string(tok):
    from testtools.content_type import ContentType
    t, s, p = CTS[tok]
    return repr(ContentType(t, s, dict(p)))


def content_type(tok):
    from testtools.content_type import ContentType
    t, s, p = CTS[tok]
    return ContentType(t, s, dict(p))


def un_content_type(ct):
    key = (ct.type, ct.subtype, sorted(ct.parameters.items()))
    for i, (t, s, p) in enumerate(CTS):
        if (t, s, sorted(p.items())) == key:
            return i
    return 'unknown-content-type'


def route_str(rc):
    """input route: None | ['some', [code points]]"""
    return None if rc is None else ''.join(chr(c) for c in rc[1])


def un_route(rc):
    return None if rc is None else ['some', [ord(c) for c in rc]]


def opt(x):
    return None if x is None else ['some', x]


def unopt(x):
    return None if x is None else x[1]


def event_kwargs(ev, frozen=False):
    """S-expression event (tid status tags runnable fname fbytes eof mime route ts) -> kwargs of status()"""
    tid, status, tags, runnable, fname, fbytes, eof, mime, route, stamp = ev
    kw = {}
    kw['test_id'] = None if tid is None else test_id(tid[1])
    kw['test_status'] = None if status is None else status[1]
    kw['test_tags'] = None if tags is None else tagset(tags[1], frozen)
    kw['runnable'] = runnable
    kw['file_name'] = None if fname is None else NAMES[fname[1]]
    kw['file_bytes'] = None if fbytes is None else bytes(fbytes[1])
    kw['eof'] = eof
    kw['mime_type'] = None if mime is None else mime_string(mime[1])
    kw['route_code'] = route_str(route)
    kw['timestamp'] = None if stamp is None else ts(stamp[1])
    return kw


def canon_event(clock, test_id=None, test_status=None, test_tags=None, runnable=True, file_name=None, file_bytes=None,
                eof=False, mime_type=None, route_code=None, timestamp=None):
    """kwargs of a received status() call -> S-expression event"""
    from testtools.testresult.real import _make_content_type
    return [None if test_id is None else ['some', un_test_id(test_id)],
            None if test_status is None else ['some', test_status],
            None if test_tags is None else ['some', un_tags(test_tags)],
            bool(runnable),
            None if file_name is None else ['some', NAMES.index(file_name)],
            None if file_bytes is None else ['some', list(file_bytes)],
            bool(eof),
            None if mime_type is None else ['some', un_content_type(_make_content_type(mime_type))],
            un_route(route_code),
            opt(clock.canon(timestamp))]


def canon_details(details):
    """dict name -> Content, in dict order -> [[name, content type token, bytes]]"""
    return [[NAMES.index(k), un_content_type(v.content_type), list(b''.join(v.iter_bytes()))] for k, v in details.items()]


class ExtSink:
    """recording extended TestResult (details flavour)"""

    def __init__(self, clock):
        self.ev = []
        self.clock = clock

    def startTestRun(self):
        self.ev.append(['startTestRun'])

    def stopTestRun(self):
        self.ev.append(['stopTestRun'])

    def startTest(self, t):
        self.ev.append(['startTest', un_test_id(t.id())])

    def stopTest(self, t):
        self.ev.append(['stopTest', un_test_id(t.id())])

    def tags(self, new, gone):
        self.ev.append(['tags', un_tags(new), un_tags(gone)])

    def time(self, d):
        self.ev.append(['time', self.clock.canon(d)])

    def _o(self, kind, t, details):
        self.ev.append(['outcome', kind, un_test_id(t.id()), canon_details(details or {})])

    def addSuccess(self, t, details=None):
        self._o('success', t, details)

    def addError(self, t, err=None, details=None):
        self._o('error', t, details)

    def addFailure(self, t, err=None, details=None):
        self._o('failure', t, details)

    def addSkip(self, t, reason=None, details=None):
        self._o('skip', t, details)

    def addExpectedFailure(self, t, err=None, details=None):
        self._o('xfail', t, details)

    def addUnexpectedSuccess(self, t, details=None):
        self._o('uxsuccess', t, details)


class StreamSink:
    """recording StreamResult"""

    def __init__(self, clock):
        self.ev = []
        self.clock = clock

    def startTestRun(self):
        self.ev.append(['startTestRun'])

    def stopTestRun(self):
        self.ev.append(['stopTestRun'])

    def status(self, *args, **kw):
        if args:
            self.ev.append(['positional-args'])
        self.ev.append(['status', canon_event(self.clock, **kw)])
