"""C17 - tags are scoped: test-local changes never leak, run-level changes persist.
Input : [shape, history]                      (formats: harness/props/res_common.py, lean/TTV/Drv/Res.lean)
Trace : [cur, seen]   cur = current_tags of the reported-to object after each call;  seen = per observation point (pre-order:
        leaves, and the final status events behind every ExtendedToStreamDecorator) the [test, tags] at each outcome
"""
from harness.core import Prop, chars
from harness.props import res_common as R


class C17(Prop):
    id = 'C17'
    budgets = {'quick': 5000, 'thorough': 50000}
    time_limit = {'quick': 60, 'thorough': 900}
    rule = ('random adapter graphs (depth 1-4) of ExtendedToOriginalDecorator / TestResultDecorator / Tagger / ThreadsafeForwardingResult / '
            'MultiTestResult / ExtendedToStreamDecorator->StreamToExtendedDecorator over extended, testtools.TestResult, TestByTestResult and '
            'old-style (2.6/2.7/Twisted) recording results; histories of 0-6 tests x 1-2 runs over a 4-tag alphabet with tags(new, gone) before the '
            'run, between tests, before and after the outcome and after stopTest, incl. the startTest-less addSkip+stopTest pair; 10% damaged '
            'histories, 15% of the tests with a second outcome inside the same startTest/stopTest (unittest 3.12: addFailure + addError), 5% overlapping new/gone, 30% of the Taggers remove-only; in 30% of the tests that have tags in force a tags() call removes all of them '
            'before the outcome (outcome tags = the empty set); 12% of the graphs get an extra stream round trip on top; falsy-but-legal values: tag 3 is the '
            'empty string, test 7 has the empty id, a third of the skip reasons are empty. thorough adds every history of <= 6 calls from {startTestRun, startTest, success, stopTest, '
            'tags +a, tags -a, tags +b} over 8 graphs. non-trivial = a tags call and an outcome and an adapter; distinct = distinct input')
    assumptions = ['recording results of the extended / old flavours are the harness\'s own classes; testtools.TestResult / TestByTestResult are observed '
                   'through logging subclasses; the stream behind ExtendedToStreamDecorator is observed by a recorder next to StreamToExtendedDecorator',
                   'tag sets are modelled as bit sets over tags 0..63; CPython set semantics modelled, not verified',
                   'ExtendedToStreamDecorator is only used after startTestRun (tags() on an unstarted one raises AttributeError: outside the domain)',
                   'of the stream pipeline only what PlaceHolder.run replays is modelled (no file chunking, no route codes, one test in progress per id)']

    manifest = {
        'text': 'Theorems for all adapter graphs (any depth / fan-out) and all call histories: current_tags of every result and adapter '
                '(TestResult, TextTestResult, TestByTestResult, ExtendedToOriginalDecorator, TestResultDecorator, Tagger, MultiTestResult, '
                'ThreadsafeForwardingResult, ExtendedToStreamDecorator) equals, after every call, the stack-of-sets semantics (startTestRun '
                'empties, startTest pushes a copy, tags changes the top, stopTest pops but never the run level - D11), under which a '
                'startTest..stopTest bracket restores the context; every wrapped result sees at each outcome exactly the reporter\'s current '
                'tags (plus what Taggers above it add at startTest) through ThreadsafeForwardingResult (global/test buffers, _merge_tags lemma: '
                'merging then applying = applying in sequence), MultiTestResult, the decorators and the stream pipeline ExtendedToStreamDecorator -> '
                'StreamToExtendedDecorator -> PlaceHolder.run (also the test_tags of the final status events), for all tag-well-formed histories incl. the '
                'startTest-less addSkip+stopTest pair.  The hand-written model is tied to the code by a differential check.',
        'note': 'partial: the observed-tags theorem excludes graphs with a Tagger below a ThreadsafeForwardingResult / stream pipeline '
                '(known finding taggerBelowBuffer); of the stream pipeline only what PlaceHolder.run replays is modelled; trusted: Lean kernel, model TTV/Model/Result.lean, harness; tag sets as bit sets',
        'technique': 'Lean 4 proofs: refinement invariant over the adapter tree (state type computed from the shape) and the call history, '
                     'bit-vector extensionality for tag sets; executable spec shared with a differential correspondence check',
    }

    def run_impl(self, inp):
        shape, hist = inp
        try:
            g = R.Graph(shape)
            cur = []
            for c in hist:
                g.apply(c)
                cur.append(R.tagnums(g.root.current_tags))
            # tags change only through the protocol: what a consumer was given earlier still reads as it did then, and a
            # client scribbling on the sets it was given does not change anybody's current_tags
            if R.retained_changed():
                return ['raised', 'delivered-tags-changed-after-delivery']
            last = R.tagnums(g.root.current_tags)
            R.scribble_on_retained()
            if R.tagnums(g.root.current_tags) != last:
                return ['raised', 'current_tags-changed-without-a-tags-call']
            return [cur, [R.seen_of(p) for p in g.points]]
        except Exception as e:
            return ['raised', type(e).__name__]

    # ----- generators
    def gen_hist(self, rng, shape, kinds):
        strict = 'tbt' in kinds
        h = []
        stack = [set()]          # the tag context the history builds up (run level first)

        def put(c):
            h.append(c)
            stack[-1] |= set(c[1])
            stack[-1] -= set(c[2])

        def tg(p):
            while rng.random() < p:
                c = R.gen_tags_call(rng)
                if rng.random() < 0.05 and c[1]:
                    c = ['tags', c[1], c[1][:1] + c[2]]      # overlapping new / gone
                put(c)
                if rng.random() < 0.1:
                    h.append(rng.choice([['time', ['at', rng.randrange(9)]], ['stop']]))
        tid = rng.randrange(8)
        if 'e2s' not in kinds:
            tg(0.3)
        for run in range(rng.choice([1, 1, 2])):
            h.append(['startTestRun'])
            del stack[:]
            stack.append(set())
            for _ in range(rng.choice([0, 1, 2, 2, 3, 3, 4, 6])):
                tg(0.45)
                tid = (tid + rng.choice([0, 1, 2])) % 10
                kind = rng.choice(R.KINDS)
                if not strict and rng.random() < 0.12:
                    h.append(['add', 'skip', tid, ['reason', chars('r')]])    # the pair unittest 3.12.1 emits for a skipped test
                    h.append(['stopTest', tid])
                    continue
                h.append(['startTest', tid])
                stack.append(set(stack[-1]))
                tg(0.5)
                if stack[-1] and rng.random() < 0.3:
                    put(['tags', [], sorted(stack[-1])])       # the test removes every tag in force: its outcome carries the empty set
                arg = None if kind in ('success', 'uxsuccess') else ['reason', chars(rng.choice(['r', 'r', '']))] if kind == 'skip' else ['exc', 'real']
                if rng.random() < 0.2:
                    arg = ['details', R.gen_details(rng, allow_empty=False, nonempty_text=True)]   # empty details / attachments are C08's business
                h.append(['add', kind, tid, arg])
                tg(0.3)
                if rng.random() < 0.15:
                    # a second outcome inside the same bracket (unittest 3.12: failing body + failing tearDown = addFailure, addError)
                    k2 = rng.choice(['error', 'error', 'failure', 'success'])
                    h.append(['add', k2, tid, None if k2 == 'success' else ['exc', 'real']])
                    tg(0.3)
                h.append(['stopTest', tid])
                if len(stack) > 1:
                    stack.pop()
            tg(0.3)
            if rng.random() < 0.8:
                h.append(['stopTestRun'])
                tg(0.2)
        if 'e2s' not in kinds and rng.random() < 0.3:
            i = h.index(['startTestRun'])
            del h[i]                                           # results work without startTestRun
        if not strict and 'e2s' not in kinds and rng.random() < 0.1 and h:
            i = rng.randrange(len(h))
            if rng.random() < 0.5:
                del h[i]
            else:
                h.insert(i, h[i])
        return h

    def extract_tables(self, repo):
        # the tag arithmetic (TagContext.change_tags, _merge_tags) is translated from the source on every run (tie 1)
        from harness.pyset2lean import translate
        return {'TTV/Generated/C17.lean': translate(repo)['TTV/Generated/C17.lean']}

    def gen(self, rng, tier):
        inner = ('etod', 'deco', 'tagger', 'tfr', 'tfr', 'multi', 'multi', 'e2s')
        leaves = ('old', 'ext', 'ext', 'tt', 'tt', 'tbt')
        shape = R.gen_shape(rng, rng.choice([1, 2, 2, 3]), leaves=leaves, inner=inner, fattr=0.15)
        while R.depth(shape) < 2 and rng.random() < 0.9:
            shape = R.gen_shape(rng, rng.choice([1, 2, 2, 3]), leaves=leaves, inner=inner, fattr=0.15)
        if rng.random() < 0.12 and 'tbt' not in R.kinds_in(shape):
            shape = ['e2s', ['etod', shape]] if shape[0] != 'etod' else ['e2s', shape]      # more stream round trips
        kinds = R.kinds_in(shape)
        return [shape, self.gen_hist(rng, shape, kinds)]

    def enumerate(self, tier):
        ext = ['sink', 'ext']
        shapes = [['tt', False], ['tfr', ['etod', ext]], ['multi', ['etod', ext], ['etod', ['tfr', ['etod', ['tt', False]]]]],
                  ['etod', ['tagger', [1], [0], ext]], ['tfr', ['etod', ['tfr', ['etod', ext]]]], ['deco', ['etod', ['sink', 'py27']]],
                  ['tagger', [2], [], ['tfr', ['etod', ext]]], ['multi', ['etod', ['sink', 'py26']], ['etod', ext]]]
        alpha = [['startTestRun'], ['startTest', 1], ['add', 'success', 1, None], ['stopTest', 1], ['tags', [0], []], ['tags', [], [0]], ['tags', [1], []]]

        def hists(n):
            if n == 0:
                yield []
                return
            for h in hists(n - 1):
                for c in alpha:
                    yield h + [c]
        for n in range(0, 7 if tier == 'thorough' else 4):
            for h in hists(n):
                if n >= 5 and not R.wf_tag(h):
                    continue
                for s in shapes:
                    yield [s, h]
        e2s = [['e2s', ['etod', ext]], ['tagger', [1], [], ['e2s', ['etod', ['tt', False]]]], ['e2s', ['etod', ['tfr', ['etod', ext]]]]]
        for n in range(0, 5):
            for h in hists(n):
                for s in e2s:
                    yield [s, [['startTestRun']] + h]

    def nontrivial(self, inp, trace):
        shape, hist = inp
        return R.depth(shape) >= 2 and any(c[0] == 'add' for c in hist) and any(c[0] == 'tags' and (c[1] or c[2]) for c in hist)

    def features(self, inp, trace):
        shape, hist = inp
        kinds = R.kinds_in(shape)
        f = ['depth=%d' % R.depth(shape), 'calls=%s' % (len(hist) // 5 * 5), 'tests=%d' % len([c for c in hist if c[0] == 'add']),
             'runs=%d' % len([c for c in hist if c[0] == 'startTestRun']), 'wf' if R.wf_tag(hist) else 'not-wf']
        f += ['node:' + k for k in sorted(set(kinds))]
        prev = None
        for c in hist:
            if c[0] == 'tags':
                f.append('tags-after:' + str(prev))
                if set(c[1]) & set(c[2]):
                    f.append('tags-overlap')
            if c[0] == 'add' and prev != 'startTest' and prev != 'tags':
                f.append('startless-outcome')
            if c[0] != 'tags' or prev is None:
                prev = c[0]
        if trace and trace[0] == 'raised':
            f.append('raised:' + trace[1])
        elif trace:
            f.append('tags-seen' if any(t for p in trace[1] for _, t in p) else 'no-tags-seen')
        return sorted(set(f))

    def shrink(self, inp):
        shape, hist = inp
        kinds = R.kinds_in(shape)
        for h in R.shrink_hist(hist):
            if 'tbt' in kinds and any(c[0] == 'add' and isinstance(c[3], list) and c[3][0] == 'details' and
                                      (not c[3][1] or any(not d[1][1] for d in c[3][1])) for c in h):
                continue                                       # empty details / attachments are C08's business
            if ('tbt' in kinds and not R.wf_hist(h)) or ('e2s' in kinds and not R.starts_run(h)):
                continue
            yield [shape, h]
        for i, c in enumerate(hist):
            if c[0] == 'tags' and len(c[1]) + len(c[2]) > 1:
                yield hist and [shape, hist[:i] + [['tags', c[1][:1], c[2][:0 if c[1] else 1]]] + hist[i + 1:]]
        for s in R.shrink_shape(shape):
            if R.wf_shape(s):
                yield [s, hist]


PROP = C17()
