"""C06 - matcher verdicts obey their declared semantics compositionally.

Input : [m, v]   matcher expression and matchee as S-expression trees (grammar: lean/TTV/Drv/C06.lean)
Trace : [first, again, other, pureM, pureV]
        first/again = match() called twice on build A of the expression, other = build B (a second
        construction of the same expression whose MatchesSetwise nodes iterate their matcher set in the
        other order given in the input); verdict = match | mismatch | (raised <class>)
        pureM/pureV = deep snapshots of matcher / matchee are unchanged by the calls.

Opaque leaves (MatchesRegex, DocTestMatches, filesystem matchers, Warnings, MatchesPredicate[WithParams]
over harness predicates) are real testtools matchers; the Lean side only sees the verdict table
`(opq id (value verdict)...)` that this module computes with an *independent oracle* (re / doctest /
os.path / tarfile / warnings called directly), for every value that can reach the leaf (found by a dry
run with recording stand-ins, plus every sub-value of the matchee).  `(pred id msgkind rows...)` is
MatchesPredicate(<harness predicate>, <message with one / no / two conversions or empty>): the table is
the predicate's own truth value, the `message % (matchee,)` step is modelled in Lean.
"""
import copy, doctest, functools, operator, zlib, os, random, re, stat, sys, tarfile, tempfile, warnings
from harness.core import Prop

EXC = {'BaseException': BaseException, 'Exception': Exception, 'TypeError': TypeError,
       'AttributeError': AttributeError, 'ValueError': ValueError, 'LookupError': LookupError,
       'KeyError': KeyError, 'AssertionError': AssertionError, 'KeyboardInterrupt': KeyboardInterrupt,
       'SystemExit': SystemExit, 'NotImplementedError': NotImplementedError}


# ---- user-defined exception classes (round g, seed C06-g): to a matcher they are classes like any other - only issubclass counts
import abc as _abc, collections as _collections


class MetaError(Exception, metaclass=_abc.ABCMeta):
    """a class whose type is not literally `type`"""


class MetaSub(MetaError):
    pass


class _CountingMeta(type):
    """a custom metaclass"""
    created = 0

    def __new__(mcs, name, bases, ns):
        _CountingMeta.created += 1
        return super().__new__(mcs, name, bases, ns)


class MetaValueError(ValueError, metaclass=_CountingMeta):
    pass


class OddError(LookupError):
    """__slots__, and an == of its own: same class and same args (honest - the value universe has no dishonest ==; within a case
    equal exceptions are one interned object anyway, so this is the equality the model uses)"""
    __slots__ = ()

    def __eq__(self, other):
        return type(other) is type(self) and other.args == self.args

    def __ne__(self, other):
        return not self == other

    def __hash__(self):
        return hash((type(self), self.args))


class StrRaisesError(Exception):
    def __str__(self):
        raise ValueError('this exception has no text')


class UserInterrupt(KeyboardInterrupt):
    pass


class UserExit(SystemExit):
    pass


USER_EXC = {c.__name__: c for c in (MetaError, MetaSub, MetaValueError, OddError, StrRaisesError, UserInterrupt, UserExit)}
EXC.update(USER_EXC)
EXC_NAME = {v: k for k, v in EXC.items()}
RAISABLE = ['ValueError', 'KeyError', 'LookupError', 'Exception', 'KeyboardInterrupt', 'SystemExit', 'AssertionError',
            'MetaError', 'MetaSub', 'MetaValueError', 'OddError', 'StrRaisesError', 'UserInterrupt', 'UserExit']
# classes to expect for a raised / given class `c`: itself, its modelled bases, siblings
EXC_BASES = {n: [EXC_NAME[b] for b in c.__mro__ if b in EXC_NAME] for n, c in EXC.items()}
_NT = {}


def named_tuple_of(classes):
    """the classes as an instance of a tuple SUBCLASS (a named tuple): "as with isinstance, any of the types in the tuple" """
    n = len(classes)
    if n not in _NT:
        _NT[n] = _collections.namedtuple('Expected%d' % n, ['c%d' % i for i in range(n)])
    return _NT[n](*classes)


def key(k):
    """dict key / attribute name tree -> Python object: n = the one-letter str chr(97+n); ['ki', n] int; ['kb', c...] bytes;
    'kn' None; ['kt', f...] tuple whose fields are ints n or one-letter strs ['ks', c]"""
    if isinstance(k, int):
        return chr(97 + k)
    if k == 'kn':
        return None
    if k[0] == 'ki':
        return k[1]
    if k[0] == 'kb':
        return bytes(k[1:])
    if k[0] == 'kt':
        return tuple(f if isinstance(f, int) else chr(97 + f[1]) for f in k[1:])
    raise ValueError('bad key tree %r' % (k,))


def keytree(pk):
    if pk is None:
        return 'kn'
    if isinstance(pk, str) and len(pk) == 1 and ord(pk) >= 97:
        return ord(pk) - 97
    if isinstance(pk, int) and pk is not True and pk is not False:
        return ['ki', pk]
    if isinstance(pk, bytes):
        return ['kb'] + list(pk)
    if isinstance(pk, tuple) and all((isinstance(x, int) and x is not True and x is not False) or
                                     (isinstance(x, str) and len(x) == 1 and ord(x) >= 97) for x in pk):
        return ['kt'] + [x if isinstance(x, int) else ['ks', ord(x) - 97] for x in pk]
    return -1


def key_order(k):
    """canonical order in which dicts are built (mirrors keyLt in lean/TTV/Drv/C06.lean): None, ints, strs, bytes, tuples"""
    if k == 'kn':
        return (0,)
    if isinstance(k, int):
        return (2, k)
    if k[0] == 'kt':      # fields: ints before strs
        return (4, [(0, f) if isinstance(f, int) else (1, f[1]) for f in k[1:]])
    return {'ki': (1, k[1]) if k[0] == 'ki' else None, 'kb': (3, k[1:])}[k[0]]


def key_value(k):
    """the value tree of a key (what iterating the dict yields)"""
    if isinstance(k, int):
        return ['s', 97 + k]
    if k == 'kn':
        return None
    if k[0] == 'ki':
        return ['i', k[1]]
    if k[0] == 'kb':
        return ['b'] + k[1:]
    return ['t'] + [['i', f] if isinstance(f, int) else ['s', 97 + f[1]] for f in k[1:]]


def ktok(k):
    return tuple(ktok(x) for x in k) if isinstance(k, list) else k


KEY_POOL = [0, 1, 2, 3, ['ki', 1], ['ki', 2], ['ki', -1], 'kn', ['kb', 97], ['kb'], ['kt', 1, 2], ['kt'],
            ['kt', 1, ['ks', 0]], ['kt', ['ks', 0], 1], ['kt', ['ks', 1]]]      # (1, 'a') and ('a', 1): same type, no order


class ObjBase:
    def __init__(self, **kw):
        self.__dict__.update(kw)

    def __eq__(self, o):
        return type(o) is type(self) and self.__dict__ == o.__dict__

    def __ne__(self, o):
        return not self.__eq__(o)

    def __hash__(self):
        return hash(type(self).__name__)

    def __repr__(self):
        return '%s(%s)' % (type(self).__name__, ', '.join('%s=%r' % kv for kv in sorted(self.__dict__.items())))


OBJ = [type('Obj%d' % i, (ObjBase,), {}) for i in range(3)]


# ---- what the callables of the value universe emit (the Warnings / WarningMessage / IsDeprecated leaves are the only ones to see it)
D, U, PD = DeprecationWarning, UserWarning, PendingDeprecationWarning
_OTHER_MODULE = None


def _other_module():
    """a module of its own (its own globals, hence its own __warningregistry__) with a function that warns"""
    global _OTHER_MODULE
    if _OTHER_MODULE is None:
        import types
        _OTHER_MODULE = types.ModuleType('match_c06_other_module')
        exec(compile("import warnings\ndef emit(text, category):\n    warnings.warn(text, category, 1)\n", 'match_c06_other_module.py', 'exec'),
             _OTHER_MODULE.__dict__)
    return _OTHER_MODULE


def _emit_here(text, category, log):        # ONE source line: repeated calls repeat (text, category, line)
    log.append((text, category))
    warnings.warn(text, category, 1)


def _emit_caller(text, category, log):      # attributed to the caller's line (stacklevel 2)
    log.append((text, category))
    warnings.warn(text, category, 2)


_EXPLICIT_REGISTRY = {}


def _emit_explicit(text, category, log, lineno=3):
    log.append((text, category))
    warnings.warn_explicit(text, category, 'match_c06_explicit.py', lineno, registry=_EXPLICIT_REGISTRY)


def _emit_other(text, category, log):
    log.append((text, category))
    _other_module().emit(text, category)


def _p_same_twice(log):
    for _ in range(2):
        _emit_here('old thing', D, log)


def _p_same_thrice(log):
    for _ in range(3):
        _emit_here('old thing', D, log)


def _p_text_differs(log):
    for t in ('old thing', 'old thing 2'):
        _emit_here(t, D, log)


def _p_category_differs(log):
    for c in (D, PD):
        _emit_here('old thing', c, log)


def _p_line_differs(log):
    log.append(('old thing', D))
    warnings.warn('old thing', D, 1)
    log.append(('old thing', D))
    warnings.warn('old thing', D, 1)


def _p_one_level1(log):
    _emit_here('old thing', D, log)


def _p_explicit_twice(log):
    for _ in range(2):
        _emit_explicit('old thing', D, log)


def _p_other_module_twice(log):
    for _ in range(2):
        _emit_other('old thing', D, log)


def _p_quiet_categories(log):
    for c in (PD, ImportWarning, ResourceWarning):
        _emit_here('careful', c, log)


def _p_bytes_and_deprecation(log):
    _emit_here('careful', BytesWarning, log)
    _emit_caller('old thing', D, log)


def _p_user_twice(log):
    for _ in range(2):
        _emit_here('careful', U, log)


def _p_one_then_two(log):
    _emit_caller('old thing', D, log)
    for _ in range(2):
        _emit_here('careful', U, log)


def _p_caller_twice(log):
    for _ in range(2):
        _emit_caller('old thing', D, log)     # stacklevel 2: both attributed to the one line that called us


def _p_explicit_lines_differ(log):
    _emit_explicit('old thing', D, log, 3)
    _emit_explicit('old thing', D, log, 4)


# APPEND ONLY: a callable returning the int WARN_BASE + k runs WARN_PROGRAMS[k] first
WARN_BASE = 1000
WARN_PROGRAMS = [_p_same_twice, _p_same_thrice, _p_text_differs, _p_category_differs, _p_line_differs, _p_one_level1, _p_explicit_twice,
                 _p_other_module_twice, _p_quiet_categories, _p_bytes_and_deprecation, _p_user_twice, _p_one_then_two, _p_caller_twice,
                 _p_explicit_lines_differ]


class Fn:
    """interned callable: returns `ret`, or raises the interned exception `exc`.  Before it returns an int n it emits warnings (only
    the opaque Warnings leaves can tell): n = WARN_BASE + k runs WARN_PROGRAMS[k] (repeats of one (text, category, line), warnings
    that differ in one of the three, stacklevel 1 / 2, warn_explicit, another module, categories the default filters ignore); any
    other n emits n % 3 warnings (a DeprecationWarning, then a UserWarning).  `emitted` is the callable's OWN record of what it
    emitted during the last call - the oracle of the Warnings leaves reads that, not the warnings module."""

    def __init__(self, ret=None, exc=None):
        self.ret, self.exc = ret, exc
        self.emitted = []

    def __call__(self):
        if self.exc is not None:
            raise self.exc
        if isinstance(self.ret, int) and self.ret is not True and self.ret is not False:
            self.emitted = log = []
            if WARN_BASE <= self.ret < WARN_BASE + len(WARN_PROGRAMS):
                WARN_PROGRAMS[self.ret - WARN_BASE](log)
            else:
                if self.ret % 3 >= 1:
                    _emit_caller('old thing', D, log)
                if self.ret % 3 == 2:
                    _emit_caller('careful', U, log)
        return self.ret

    def __repr__(self):
        return '<Fn>'


class Ctx:
    """per-case interning: structurally equal objects / exceptions / callables are one Python object"""

    def __init__(self):
        self.objs, self.excs, self.fns = {}, {}, {}

    def exc(self, cls, arg):
        k = (cls, arg)
        if k not in self.excs:
            try:
                e = EXC[cls](arg)
                e.verif_generated = True
                raise e
            except BaseException:
                self.excs[k] = sys.exc_info()
        return self.excs[k]


def sxkey(t):
    return repr(t)


def build_v(t, ctx):
    if t is None or t == 'none':
        return None
    h = t[0]
    if h == 'i':
        return t[1]
    if h == 's':
        return ''.join(map(chr, t[1:]))
    if h == 'b':
        return bytes(t[1:])
    if h == 'l':
        return [build_v(x, ctx) for x in t[1:]]
    if h == 't':
        return tuple(build_v(x, ctx) for x in t[1:])
    if h == 'd':
        return {key(k): build_v(x, ctx) for k, x in t[1:]}
    if h == 'o':
        k = sxkey(t)
        if k not in ctx.objs:
            ctx.objs[k] = OBJ[t[1]](**{key(a): build_v(x, ctx) for a, x in t[2:]})
        return ctx.objs[k]
    if h == 'ei':
        return ctx.exc(t[1], t[2])
    if h == 'ev':
        return ctx.exc(t[1], t[2])[1]
    if h in ('fr', 'fx'):
        k = sxkey(t)
        if k not in ctx.fns:
            ctx.fns[k] = Fn(ret=build_v(t[1], ctx)) if h == 'fr' else Fn(exc=ctx.exc(t[1], t[2])[1])
        return ctx.fns[k]
    raise ValueError('bad value tree %r' % (t,))


def unbuild(x):
    """Python value -> tree (canonical: dict / attribute order as found)"""
    if x is None:
        return None
    if x is True or x is False:
        return ['unknown', 'bool']
    if isinstance(x, int):
        return ['i', x]
    if isinstance(x, str):
        return ['s'] + [ord(c) for c in x]
    if isinstance(x, bytes):
        return ['b'] + list(x)
    if isinstance(x, list):
        return ['l'] + [unbuild(y) for y in x]
    if isinstance(x, dict):
        return ['d'] + [[keytree(k), unbuild(y)] for k, y in x.items()]
    if isinstance(x, ObjBase):
        return ['o', OBJ.index(type(x))] + [[ord(k) - 97 if len(k) == 1 else -1, unbuild(y)] for k, y in x.__dict__.items()]
    if isinstance(x, tuple) and len(x) == 3 and isinstance(x[1], BaseException):
        return ['ei', EXC_NAME.get(x[0], 'Unknown'), x[1].args[0] if len(x[1].args) == 1 else 'badargs']
    if isinstance(x, tuple):
        return ['t'] + [unbuild(y) for y in x]
    if isinstance(x, BaseException):
        return ['ev', EXC_NAME.get(type(x), 'Unknown'), x.args[0] if len(x.args) == 1 else 'badargs']
    if isinstance(x, Fn):
        return ['fr', unbuild(x.ret)] if x.exc is None else ['fx', EXC_NAME.get(type(x.exc), 'Unknown'), x.exc.args[0]]
    return ['unknown', type(x).__name__]


def snap(x, depth=0):
    """deep snapshot of a matcher (or anything hanging off it)"""
    if depth > 40:
        return 'deep'
    if isinstance(x, (type(None), int, str, bytes, ObjBase, BaseException, Fn)) or (
            isinstance(x, tuple) and len(x) == 3 and isinstance(x[1], BaseException)):
        return ['v', unbuild(x)]
    if isinstance(x, (list, tuple)):
        return [type(x).__name__] + [snap(y, depth + 1) for y in x]
    if isinstance(x, (set, frozenset)):
        return ['set', len(x)]
    if isinstance(x, dict):
        return ['dict'] + [[snap(k, depth + 1), snap(y, depth + 1)] for k, y in x.items()]
    if isinstance(x, type) or callable(x) and not hasattr(x, 'match'):
        return ['fn', getattr(x, '__name__', type(x).__name__)]
    if hasattr(x, '__dict__'):
        return [type(x).__name__] + [[k, snap(y, depth + 1)] for k, y in x.__dict__.items()]
    return ['atom', type(x).__name__]


# ---------------------------------------------------------------- opaque leaves
class Scratch:
    """scratch directory the filesystem matchers look at (created once per process)"""
    _inst = None

    @classmethod
    def get(cls):
        if cls._inst is None:
            cls._inst = cls()
        return cls._inst

    def __init__(self):
        os.dup2(os.open(os.devnull, os.O_RDONLY), 0)   # nothing here may ever block on stdin
        # fixed name: path strings are part of the inputs (replay files, corpus); built in a private directory and
        # renamed into place, so concurrent runs see either nothing or the complete tree
        # (versioned: "scratch2" added the paths with setuid / setgid / sticky bits and the executable file)
        self.root = '/tmp/match-c06-scratch2'
        p = lambda *a: os.path.join(self.root, *a)
        self.paths = [p('dir'), p('empty'), p('file'), p('other'), p('link'), p('t.tar'), p('missing'), p('dir', 'x'),
                      p('suid'), p('sgid'), p('sticky'), p('exec')]
        if os.path.exists(p('t.tar')):
            return
        final = self.root
        self.root = tempfile.mkdtemp(prefix='match-c06-build-')
        os.mkdir(p('dir'))
        open(p('dir', 'x'), 'w').write('x')
        open(p('dir', 'y'), 'w').write('y')
        os.mkdir(p('empty'))
        open(p('file'), 'w').write('hello\n')
        os.chmod(p('file'), 0o644)
        open(p('other'), 'w').write('abc')
        os.chmod(p('other'), 0o600)
        os.symlink('file', p('link'))
        # modes whose first octal digit is not 0 (chmod by the owner; if the platform refuses a bit the oracle,
        # which reads the mode back with stat.S_IMODE, still tells the truth)
        for name, mode, is_dir in (('suid', 0o4755, False), ('sgid', 0o2644, False), ('sticky', 0o1777, True), ('exec', 0o755, False)):
            if is_dir:
                os.mkdir(p(name))
            else:
                open(p(name), 'w').write(name)
            os.chmod(p(name), mode)
        with tarfile.open(p('t.tar'), 'w') as t:
            t.add(p('file'), 'file')
            t.add(p('other'), 'other')
        import shutil
        try:
            os.rename(self.root, final)
        except OSError:
            shutil.rmtree(self.root, True)    # somebody else was faster
        self.root = final

    def path(self, i):
        return self.paths[i % len(self.paths)]

    # ---- the wider path vocabulary (seed C06-f): a second tree, so that the path strings of the first stay what they were
    WIDE_ROOT = '/tmp/match-c06-paths1'

    def build_wide(self):
        """a/sub/{x,y}  a/file ('hello\n', 0644)  a/t.tar      b/file ('abc', 0600)  b/real/
        b/link -> ../a/sub   (a directory ELSEWHERE: b/link/.. is a, not b)      b/flink -> ../a/file   b/tlink -> ../a/t.tar
        b/abs -> <root>/a    dlink -> a    dangling -> nowhere    loop1 -> loop2 -> loop1"""
        final = self.WIDE_ROOT
        if os.path.lexists(os.path.join(final, 'loop2')):
            return
        root = tempfile.mkdtemp(prefix='match-c06-build-')
        p = lambda *a: os.path.join(root, *a)
        os.makedirs(p('a', 'sub'))
        os.makedirs(p('b', 'real'))
        for name in ('x', 'y'):
            open(p('a', 'sub', name), 'w').write(name)
        open(p('a', 'file'), 'w').write('hello\n')
        os.chmod(p('a', 'file'), 0o644)
        open(p('b', 'file'), 'w').write('abc')
        os.chmod(p('b', 'file'), 0o600)
        with tarfile.open(p('a', 't.tar'), 'w') as t:
            t.add(p('a', 'file'), 'file')
            t.add(p('b', 'file'), 'other')
        os.symlink(os.path.join('..', 'a', 'sub'), p('b', 'link'))
        os.symlink(os.path.join('..', 'a', 'file'), p('b', 'flink'))
        os.symlink(os.path.join('..', 'a', 't.tar'), p('b', 'tlink'))
        os.symlink(os.path.join(final, 'a'), p('b', 'abs'))
        os.symlink('a', p('dlink'))
        os.symlink('nowhere', p('dangling'))
        os.symlink('loop2', p('loop1'))
        os.symlink('loop1', p('loop2'))      # last: its presence says that the tree is complete
        import shutil
        try:
            os.rename(root, final)
        except OSError:
            shutil.rmtree(root, True)

    def wide_paths(self):
        """APPEND ONLY (indices are used by catalog rows and by the C07 tables).  Spellings of paths of the second tree:
        through a symlink to a directory elsewhere and `..`, symlinks to files / directories / a tarball, `.` segments, doubled
        and trailing slashes, relative spellings (enough `..` to reach / from any working directory), `..` after a real
        directory, an absolute link, a dangling link, a link loop, `..` after something that does not exist."""
        if getattr(self, '_wide', None) is None:
            self.build_wide()
            W = self.WIDE_ROOT
            rel = '../' * 24 + W.lstrip('/')
            self._wide = [W + x for x in (
                '/b/link/../file', '/a/file', '/b/file', '/b/flink', '/b/link', '/b/link/..', '/a', '/b',                    # 0..7
                '/a/./file', '//a//file', '/a/sub/', '/a/file/', '/b/real/../file', '/b/abs/file', '/dlink/file',             # 8..14
                '/b/tlink', '/b/link/../t.tar', '/a/t.tar', '/dangling', '/loop1', '/loop2', '/nothing/../a/file',           # 15..21
                '/b/link/../sub', '/b/link/../../b/file', '/a/sub/../../b/link/x', '/b/./link/.././/file', '/nothing',       # 22..26
                '/b/link/', '/dlink/sub/..', '/loop1/../a/file')] + [                                                         # 27..29
                rel + '/a/file', rel + '/b/link/../file', rel + '/b/file', './' + rel + '/b/flink']                           # 30..33
        return self._wide

    def all_paths(self):
        return self.paths + self.wide_paths()


def canon_path(path):
    """where a path leads, found by walking it component by component (os.lstat / os.readlink; a link is followed before the
    next component is read, so `link/..` is the parent of the link's TARGET).  A component that does not exist (or a link
    loop) ends the walk: the rest is appended textually (`..` then removes the component before it)."""
    path = os.fspath(path)
    if isinstance(path, bytes):
        path = os.fsdecode(path)
    todo = [c for c in (os.getcwd() + '/' + path if not path.startswith('/') else path).split('/') if c not in ('', '.')]
    done, hops = [], 0
    while todo:
        c = todo.pop(0)
        if c == '..':
            if done:
                done.pop()
            continue
        here = '/' + '/'.join(done + [c])
        try:
            is_link = stat.S_ISLNK(os.lstat(here).st_mode)
        except OSError:
            is_link = False
        if not is_link:
            done.append(c)
            continue
        hops += 1
        if hops > 40 or _loops(here):
            done.append(c)       # a loop: the link stays as it is spelled
            continue
        target = os.readlink(here)
        parts = [x for x in target.split('/') if x not in ('', '.')]
        if target.startswith('/'):
            done = []
        todo = parts + todo
    return '/' + '/'.join(done)


def _loops(link):
    """does following `link` come back to a link already being followed?"""
    seen, here = set(), link
    for _ in range(64):
        if here in seen:
            return True
        seen.add(here)
        try:
            if not stat.S_ISLNK(os.lstat(here).st_mode):
                return False
            here = os.path.normpath(os.path.join(os.path.dirname(here), os.readlink(here)))
        except OSError:
            return False
    return True


def same_path(a, b):
    """the documented predicate of SamePath - "the paths are equal, or they point to the same file but in different ways":
    two paths that exist are the same when the operating system says so (os.path.samefile: same device and inode); when one
    of them does not exist there is no file to compare, and the paths are the same when they lead to the same place
    (canon_path).  Independent of os.path.realpath / abspath."""
    if os.path.exists(a) and os.path.exists(b):
        return os.path.samefile(a, b)
    return canon_path(a) == canon_path(b)


def _pred_even(x):
    return x % 2 == 0


def _pred_small(x, limit):
    return x < limit


def _same_file_content(path, text):
    with open(path) as f:
        return f.read() == text


def catalog():
    """id -> (name in testtools.matchers.__all__, factory of the real matcher, independent oracle: value -> bool (may raise))"""
    import testtools.matchers as M
    S = Scratch.get()
    P = S.path
    oc = doctest.OutputChecker()

    def nl(s):
        return s if s.endswith('\n') else s + '\n'

    def warns(f):
        """what the callable emits, by its own record (the warnings module is told to drop everything meanwhile)"""
        with warnings.catch_warnings():
            warnings.simplefilter('ignore')
            f()
        class W:
            def __init__(self, text, category):
                self.message, self.category = text, category
        return [W(t, c) for t, c in getattr(f, 'emitted', [])]

    def perms(p):
        return '%04o' % stat.S_IMODE(os.stat(p).st_mode)

    def tar_names(p):
        with open(p, 'rb') as f:
            with tarfile.open(p, fileobj=f) as t:
                return sorted(t.getnames())

    C = [
        ('MatchesRegex', lambda: M.MatchesRegex('a+b'), lambda v: re.match('a+b', v) is not None),
        ('MatchesRegex', lambda: M.MatchesRegex('.*b$', re.S), lambda v: re.match('.*b$', v, re.S) is not None),
        ('MatchesRegex', lambda: M.MatchesRegex(b'a'), lambda v: re.match(b'a', v) is not None),
        ('DocTestMatches', lambda: M.DocTestMatches('a...b', doctest.ELLIPSIS),
         lambda v: oc.check_output('a...b\n', nl(str(v)), doctest.ELLIPSIS)),
        ('DocTestMatches', lambda: M.DocTestMatches('ab\n'), lambda v: oc.check_output('ab\n', nl(str(v)), 0)),
        ('PathExists', lambda: M.PathExists(), lambda v: os.path.exists(v)),
        ('DirExists', lambda: M.DirExists(), lambda v: os.path.isdir(v)),
        ('FileExists', lambda: M.FileExists(), lambda v: os.path.isfile(v)),
        ('FileContains', lambda: M.FileContains('hello\n'), lambda v: os.path.exists(v) and _same_file_content(v, 'hello\n')),
        ('FileContains', lambda: M.FileContains(matcher=M.StartsWith('a')),
         lambda v: os.path.exists(v) and open(v).read().startswith('a')),
        ('DirContains', lambda: M.DirContains(['y', 'x']), lambda v: os.path.isdir(v) and sorted(os.listdir(v)) == ['x', 'y']),
        ('DirContains', lambda: M.DirContains(matcher=M.HasLength(0)), lambda v: os.path.isdir(v) and len(os.listdir(v)) == 0),
        ('HasPermissions', lambda: M.HasPermissions('0644'), lambda v: perms(v) == '0644'),
        ('SamePath', lambda: M.SamePath(P(2)), lambda v: same_path(v, P(2))),
        ('TarballContains', lambda: M.TarballContains(['other', 'file']), lambda v: tar_names(v) == ['file', 'other']),
        ('Warnings', lambda: M.Warnings(), lambda v: len(warns(v)) > 0),
        ('IsDeprecated', lambda: M.IsDeprecated(M.Contains('old')),
         lambda v: (lambda w: len(w) == 1 and w[0].category is DeprecationWarning and 'old' in str(w[0].message))(warns(v))),
        ('WarningMessage', lambda: M.Warnings(M.AnyMatch(M.WarningMessage(UserWarning))),
         lambda v: any(x.category is UserWarning for x in warns(v))),
        ('MatchesPredicate', lambda: M.MatchesPredicate(_pred_even, '%s is not even'), lambda v: v % 2 == 0),
        ('MatchesPredicateWithParams', lambda: M.MatchesPredicateWithParams(_pred_small, '{0} is not < {1}', 'Small')(3),
         lambda v: v < 3),
        # 20, 21: the regex given as a string to MatchesException(type, "regex") (sees str(exception))
        ('MatchesRegex', lambda: M.MatchesRegex('1'), lambda v: re.match('1', v) is not None),
        ('MatchesRegex', lambda: M.MatchesRegex('-?[0-9]$'), lambda v: re.match('-?[0-9]$', v) is not None),
        # 22..: permissions with / without the setuid, setgid, sticky digit
        ('HasPermissions', lambda: M.HasPermissions('4755'), lambda v: perms(v) == '4755'),
        ('HasPermissions', lambda: M.HasPermissions('0755'), lambda v: perms(v) == '0755'),
        ('HasPermissions', lambda: M.HasPermissions('2644'), lambda v: perms(v) == '2644'),
        ('HasPermissions', lambda: M.HasPermissions('1777'), lambda v: perms(v) == '1777'),
        ('HasPermissions', lambda: M.HasPermissions('0777'), lambda v: perms(v) == '0777'),
        # 27..: the same expectations given in another container / text type
        ('TarballContains', lambda: M.TarballContains(('other', 'file')), lambda v: tar_names(v) == ['file', 'other']),
        ('TarballContains', lambda: M.TarballContains(frozenset(['file'])), lambda v: tar_names(v) == ['file']),
        ('DirContains', lambda: M.DirContains(('x', 'y')), lambda v: os.path.isdir(v) and sorted(os.listdir(v)) == ['x', 'y']),
        ('DirContains', lambda: M.DirContains(set()), lambda v: os.path.isdir(v) and os.listdir(v) == []),
        ('SamePath', lambda: M.SamePath(P(4)), lambda v: same_path(v, P(4))),
    ]
    # 32..: SamePath on the spellings of the second tree (seed C06-f)
    WP = S.wide_paths()
    C += [('SamePath', lambda i=i: M.SamePath(WP[i]), lambda v, i=i: same_path(v, WP[i])) for i in SAMEPATH_WIDE]
    # 44..: the documented predicates of the warnings matchers over the LIST of warnings the callable emits (seed C06-h)
    dep = lambda x, text=None: x.category is DeprecationWarning and (text is None or str(x.message) == text)
    C += [
        ('Warnings', lambda: M.Warnings(M.HasLength(2)), lambda v: len(warns(v)) == 2),
        ('Warnings', lambda: M.Warnings(M.HasLength(3)), lambda v: len(warns(v)) == 3),
        ('WarningMessage', lambda: M.Warnings(M.AllMatch(M.WarningMessage(DeprecationWarning))), lambda v: all(dep(x) for x in warns(v))),
        ('IsDeprecated', lambda: M.IsDeprecated(M.Always()), lambda v: (lambda w: len(w) == 1 and dep(w[0]))(warns(v))),
        ('WarningMessage', lambda: M.Warnings(M.MatchesListwise([M.WarningMessage(DeprecationWarning, message=M.Equals('old thing'))] * 2)),
         lambda v: (lambda w: len(w) == 2 and all(dep(x, 'old thing') for x in w))(warns(v))),
        ('WarningMessage', lambda: M.Warnings(M.AnyMatch(M.WarningMessage(PendingDeprecationWarning))),
         lambda v: any(x.category is PendingDeprecationWarning for x in warns(v))),
        ('Warnings', lambda: M.Warnings(M.Not(M.HasLength(1))), lambda v: len(warns(v)) != 1),
    ]
    return C


def _p_falsy(x):
    return not x


def _p_never(x):
    return False


def _p_is_none(x):
    return x is None


# MatchesPredicate(predicate, message) leaves `(pred id msgkind rows...)`
PREDS = [_p_falsy, _p_never, _p_is_none]
PRED_MSG = {'one': '%s is not ok', 'zero': 'not ok', 'empty': '', 'two': '%s and %s'}

def pred_msg(pred_id, kind):
    """the message of a MatchesPredicate leaf; predicate 1 uses the bare "%s" as its one-conversion message (its
    mismatch on the matchee '' has the EMPTY description)"""
    if kind == 'one' and pred_id == 1:
        return '%s'
    return PRED_MSG[kind]


# catalog rows 32.. are SamePath(<wide_paths()[i]>) for these i (APPEND ONLY)
SAMEPATH_WIDE = [0, 1, 2, 5, 6, 30, 31, 19, 18, 21, 4, 9]
SAMEPATH_ROWS = [13, 31] + list(range(32, 32 + len(SAMEPATH_WIDE)))

# which kind of matchee each catalog row is meant for (generator hint only)
OPQ_FOR = {'str': [0, 1, 3, 4, 20, 21], 'bytes': [2], 'path': list(range(5, 15)) + [12, 22, 22, 23, 23, 24, 25, 26] + list(range(27, 32 + len(SAMEPATH_WIDE))),
           'fn': [15, 16, 17] + list(range(44, 51)), 'int': [18, 19]}
WARN_ROWS = [15, 16, 17] + list(range(44, 51))
# filters the CALLER has installed when match() runs (the matcher records everything regardless and puts them back)
AMBIENT = ['ignore', 'error', 'once', 'default', 'always', 'module']


class UnsafeInput(BaseException):
    """an int would reach a filesystem matcher: open(<int>) adopts - and closes - that file descriptor"""


class Recorder:
    """stands in for an opaque leaf during the dry run that finds out which values reach it"""

    def __init__(self, real, log, path_kind=False):
        self.real, self.log, self.path_kind = real, log, path_kind

    def match(self, v):
        if self.path_kind and not isinstance(v, (str, list, dict, type(None), ObjBase)):
            raise UnsafeInput()
        self.log.append(v)
        return self.real.match(v)

    def __str__(self):
        return str(self.real)


def classify_exc(e):
    """class name of a propagated exception: the nearest modelled class in its MRO"""
    for c in type(e).__mro__:
        if c in EXC_NAME:
            return EXC_NAME[c]
    return type(e).__name__


# ---------------------------------------------------------------- the plug-in
class C06(Prop):
    id = 'C06'
    budgets = {'quick': 50000, 'thorough': 1200000}
    time_limit = {'quick': 40, 'thorough': 480}
    rule = ('value-directed random matcher expressions (depth 0-4) over all stock matchers of testtools.matchers.__all__ x matchees '
            'from ints, strs, bytes, None, lists, tuples, dicts (keys of several, mutually unorderable types), objects with attributes, exc_info tuples, callables, scratch-dir paths (plain, and spelled through symlinked directories / `..` / relative / dangling / looping) '
            '(MatchesPredicate leaves with well- and ill-formed messages included); '
            '~10% deliberately ill-typed; MatchesSetwise nodes carry two forced set-iteration orders. thorough adds every '
            'combinator over <=2 leaves of a 9-leaf alphabet x 8 values. non-trivial = a combinator at the root and the '
            'matcher has a Boolean verdict; distinct = distinct input S-expression')
    assumptions = [
        'Python semantics of ==, <, in, len, iter, startswith, isinstance, getattr on the value universe are modelled (TTV/Model/Matchers.lean), not verified',
        'no bool values (True == 1), no objects with a dishonest or non-Boolean ==: Equals/Contains/SameMembers simply inherit the behaviour of == / in / bool() of such objects (match() propagates the ValueError of an array-like comparison); 0-ary combinators, empty containers and 0 / None as expected values are in the universe',
        'dict keys are one-letter strs, ints, bytes, None and tuples of ints / one-letter strs (mixed freely: keys of different types cannot be ordered with each other, nor can (1, \'a\') and (\'a\', 1)); dicts are built with the keys in a canonical order and objects/exceptions/callables are interned per case, so that == and `is` are structural equality in the model',
        'opaque leaves (MatchesRegex, DocTestMatches, filesystem matchers, Warnings/IsDeprecated/WarningMessage, MatchesPredicate[WithParams]) are tested against an independent oracle, not proved',
        'the files of the scratch directory contain no CR: FileContains reads in text mode with universal newlines, so a file containing \\r\\n or \\r is compared after translation to \\n (it never matches its own contents) - recorded, not repaired (open(path, newline="") would change what CRLF files written on Windows match)',
        'build B of every expression shares one Python object between equal sub-terms (MatchesSetwise(one, one), MatchesAll(m, m), ...): verdicts must not depend on sharing; values outside a leaf matcher\'s domain raise rather than mismatch (modelled: the propagated class)',
        'the scratch directory of the filesystem leaves holds a setuid file (4755), a setgid file (2644), a sticky directory (1777) besides plain modes; the permission oracle is stat.S_IMODE read back from the path',
        'paths: besides the first scratch tree a second one (/tmp/match-c06-paths1) reached through symbolic links to files, to a tarball and to DIRECTORIES that live elsewhere (b/link -> ../a/sub, so that b/link/.. is a, not b), `.` segments, doubled and trailing slashes, relative spellings, `..` after real directories, an absolute link, a dangling link, a link loop, `..` after a name that does not exist; every filesystem leaf meets them',
        'SamePath oracle = the documented predicate ("equal, or point to the same file in different ways"): os.path.samefile when both paths exist; when one of them does not exist (nothing to compare: dangling link, loop, missing name, `file/`) the paths are the same iff a component-by-component walk (os.lstat / os.readlink, links followed before the next component is read, the part after the first missing component taken textually) ends at the same place - this is what the unchanged code answers on all 46 x 46 pairs of the vocabulary',
        'the two builds of an expression differ in the iteration order of set(<matchers of a MatchesSetwise>), forced by re-allocating the matcher objects until list(set(..)) has the order given in the input (the verdict must not depend on it)',
        'MatchesSetwise asks every matcher about every value once, value by value (the first exception propagates); the pairing algorithm itself is abstracted to its outcome',
        'the class of an exception propagating out of an expression that contains a dict matcher is compared as Any (set-of-str iteration order is randomised per process; non-dict matchees make the three parts raise different classes)',
        'callables and warnings: a callable returning the int 1000+k first runs warning program k (the same (text, category, line) twice / three times in a loop; two warnings that differ only in text, only in category, only in line; stacklevel 1 and 2; warn_explicit with one registry on one / two lines; emitted from another module with its own __warningregistry__; PendingDeprecationWarning / ImportWarning / ResourceWarning / BytesWarning, which the default filters ignore; one then two), other ints emit n % 3 warnings. Oracle of Warnings / WarningMessage / IsDeprecated = the documented predicate over the list the callable itself recorded while emitting (not obtained from the warnings module)',
        'while match() runs the caller has a warning filter installed: "ignore", or - when only Warnings leaves call the callables - one of ignore / error / once / default / always / module chosen by the input; the verdict must not depend on it, and warnings.filters must be the same list afterwards (part of the `pure` clause: the unchanged code guarantees both through catch_warnings(record=True) + simplefilter("always"))',
        'exception vocabulary: the builtin classes of EXC and seven user-defined ones - MetaError(Exception, metaclass=abc.ABCMeta), its subclass MetaSub, MetaValueError(ValueError, metaclass=<a type subclass>), OddError(LookupError) with __slots__ and its own (honest: class and args) ==, StrRaisesError whose __str__ raises ValueError, UserInterrupt(KeyboardInterrupt), UserExit(SystemExit); `expected` is a class, a tuple of classes or (hint NT) a NAMED tuple of classes - a tuple subclass; value_re is None, a regex str (applied to str() of the exception) or a matcher; the instance form compares class (issubclass, as the code does) and args (one int). To the model a class is its row of bases only',
        'Raises: "Exceptions which are not subclasses of Exception propagate out of the Raises.match call unless they are explicitly matched" (docstring) - KeyboardInterrupt / SystemExit and their subclasses propagate when the exception matcher does not match them',
        'a value whose __str__ raises (StrRaisesError instances) makes MatchesException(type, "regex") and the `message % (x,)` of MatchesPredicate raise that ValueError inside match(): modelled; the spec says nothing (outside the documented domain of both)',
        'exc_info tuples are never iterated / compared by == inside Raises (their traceback member is outside the value universe)',
    ]

    manifest = {
        'text': 'Theorem C06_sound, by structural induction over matcher expressions of any depth (all stock matchers and combinators; '
                'leaves whose meaning lives in re/doctest/os/warnings as arbitrary predicate tables): for every value in the documented domain '
                'match() returns exactly the documented verdict (Not negates, MatchesAll/Any = and/or, AllMatch/AnyMatch = forall/exists, '
                'MatchesListwise positional with equal length, MatchesSetwise = a one-to-one pairing of all values with all matchers exists '
                '(C06_setwise, C06_spec_setwise_assignment), dict matchers = key-set condition + per-key matchers, MatchesStructure per attribute, '
                'Annotate/AfterPreprocessing transparent, SameMembers <=> List.Perm, Raises with the propagate rule), for either build of the '
                'expression (C06_deterministic: no dependence on hash-set order). holds_model is unconditional. Determinism/purity hold by '
                'construction of the model. The hand-written model is tied to the code by a differential check over random value-directed '
                'expressions (with a dedicated generator of ambiguous pairing instances) built twice with forced hash-set orders.',
        'note': 'MatchesSetwise: the pairing algorithm (augmenting paths) is not transcribed, the model computes its outcome by exhaustive search, '
                'the tie is the differential check; opaque leaves (regex, doctest, filesystem, warnings, MatchesPredicate over harness predicates) '
                'are tested against an independent oracle, not proved; Python ==, <, in, len, iter, getattr on the value universe are modelled, '
                'not verified',
        'technique': 'Lean 4 mutual structural induction over a nested matcher AST (matchImpl following the code vs. a declarative spec), executable '
                     'spec shared with a differential correspondence check (value-directed generator, forced hash-set orders, independent oracles)',
    }

    def extract_tables(self, repo):
        """tie: the decision structure of the stock matchers' match() methods, re-read from the tree (harness/pymatch2lean.py)"""
        from harness import pymatch2lean
        return {'TTV/Generated/MatchSrc.lean': pymatch2lean.generate(repo)}

    def __init__(self):
        self._cat = None
        self.unmodelled = None

    # ----- catalog / coverage of testtools.matchers.__all__
    MODEL_ROWS = {
        'AfterPreprocessing': 'after', 'AllMatch': 'allmatch', 'Always': 'always', 'Annotate': 'annot', 'AnyMatch': 'anymatch',
        'Contains': 'contains', 'ContainsAll': 'containsAll', 'ContainedByDict': 'dict', 'ContainsDict': 'dict',
        'DirContains': 'opq', 'DirExists': 'opq', 'DocTestMatches': 'opq', 'EndsWith': 'ends', 'Equals': 'eq',
        'FileContains': 'opq', 'FileExists': 'opq', 'GreaterThan': 'gt', 'HasLength': 'len', 'HasPermissions': 'opq',
        'Is': 'is', 'IsDeprecated': 'opq', 'IsInstance': 'isinst', 'KeysEqual': 'keys', 'LessThan': 'lt',
        'MatchesAll': 'all', 'MatchesAny': 'any', 'MatchesDict': 'dict', 'MatchesException': 'exctype',
        'MatchesListwise': 'listwise', 'MatchesPredicate': 'opq', 'MatchesPredicateWithParams': 'opq',
        'MatchesRegex': 'opq', 'MatchesSetwise': 'setwise', 'MatchesStructure': 'struct', 'Never': 'never',
        'NotEquals': 'ne', 'Not': 'not', 'PathExists': 'opq', 'Raises': 'raises', 'raises': 'raisesFn',
        'SameMembers': 'same', 'SamePath': 'opq', 'StartsWith': 'starts', 'TarballContains': 'opq',
        'Warnings': 'opq', 'WarningMessage': 'opq',
    }

    def cat(self):
        if self._cat is None:
            import testtools.matchers as M
            self._cat = catalog()
            opq_names = {c[0] for c in self._cat}
            missing = [n for n in M.__all__ if n not in self.MODEL_ROWS or (self.MODEL_ROWS[n] == 'opq' and n not in opq_names)]
            self.unmodelled = sorted(missing)
        return self._cat

    # ----- building the real matchers
    def build_m(self, t, ctx, which, junk, rec=None):
        """build 0 (A): every sub-term is its own Python object, MatchesSetwise children re-allocated until a hash set of
        them iterates in the order `ka`; build 1 (B): equal sub-terms are ONE shared Python object (stock matchers are
        stateless: the verdict of an expression must not depend on whether equal parts are one object)"""
        if which == 1 and rec is None:
            memo = ctx.__dict__.setdefault('shared', {})
            k = repr(t)
            if k not in memo:
                memo[k] = self._build_m(t, ctx, which, junk, rec)
            return memo[k]
        return self._build_m(t, ctx, which, junk, rec)

    def _build_m(self, t, ctx, which, junk, rec=None):
        import testtools.matchers as M
        B = lambda x: self.build_m(x, ctx, which, junk, rec)
        V = lambda x: build_v(x, ctx)
        h = t[0]
        if h == 'eq':
            return M.Equals(V(t[1]))
        if h == 'ne':
            return M.NotEquals(V(t[1]))
        if h == 'is':
            return M.Is(V(t[1]))
        if h == 'lt':
            return M.LessThan(V(t[1]))
        if h == 'gt':
            return M.GreaterThan(V(t[1]))
        if h == 'same':
            return M.SameMembers([V(x) for x in t[1:]])
        if h == 'starts':
            return M.StartsWith(V(t[1]))
        if h == 'ends':
            return M.EndsWith(V(t[1]))
        if h == 'contains':
            return M.Contains(V(t[1]))
        if h == 'containsAll':
            return M.ContainsAll([V(x) for x in t[1:]])
        if h == 'isinst':
            types = [self.pytype(x) for x in t[1:]]
            # isinstance() also takes a nested tuple or a union: same predicate, another way to write it
            form = zlib.crc32(repr(t).encode()) % 4 if len(types) >= 2 else 0
            if form == 1:
                return M.IsInstance(tuple(types))
            if form == 2:
                return M.IsInstance(functools.reduce(operator.or_, types))
            if form == 3:
                return M.IsInstance(types[0], tuple(types[1:]))
            return M.IsInstance(*types)
        if h == 'len':
            return M.HasLength(t[1])
        if h == 'always':
            return M.Always()
        if h == 'never':
            return M.Never()
        if h == 'keys':
            return M.KeysEqual(*[key(k) for k in t[1:]])
        if h == 'exctype':
            return M.MatchesException(self.pyexc(t[1]))
        if h == 'exctypeV':
            return M.MatchesException(self.pyexc(t[1]), B(t[2]))
        if h == 'exctypeRe':
            return M.MatchesException(self.pyexc(t[1]), self.RE_PATTERNS[t[2][1]])
        if h == 'excinst':
            return M.MatchesException(ctx.exc(t[1], t[2])[1])
        if h == 'raisesAny':
            return M.Raises()
        if h == 'raises':
            return M.Raises(B(t[1]))
        if h == 'raisesFn':
            return M.raises(self.pyexc(list(t[1:])))
        if h == 'raisesInst':
            return M.raises(ctx.exc(t[1], t[2])[1])
        if h == 'opq':
            real = self.cat()[t[1]][1]()
            if rec is not None:
                log = rec.setdefault(t[1], [])
                return Recorder(real, log, t[1] in OPQ_FOR['path'])
            return real
        if h == 'pred':
            real = M.MatchesPredicate(PREDS[t[1]], pred_msg(t[1], t[2]))
            if rec is not None:
                return Recorder(real, rec.setdefault(('pred', t[1]), []))
            return real
        if h == 'not':
            return M.Not(B(t[1]))
        if h == 'all':
            return M.MatchesAll(*[B(x) for x in t[2:]], first_only=t[1])
        if h == 'any':
            return M.MatchesAny(*[B(x) for x in t[1:]])
        if h == 'allmatch':
            return M.AllMatch(B(t[1]))
        if h == 'anymatch':
            return M.AnyMatch(B(t[1]))
        if h == 'listwise':
            return M.MatchesListwise([B(x) for x in t[2:]], first_only=t[1])
        if h == 'setwise':
            children = [B(x) for x in t[3:]]
            if which == 1:
                return M.MatchesSetwise(*children)      # shared children stay shared
            desired = sorted(range(len(children)), key=lambda i: (t[1][i], i))
            return M.MatchesSetwise(*self.force_order(children, desired, junk))
        if h == 'struct':
            return M.MatchesStructure(**{key(a): B(x) for a, x in t[1:]})
        if h == 'dict':
            cls = {'exact': M.MatchesDict, 'contains': M.ContainsDict, 'containedBy': M.ContainedByDict}[t[1]]
            return cls({key(k): B(x) for k, x in t[2:]})
        if h == 'annot':
            return M.Annotate('note', B(t[1]))
        if h == 'after':
            return M.AfterPreprocessing(self.PRE[t[1]], B(t[3]), annotate=t[2])
        raise ValueError('bad matcher tree %r' % (t,))

    # MatchesException(type, "regex"): index = the id of the opaque row (0/1: the str regexes of the catalog)
    RE_PATTERNS = {0: 'a+b', 1: '.*b$', 20: '1', 21: '-?[0-9]$'}

    @staticmethod
    def _str_of(v):
        if (isinstance(v, int) and v is not True and v is not False) or isinstance(v, BaseException):
            return str(v)
        raise TypeError('strOf')

    PRE = {'ident': (lambda v: v), 'wrap': (lambda v: [v]), 'len': len, 'strOf': None}

    def pytype(self, t):
        if isinstance(t, list):
            return OBJ[t[1]] if t[0] == 'obj' else EXC[t[1]]
        return {'int': int, 'str': str, 'bytes': bytes, 'list': list, 'dict': dict, 'tuple': tuple,
                'NoneType': type(None), 'object': object}[t]

    def pyexc(self, names):
        names = list(names)
        if names and names[0] == 'NT':           # realisation hint: the tuple of classes is a NAMED tuple (a tuple subclass)
            return named_tuple_of([EXC[n] for n in names[1:]])
        cs = tuple(EXC[n] for n in names)
        return cs[0] if len(cs) == 1 else cs

    def force_order(self, children, desired, junk):
        """re-allocate (shallow copies) until set(children) iterates in the order `desired` (list of indices)"""
        cur = list(children)
        if len(cur) <= 1:
            return cur
        rng = random.Random(len(junk))
        for _ in range(200000):
            pos = {id(x): i for i, x in enumerate(cur)}
            if [pos[id(x)] for x in set(cur)] == desired:
                return cur
            i = rng.randrange(len(cur))
            junk.append(cur[i])
            cur[i] = copy.copy(cur[i])
        raise RuntimeError('could not force the set order')

    # ----- oracle tables of the opaque leaves
    def strip(self, t):
        """remove the tables of opaque leaves"""
        if not isinstance(t, list):
            return t
        if t and t[0] == 'opq':
            return ['opq', t[1]]
        if t and t[0] == 'pred':
            return ['pred', t[1], t[2]]
        return [self.strip(x) for x in t]

    def oracle_verdict(self, k, pv):
        name, _, oracle = self.cat()[k] if k < len(self.cat()) else (None, None, None)
        try:
            return 'match' if oracle(pv) else 'mismatch'
        except BaseException as e:
            return ['raised', classify_exc(e)]

    def candidates(self, x, out, depth=0):
        """sub-values of the matchee that may flow to a leaf"""
        out.append(x)
        if depth > 4:
            return
        if isinstance(x, list) or (isinstance(x, tuple) and not (len(x) == 3 and isinstance(x[1], BaseException))):
            for y in x:
                self.candidates(y, out, depth + 1)
        elif isinstance(x, dict):
            for k, y in x.items():
                out.append(k)
                self.candidates(y, out, depth + 1)
        elif isinstance(x, ObjBase):
            for y in x.__dict__.values():
                self.candidates(y, out, depth + 1)
        elif isinstance(x, str) and 1 < len(x) <= 4:
            out.extend(x)

    def complete(self, inp):
        """fill in the verdict tables of the opaque leaves: oracle on every value that reaches the leaf in a dry
        run (both builds) and on every sub-value of the matchee"""
        m, v = self.strip(inp[0]), inp[1]
        if "'opq'" not in repr(m) and "'pred'" not in repr(m):
            return [m, v]
        with warnings.catch_warnings():
            warnings.simplefilter('ignore')
            return self._complete(m, v)

    def _complete(self, m, v):
        ctx = Ctx()
        rec = {}
        pv = build_v(v, ctx)
        for which in (0, 1):
            try:
                self.build_m(m, ctx, which, [], rec).match(pv)
            except UnsafeInput:
                return None
            except BaseException:
                pass
        cands = []
        self.candidates(pv, cands)

        def fill(t):
            if not isinstance(t, list):
                return t
            if t and t[0] == 'opq':
                k = t[1]
                seen, rows = set(), []
                reached = rec.get(k, [])
                for n, x in enumerate(reached + cands):
                    if k in OPQ_FOR['path'] and isinstance(x, int) and n >= len(reached):
                        continue      # a filesystem oracle given an int would read from that file descriptor
                    tree = unbuild(x)
                    kk = repr(tree)
                    if kk in seen or 'unknown' in kk:
                        continue
                    seen.add(kk)
                    rows.append([tree, self.oracle_verdict(k, x)])
                return ['opq', k] + rows[:40]
            if t and t[0] == 'pred':
                seen, rows = set(), []
                for x in rec.get(('pred', t[1]), []) + cands:
                    tree = unbuild(x)
                    kk = repr(tree)
                    if kk in seen or 'unknown' in kk:
                        continue
                    seen.add(kk)
                    try:
                        r = 'match' if PREDS[t[1]](x) else 'mismatch'
                    except BaseException as e:
                        r = ['raised', classify_exc(e)]
                    rows.append([tree, r])
                return ['pred', t[1], t[2]] + rows[:40]
            if t and t[0] == 'exctypeRe':
                return ['exctypeRe', t[1], fill_re(t[2])]
            return [fill(x) for x in t]

        def fill_re(t):
            # the leaf sees str(exception): table over the str() of every int argument in reach
            k = t[1]
            rows = []
            for n in range(-2, 12):
                s = str(n)
                rows.append([unbuild(s), self.oracle_verdict(k, s)])
            return ['opq', k] + rows
        return [fill(m), v]

    # ----- implementation side
    def verdict(self, matcher, pv):
        try:
            r = matcher.match(pv)
        except BaseException as e:
            if isinstance(e, (KeyboardInterrupt, SystemExit)) and not getattr(e, 'verif_generated', False):
                raise
            return ['raised', classify_exc(e)]
        return 'match' if r is None else 'mismatch'

    def coarse(self, t):
        if not isinstance(t, list):
            return False
        if t and t[0] == 'dict':
            return True
        if t and t[0] in ('opq', 'pred', 'eq', 'ne', 'is', 'lt', 'gt', 'same', 'starts', 'ends', 'contains', 'containsAll'):
            return False
        return any(self.coarse(x) for x in t)

    def ambient(self, inp):
        r = repr(inp[0])
        warn_leaf = any("['opq', %d," % k in r or "['opq', %d]" % k in r for k in WARN_ROWS)
        if not warn_leaf or "'raises" in r:
            return 'ignore'
        return AMBIENT[zlib.crc32(repr(inp).encode()) % len(AMBIENT)]

    def run_impl(self, inp):
        self.cat()
        if self.unmodelled:
            return ['unmodelled'] + self.unmodelled
        m, v = inp
        try:
          with warnings.catch_warnings():
            # the caller's filters: 'ignore' - or, when only Warnings leaves call the callables (a Raises would see an 'error'
            # filter turn the warning into an exception), one of AMBIENT chosen by the input
            warnings.simplefilter(self.ambient(inp))
            ctx = Ctx()
            junk = []
            pv = build_v(v, ctx)
            ma = self.build_m(m, ctx, 0, junk)
            mb = self.build_m(m, ctx, 1, junk)
            sm0, sv0 = snap(ma), unbuild(pv)
            filters0 = list(warnings.filters)
            first = self.verdict(ma, pv)
            again = self.verdict(ma, pv)
            other = self.verdict(mb, pv)
            pure_m = snap(ma) == sm0
            # "matching modifies neither the matcher nor the matched value" - nor the caller's warning filters
            pure_v = unbuild(pv) == sv0 and sv0 == (None if v == 'none' else v) and list(warnings.filters) == filters0
            if self.coarse(m):
                canon = lambda r: ['raised', 'Any'] if isinstance(r, list) else r
                first, again, other = canon(first), canon(again), canon(other)
          return [first, again, other, pure_m, pure_v]
        except Exception as e:
            return ['harness-raised', type(e).__name__]

    # ----- generators
    def gen(self, rng, tier):
        g = Gen(rng, self)
        x = rng.random()
        if x < 0.14:
            return pairing_case(rng)
        if x < 0.20:
            inp = self.complete(fs_case(rng))
            if inp is not None:
                return inp
        if x < 0.28:
            inp = self.complete(exc_case(rng, g))
            if inp is not None:
                return inp
        if x < 0.33:
            inp = self.complete(warn_case(rng))
            if inp is not None:
                return inp
        depth = rng.choice([0, 1, 1, 2, 2, 2, 3, 3, 4])
        while True:
            v = g.value()
            m = g.matcher(v, depth)
            inp = self.complete([m, v])
            if inp is not None:     # None: the dry run saw an int reach a filesystem matcher
                return inp

    def enumerate(self, tier):
        vals = [['i', 1], ['i', 2], ['s', 97], ['l'], ['l', ['i', 1]], ['l', ['i', 1], ['i', 2]], ['l', ['i', 2], ['i', 1]],
                ['d', [0, ['i', 1]]], None, ['d', [['ki', 1], ['i', 1]], [0, ['i', 2]]], ['t', ['i', 1], ['i', 2]], ['l', ['i', 1], ['i', 1]], ['b', 97]]
        leaves = [['eq', ['i', 1]], ['eq', ['i', 2]], ['lt', ['i', 2]], ['always'], ['never'], ['len', 2], ['contains', ['i', 1]], ['contains', ['i', 256]],
                  ['isinst', 'int'], ['any', ['eq', ['i', 1]], ['eq', ['i', 2]]]]
        unary = [lambda a: ['not', a], lambda a: ['allmatch', a], lambda a: ['anymatch', a], lambda a: ['annot', a],
                 lambda a: ['after', 'wrap', True, a], lambda a: ['listwise', False, a], lambda a: ['setwise', [0], [0], a],
                 lambda a: ['setwise', [0, 1], [1, 0], a, a], lambda a: ['all', False, a, a],
                 lambda a: ['dict', 'exact', [0, a]], lambda a: ['dict', 'contains', [0, a]], lambda a: ['dict', 'containedBy', [0, a]]]
        binary = [lambda a, b: ['all', False, a, b], lambda a, b: ['all', True, a, b], lambda a, b: ['any', a, b],
                  lambda a, b: ['listwise', False, a, b], lambda a, b: ['listwise', True, a, b],
                  lambda a, b: ['setwise', [0, 1], [1, 0], a, b], lambda a, b: ['setwise', [0, 1, 2], [2, 1, 0], a, a, b], lambda a, b: ['dict', 'exact', [0, a], [1, b]], lambda a, b: ['dict', 'contains', [['ki', 1], a], [0, b]],
                  lambda a, b: ['allmatch', ['any', a, b]], lambda a, b: ['not', ['all', False, a, b]]]
        for v in vals:
            for a in leaves:
                yield [a, v]
                for u in unary:
                    yield [u(a), v]
                for b in leaves:
                    for f in binary:
                        yield [f(a, b), v]

    def nontrivial(self, inp, trace):
        return inp[0][0] not in LEAF_HEADS and isinstance(trace, list) and trace and trace[0] in ('match', 'mismatch')

    def features(self, inp, trace):
        m, v = inp
        f = ['root:' + m[0], 'depth=%d' % min(mdepth(m), 5), 'value:' + (v[0] if isinstance(v, list) else 'none')]
        if isinstance(trace, list) and len(trace) == 5:
            r = trace[0]
            f.append('verdict:' + (r if isinstance(r, str) else 'raised:' + str(r[1])))
            if trace[0] != trace[2]:
                f.append('order-dependent')
        else:
            f.append('trace:' + str(trace[0]))
        f += greedy_report(m, v)
        if mixed_keys(v):
            f.append('dict-value:unorderable-keys')
        if "'ks'" in repr(v) or "'ks'" in repr(m):
            f.append('tuple-key-with-int-and-str-fields')
        if mixed_keys(m):
            f.append('dict-matcher/KeysEqual:unorderable-keys')
        if isinstance(v, list) and v[0] == 's' and len(v) > 20:
            name = ''.join(map(chr, v[1:])).rsplit('/', 1)[-1]
            if name in ('suid', 'sgid', 'sticky'):
                f.append('path:special-mode-bits')
                if m[0] == 'opq' and m[1] in PERM_ROWS:
                    f.append('HasPermissions-on-special-bits')
        s = repr(m)
        for h in ("'setwise'", "'opq'", "'pred'", "'dict'", "'struct'", "'raises'", "'exctypeV'", "'listwise'", "'same'"):
            if h in s:
                f.append('has:' + h.strip("'"))
        return f

    def shrink(self, inp):
        m, v = self.strip(inp[0]), inp[1]
        for m2 in shrink_m(m):
            c = self.complete([m2, v])
            if c is not None:
                yield c
        for v2 in shrink_v(v):
            c = self.complete([m, v2])
            if c is not None:
                yield c


def pairing_case(r):
    """MatchesSetwise instances in which values match several matchers: a hidden one-to-one pairing plus extra
    edges (or a chain with a unique pairing), sometimes spoilt (two matchers competing for one value, a missing /
    extra matcher); matchers, values and both hash-set orders shuffled independently, so that the greedy
    first-accepting-matcher choice of the pinned tree is frequently not part of any full pairing."""
    n = r.choice([2, 3, 3, 4, 4, 5])
    pool = [['i', k] for k in range(1, 8)] + [['s', 97], ['s', 98], None]
    vals = r.sample(pool, n)
    mode = r.random()
    acc = []
    if mode < 0.35:          # chain: matcher j accepts values j and j+1, the last one only value 0 -> unique pairing
        for j in range(n):
            acc.append({j, j + 1} if j + 1 < n else {0})
    else:
        perm = list(range(n))
        r.shuffle(perm)
        p_extra = r.choice([0.2, 0.4, 0.6])
        for j in range(n):
            acc.append({perm[j]} | {k for k in range(n) if r.random() < p_extra})
    x = r.random()
    if x < 0.15:             # spoil it: matcher 0 now competes with matcher 1 for the same single value
        acc[0] = {min(acc[1])}
        acc[1] = {min(acc[1])}
    elif x < 0.22:
        acc = acc[:-1]
    elif x < 0.29:
        acc.append({r.randrange(n)})
    dup = r.random()
    if dup < 0.25:           # a repeated value wants a repeated matcher: equal sub-terms (one shared object in build B)
        j = r.randrange(len(acc))
        vals = vals + [vals[min(acc[j])]] if acc[j] else vals
        acc = acc + [acc[j]]
    elif dup < 0.32:         # repeated matcher without a second value / repeated value without a second matcher
        if r.random() < 0.5:
            acc = acc + [acc[r.randrange(len(acc))]]
        else:
            vals = vals + [vals[r.randrange(len(vals))]]

    def matcher(a):
        a = sorted(a)
        if len(a) == n and r.random() < 0.5:
            return r.choice([['always'], ['not', ['never']]])
        if len(a) == 1 and r.random() < 0.6:
            return ['eq', vals[a[0]]]
        return ['any'] + [['eq', vals[k]] for k in a]
    made = {}
    ms = [made.setdefault(tuple(sorted(a)), matcher(a)) for a in acc]      # equal acceptance sets: equal terms
    r.shuffle(ms)
    n = len(vals)
    order = list(range(n))
    r.shuffle(order)
    ka = list(range(len(ms)))
    r.shuffle(ka)
    kb = list(range(len(ms)))
    r.shuffle(kb)
    m = ['setwise', ka, kb] + ms
    v = ['l'] + [vals[k] for k in order]
    x = r.random()
    if x < 0.15:
        m = ['not', m]
    elif x < 0.25:
        m, v = ['allmatch', m], ['l', v, v]
    elif x < 0.3:
        m = ['annot', m]
    return [m, v]


PERM_ROWS = [12, 22, 23, 24, 25, 26]


def exc_case(r, g):
    """MatchesException / Raises / raises over the exception vocabulary: an exc_info tuple or a raising callable of one of the
    classes (user-defined ones - metaclass, named-tuple expectations, __slots__/__eq__, raising __str__, subclasses of the signal
    exceptions - as likely as the builtins) against the type form (class, tuple, named tuple; value_re None / a regex str / a
    matcher), the instance form (same / other args, same / base / sibling class), alone, negated, or under Raises / raises()"""
    c = r.choice(RAISABLE + list(USER_EXC))
    a = r.choice([0, 1, 2, 11])
    n = r.choice([1, 1, 1, 2, 2, 3])
    x = r.random()
    if x < 0.3:
        em = ['exctype', g.classes_for(c, n)]
    elif x < 0.45:
        em = ['exctypeRe', g.classes_for(c, n), ['opq', r.choice([20, 21])]]
    elif x < 0.65:
        inner = r.choice([['always'], ['never'], ['after', 'strOf', False, ['opq', 20]], ['not', ['never']],
                          ['exctype', ['Exception']], ['isinst', 'int']])
        em = ['exctypeV', g.classes_for(c, n), inner]
    else:
        w = [r.choice([c, c, c] + EXC_BASES[c] + [r.choice(RAISABLE)]), r.choice([a, a, a + 1])]
        em = ['excinst'] + w
    y = r.random()
    if y < 0.45:
        m, v = em, ['ei', c, a]
    elif y < 0.6:
        m, v = ['not', em], ['ei', c, a]
    elif y < 0.8:
        m, v = ['raises', em], ['fx', c, a]
    elif y < 0.9:
        m, v = (['raisesFn'] + g.classes_for(c, r.choice([1, 1, 2]))), ['fx', c, a]
    elif y < 0.95:
        m, v = ['raisesInst', r.choice([c] + EXC_BASES[c]), r.choice([a, a + 1])], ['fx', c, a]
    else:
        m, v = ['allmatch', em], ['l'] + [['ei', r.choice([c, r.choice(RAISABLE)]), a] for _ in range(r.choice([1, 2, 3]))]
    return [m, v]


def warn_case(r):
    """a Warnings / WarningMessage / IsDeprecated leaf on a callable with a warning program (repeats of one warning, near-repeats,
    other ways to emit, quiet categories) or one of the plain callables, alone or under a combinator"""
    fn = lambda: ['fr', ['i', r.choice([WARN_BASE + r.randrange(len(WARN_PROGRAMS))] * 3 + [0, 1, 2, 4, 5])]]
    row = lambda: ['opq', r.choice(WARN_ROWS)]
    v = fn()
    x = r.random()
    if x < 0.5:
        m = row()
    elif x < 0.62:
        m = ['not', row()]
    elif x < 0.8:
        m = (['all', r.random() < 0.3] if r.random() < 0.5 else ['any']) + [row() for _ in range(r.choice([2, 2, 3]))]
    elif x < 0.88:
        m = ['annot', row()]
    else:
        m, v = [r.choice(['allmatch', 'anymatch']), row()], ['l'] + [fn() for _ in range(r.choice([1, 2, 3]))]
    return [m, v]


def fs_case(r):
    """a filesystem matcher (permission expectations with and without the setuid/setgid/sticky digit twice as likely)
    on a path of the scratch directories (half: the wide spellings of the second tree; else the first tree, paths with
    special mode bits twice as likely), alone or under a combinator"""
    S = Scratch.get()
    path = lambda: ['s'] + [ord(c) for c in (r.choice(S.wide_paths()) if r.random() < 0.5 else S.path(r.choice(list(range(len(S.paths))) + [8, 9, 10, 11])))]
    row = lambda: ['opq', r.choice(OPQ_FOR['path'] + PERM_ROWS)]
    v = path()
    x = r.random()
    if x < 0.45:
        m = row()
    elif x < 0.55:
        m = ['not', row()]
    elif x < 0.7:
        m = [r.choice(['any', 'any', 'all'])] + ([r.random() < 0.3] if False else [])
        m = (['all', r.random() < 0.3] if r.random() < 0.4 else ['any']) + [row() for _ in range(r.choice([2, 2, 3]))]
    elif x < 0.8:
        m = ['annot', row()]
    elif x < 0.9:
        m, v = [r.choice(['allmatch', 'anymatch']), row()], ['l'] + [path() for _ in range(r.choice([1, 2, 3]))]
    else:
        ps = [path() for _ in range(2)]
        m, v = ['listwise', False, row(), row()], ['l'] + ps
    return [m, v]


def key_type(k):
    return 'str' if isinstance(k, int) else 'none' if k == 'kn' else k[0]


def unorderable_tuples(ks):
    """two tuple keys whose first differing fields are an int and a str: sorted() raises although the types agree"""
    ts = [key(k) for k in ks if isinstance(k, list) and k[0] == 'kt']
    try:
        sorted(ts)
    except TypeError:
        return True
    return False


def mixed_keys(t):
    """does some dict value / dict matcher / KeysEqual of the tree have keys of two or more types?"""
    if not isinstance(t, list) or not t:
        return False
    ks = None
    if t[0] == 'd':
        ks = [e[0] for e in t[1:]]
    elif t[0] == 'dict':
        ks = [e[0] for e in t[2:]]
    elif t[0] == 'keys':
        ks = t[1:]
    if ks is not None and (len({key_type(k) for k in ks}) >= 2 or unorderable_tuples(ks)):
        return True
    return any(mixed_keys(x) for x in t[1:] if isinstance(x, list))


def greedy_report(m, v):
    """for a root MatchesSetwise over eq / any-of-eq / always matchers on a list: does a full pairing exist, and would
    the first-accepting-matcher loop of the pinned tree find one in the two hash-set orders?  (evidence only)"""
    if m[0] != 'setwise' or not isinstance(v, list) or v[0] != 'l':
        return []
    vals, ms = v[1:], m[3:]

    def accepts(t, x):
        if t == ['always'] or t == ['not', ['never']]:
            return True
        if t[0] == 'eq':
            return t[1] == x
        if t[0] == 'any' and all(c[0] == 'eq' for c in t[1:]):
            return any(c[1] == x for c in t[1:])
        raise ValueError
    try:
        A = [[accepts(t, x) for t in ms] for x in vals]
    except ValueError:
        return []
    import itertools
    exists = len(vals) == len(ms) and any(all(A[i][p[i]] for i in range(len(vals))) for p in itertools.permutations(range(len(ms))))

    def greedy(keys):
        rem = sorted(range(len(ms)), key=lambda i: (keys[i], i))
        for i in range(len(vals)):
            for j in rem:
                if A[i][j]:
                    rem.remove(j)
                    break
            else:
                return False
        return not rem
    out = ['pairing:' + ('exists' if exists else 'none')]
    if any(sum(row) > 1 for row in A):
        out.append('pairing:value-matches-several')
    if exists:
        fa, fb = not greedy(m[1]), not greedy(m[2])
        out.append('pairing:greedy-misses-it-in-' + ('both-orders' if fa and fb else 'one-order' if fa or fb else 'no-order'))
    return out


LEAF_HEADS = {'eq', 'ne', 'is', 'lt', 'gt', 'same', 'starts', 'ends', 'contains', 'isinst', 'len', 'always', 'never', 'keys',
              'exctype', 'excinst', 'raisesAny', 'opq', 'pred', 'raisesFn', 'raisesInst', 'exctypeRe', 'containsAll'}
VALUE_HEADS = {'i', 's', 'b', 'l', 't', 'd', 'o', 'ei', 'ev', 'fr', 'fx'}


def sub_matchers(m):
    """(index, child) for the matcher-valued positions of a node"""
    h = m[0]
    if h in LEAF_HEADS:
        return []
    if h in ('not', 'allmatch', 'anymatch', 'annot', 'raises'):
        return [(1, m[1])]
    if h == 'exctypeV':
        return [(2, m[2])]
    if h == 'after':
        return [(3, m[3])]
    if h in ('all', 'listwise'):
        return [(i, m[i]) for i in range(2, len(m))]
    if h == 'any':
        return [(i, m[i]) for i in range(1, len(m))]
    if h == 'setwise':
        return [(i, m[i]) for i in range(3, len(m))]
    if h == 'struct':
        return [((i, 1), m[i][1]) for i in range(1, len(m))]
    if h == 'dict':
        return [((i, 1), m[i][1]) for i in range(2, len(m))]
    return []


def mdepth(m):
    return 1 + max([mdepth(c) for _, c in sub_matchers(m)] or [0])


def replace_at(m, idx, new):
    m = list(m)
    if isinstance(idx, tuple):
        m[idx[0]] = [m[idx[0]][0], new]
    else:
        m[idx] = new
    return m


def shrink_m(m):
    subs = sub_matchers(m)
    for _, c in subs:
        yield c                                   # hoist a child
    h = m[0]
    if h in ('all', 'listwise', 'any', 'struct', 'dict'):
        lo = {'all': 2, 'listwise': 2, 'any': 1, 'struct': 1, 'dict': 2}[h]
        for i in range(lo, len(m)):
            yield m[:i] + m[i + 1:]               # drop a part
    if h == 'setwise':
        n = len(m) - 3
        for i in range(n):
            yield ['setwise', m[1][:i] + m[1][i + 1:], m[2][:i] + m[2][i + 1:]] + m[3:3 + i] + m[4 + i:]
    for idx, c in subs:
        for c2 in shrink_m(c):
            yield replace_at(m, idx, c2)
    if h not in ('always', 'never'):
        yield ['always']
        yield ['never']


def shrink_v(v):
    if not isinstance(v, list):
        return
    h = v[0]
    if h in ('l', 't'):
        for i in range(1, len(v)):
            yield v[:i] + v[i + 1:]
            yield v[i]
            for x in shrink_v(v[i]):
                yield v[:i] + [x] + v[i + 1:]
    elif h in ('d', 'o'):
        lo = 1 if h == 'd' else 2
        for i in range(lo, len(v)):
            yield v[:i] + v[i + 1:]
            for x in shrink_v(v[i][1]):
                yield v[:i] + [[v[i][0], x]] + v[i + 1:]
    elif h in ('s', 'b'):
        for i in range(1, len(v)):
            yield v[:i] + v[i + 1:]
    elif h == 'i' and v[1] != 0:
        yield ['i', 0]


class Gen:
    """value-directed generator: the matcher is chosen for the concrete matchee so that matches and mismatches are
    both frequent; with probability ~0.1 per node a matcher meant for another type is used."""

    def __init__(self, rng, prop):
        self.r = rng
        self.prop = prop

    # --- values
    def int_(self):
        return ['i', self.r.choice([-1, 0, 1, 1, 2, 2, 3, 4, 5, 255, 256, 300])]

    def str_(self):
        r = self.r
        if r.random() < 0.25:
            return ['s'] + [ord(c) for c in r.choice(Scratch.get().all_paths())]
        return ['s'] + [r.choice([97, 97, 98, 98, 99, 10, 233]) for _ in range(r.choice([0, 1, 1, 2, 2, 3, 4]))]

    def bytes_(self):
        return ['b'] + [self.r.choice([97, 98, 0, 255]) for _ in range(self.r.choice([0, 1, 2, 3]))]

    def value(self, depth=2, kinds=None):
        r = self.r
        kinds = kinds or ['int', 'int', 'str', 'str', 'bytes', 'none', 'list', 'list', 'list', 'tuple', 'dict', 'dict', 'dict', 'obj', 'obj',
                          'ei', 'fn', 'fn']
        k = r.choice(kinds)
        if depth == 0 and k in ('list', 'tuple', 'dict', 'obj'):
            k = r.choice(['int', 'str'])
        if k == 'int':
            return self.int_()
        if k == 'str':
            return self.str_()
        if k == 'bytes':
            return self.bytes_()
        if k == 'none':
            return None
        plain = ['int', 'int', 'int', 'str', 'str', 'none', 'list', 'tuple', 'dict', 'obj', 'bytes']
        if k in ('list', 'tuple'):
            head = 'l' if k == 'list' else 't'
            n = r.choice([0, 1, 2, 2, 3, 3, 4])
            if r.random() < 0.6:     # homogeneous
                kk = [r.choice(['int', 'int', 'str', 'list', 'dict', 'obj'])]
                return [head] + [self.value(depth - 1, kk) for _ in range(n)]
            return [head] + [self.value(depth - 1, plain) for _ in range(n)]
        if k == 'dict':
            return ['d'] + [[kk, self.value(depth - 1, plain)] for kk in self.keys_(r.choice([0, 1, 2, 2, 3]))]
        if k == 'obj':
            ks = sorted(r.sample(range(3), r.choice([0, 1, 2, 2, 3])))
            return ['o', r.randrange(3)] + [[kk, self.value(depth - 1, plain)] for kk in ks]
        if k == 'ei':
            return ['ei', r.choice(RAISABLE), r.choice([0, 1, 2, 11])]
        if k == 'fn':
            if r.random() < 0.4:
                return ['fr', self.value(min(depth, 1), ['int', 'int', 'str', 'none', 'list'])]
            return ['fx', r.choice(RAISABLE), r.choice([0, 1, 2, 11])]
        raise AssertionError(k)

    def keys_(self, n):
        """n distinct dict keys in canonical order: one-letter strs only (50%), or a mix of strs, ints, None, bytes, tuples
        (keys of different types cannot be ordered with each other)"""
        r = self.r
        pool = KEY_POOL[:4] if r.random() < 0.5 else KEY_POOL
        return sorted(r.sample(pool, min(n, len(pool))), key=key_order)

    def near(self, v):
        """a value equal or close to v"""
        r = self.r
        x = r.random()
        if x < 0.5 or not isinstance(v, list):
            return v
        h = v[0]
        if h == 'i':
            return ['i', v[1] + r.choice([-1, 1])]
        if h in ('s', 'b'):
            if len(v) > 1 and x < 0.75:
                return v[:-1]
            return v + [98]
        if h in ('l', 't'):
            if len(v) > 1 and x < 0.7:
                i = r.randrange(1, len(v))
                return v[:i] + v[i + 1:]
            if len(v) > 2 and x < 0.85:
                w = v[1:]
                r.shuffle(w)
                return [h] + w
            if x < 0.9:
                return ['l' if h == 't' else 't'] + v[1:]      # same members, other sequence type
            return v + [self.int_()]
        if h in ('d', 'o'):
            lo = 1 if h == 'd' else 2
            if len(v) > lo:
                i = r.randrange(lo, len(v))
                if x < 0.75:
                    return v[:i] + v[i + 1:]
                return v[:i] + [[v[i][0], self.near(v[i][1])]] + v[i + 1:]
            return v
        if h in ('ei', 'ev', 'fx'):
            return [h, v[1], v[2] + 1] if x < 0.75 else [h, r.choice(RAISABLE), v[2]]
        return v

    def classes_for(self, c, n):
        """n classes to expect when the exception at hand has class `c`: mostly `c`, its bases, a sibling; two or more classes
        come as a plain tuple or (hint NT) as a named tuple; one class as the class itself or (NT) as a named 1-tuple"""
        r = self.r
        pool = [c, c] + EXC_BASES.get(c, [c]) + ['Exception', 'BaseException', 'LookupError', 'ValueError', 'KeyboardInterrupt', r.choice(RAISABLE)]
        cs = [r.choice(pool) for _ in range(n)]
        if r.random() < (0.35 if n >= 2 else 0.12):
            cs = ['NT'] + cs
        return cs

    # --- matchers
    def vtype(self, v):
        if not isinstance(v, list):
            return 'none'
        return {'i': 'int', 's': 'str', 'b': 'bytes', 'l': 'list', 't': 'tuple', 'd': 'dict', 'o': 'obj', 'ei': 'ei', 'ev': 'ev',
                'fr': 'fn', 'fx': 'fn'}[v[0]]

    def typetag(self, v):
        r = self.r
        t = self.vtype(v)
        own = {'int': 'int', 'str': 'str', 'bytes': 'bytes', 'list': 'list', 'tuple': 'tuple', 'dict': 'dict', 'none': 'NoneType',
               'ei': 'tuple', 'fn': 'object'}.get(t)
        if t == 'obj':
            own = ['obj', v[1]]
        if t == 'ev':
            own = ['exc', r.choice([v[1], 'Exception', 'BaseException', 'LookupError'])]
        others = ['int', 'str', 'bytes', 'list', 'dict', 'tuple', 'NoneType', ['obj', r.randrange(3)], ['exc', 'Exception']]
        tags = []
        if r.random() < 0.55:
            tags.append(own)
        for _ in range(r.choice([0, 1, 1, 2])):
            tags.append(r.choice(others))
        if r.random() < 0.05:
            tags.append('object')
        return tags

    def elems(self, v):
        """what iter(v) yields, as trees (None if not iterable in the model)"""
        if not isinstance(v, list):
            return None
        h = v[0]
        if h in ('l', 't'):
            return v[1:]
        if h == 'd':
            return [key_value(k) for k, _ in v[1:]]
        if h == 's':
            return [['s', c] for c in v[1:]]
        if h == 'b':
            return [['i', c] for c in v[1:]]
        return None

    def leaf(self, v):
        """a leaf matcher suited to v"""
        r = self.r
        t = self.vtype(v)
        has_ei = "'ei'" in repr(v)        # == on exc_info tuples is outside the modelled domain inside Raises
        opts = ['always', 'never', 'isinst', 'isinst', 'pred']
        if has_ei and t != 'ei':
            opts += ['len'] if t in ('list', 'tuple', 'dict') else []
            t = 'other'
        if not has_ei:
            opts += ['eq', 'eq', 'eq', 'ne']
        if t in ('none', 'obj', 'fn', 'ev'):
            opts += ['is']
        if t in ('int', 'str', 'bytes', 'list', 'tuple'):
            opts += ['lt', 'gt']
        if t in ('str', 'bytes'):
            opts += ['starts', 'ends', 'contains', 'len', 'opq', 'opq', 'same']
        if t == 'int':
            opts += ['opq']
        if t in ('list', 'tuple', 'dict'):
            opts += ['contains', 'contains', 'containsAll', 'len', 'len', 'same', 'same']
        if t == 'dict':
            opts += ['keys', 'keys']
        if t == 'ei':
            opts += ['exctype', 'exctype', 'excinst', 'excinst', 'len', 'exctypeRe']
        if t == 'fn':
            opts += ['raisesAny', 'raisesAny', 'raisesFn', 'raisesFn', 'raisesInst', 'opq', 'opq']
        k = r.choice(opts)
        if k in ('always', 'never'):
            return [k]
        if k == 'pred':
            return ['pred', r.randrange(len(PREDS)), r.choice(['one', 'one', 'one', 'one', 'zero', 'empty', 'two'])]
        if k == 'isinst':
            return ['isinst'] + self.typetag(v)
        if k in ('eq', 'ne', 'is'):
            return [k, self.near(v)]
        if k in ('lt', 'gt'):
            w = self.near(v)
            if t in ('list', 'tuple') and r.random() < 0.5:
                w = [v[0]] + [self.int_() for _ in range(r.randint(0, 2))]
            return [k, w]
        if k in ('starts', 'ends'):
            body = v[1:]
            n = r.randint(0, len(body))
            part = body[:n] if k == 'starts' else body[len(body) - n:]
            if r.random() < 0.3:
                part = part + [99]
            return [k, [v[0]] + part]
        if k == 'contains':
            es = self.elems(v)
            if t == 'str':
                body = v[1:]
                i = r.randint(0, len(body))
                j = r.randint(i, len(body))
                return ['contains', ['s'] + body[i:j] + ([100] if r.random() < 0.3 else [])]
            if t == 'bytes':
                return ['contains', r.choice([['i', r.choice([97, 98, 0, 255, 256, -1])], ['b'] + v[1:][:r.randint(0, 2)]])]
            if es and r.random() < 0.7:
                return ['contains', r.choice(es)]
            return ['contains', r.choice([self.int_(), self.str_(), ['l'], None, ['t', ['i', 1], ['i', 2]], ['t'], ['b', 97], ['t', ['l']], ['t', ['i', 1], ['s', 97]]])]
        if k == 'containsAll':
            es = self.elems(v) or []
            items = [r.choice(es) for _ in range(r.randint(0, 2))] if es else []
            if r.random() < 0.3:
                items.append(self.int_())
            return ['containsAll'] + items
        if k == 'len':
            n = len(self.elems(v)) if self.elems(v) is not None else 3
            return ['len', n + r.choice([0, 0, 0, 1, -1])]
        if k == 'same':
            es = list(self.elems(v) or [])
            r.shuffle(es)
            x = r.random()
            if x < 0.2 and es:
                es = es[:-1]
            elif x < 0.35 and es:
                es = es + [es[0]]
            elif x < 0.45:
                es = es + [self.int_()]
            return ['same'] + es
        if k == 'keys':
            ks = [kk for kk, _ in v[1:]]
            x = r.random()
            if x < 0.2 and ks:
                ks = ks[:-1]
            elif x < 0.35:
                ks = ks + [r.choice(KEY_POOL)]         # possibly a duplicate / a key of another type
            r.shuffle(ks)
            return ['keys'] + ks
        if k == 'exctype':
            return ['exctype', self.classes_for(v[1], r.choice([1, 1, 1, 2, 0]))]
        if k == 'exctypeRe':
            return ['exctypeRe', self.classes_for(v[1], r.choice([1, 1, 1, 2])), ['opq', r.choice([20, 21])]]
        if k == 'excinst':
            w = self.near(v)
            return ['excinst', w[1], w[2]]
        if k == 'raisesAny':
            return ['raisesAny']
        if k == 'raisesFn':
            c = v[1] if v[0] == 'fx' else 'ValueError'
            return ['raisesFn'] + self.classes_for(c, r.choice([1, 1, 2]))
        if k == 'raisesInst':
            w = self.near(v) if v[0] == 'fx' else ['fx', 'ValueError', 1]
            return ['raisesInst', w[1], w[2]]
        if k == 'opq':
            if t == 'str':
                pool = OPQ_FOR['path'] if (len(v) > 8) else OPQ_FOR['str']
            else:
                pool = OPQ_FOR.get(t, OPQ_FOR['str'])
            return ['opq', r.choice(pool)]
        raise AssertionError(k)

    def matcher(self, v, depth):
        r = self.r
        if r.random() < 0.08:
            # ill-typed on purpose: a matcher built for some other value (never for exc_info tuples / exception
            # instances / callables, whose behaviour under foreign matchers is outside the model)
            w = self.value(1, ['int', 'str', 'bytes', 'none', 'list', 'dict', 'obj'])
            rv = repr(v)
            if not any(h in rv for h in ("'ei'", "'ev'", "'fr'", "'fx'")) and '47' not in repr(w):   # no path strings (47 = '/')
                return self.matcher_for(w, depth)
        return self.matcher_for(v, depth)

    def matcher_for(self, v, depth):
        r = self.r
        t = self.vtype(v)
        if depth <= 0:
            return self.leaf(v)
        sub = lambda: self.matcher(v, depth - 1)
        opts = ['leaf', 'not', 'not', 'all', 'all', 'any', 'any', 'annot', 'after_ident', 'after_wrap']
        es = self.elems(v)
        if es is not None:
            opts += ['allmatch', 'allmatch', 'anymatch', 'anymatch', 'listwise', 'listwise', 'listwise', 'setwise', 'setwise',
                     'setwise', 'setwise', 'after_len']
        if t == 'dict':
            opts += ['dict'] * 6
        if t == 'obj':
            opts += ['struct'] * 6
        if t == 'ei':
            opts += ['exctypeV'] * 4
        if t == 'fn':
            opts += ['raises'] * 6
        if t in ('int', 'ev'):
            opts += ['after_str', 'after_str']
        k = r.choice(opts)
        if k == 'leaf':
            return self.leaf(v)
        if k == 'not':
            return ['not', sub()]
        if k == 'all':
            return ['all', r.random() < 0.3] + [sub() for _ in range(r.choice([0, 1, 2, 2, 3]))]
        if k == 'any':
            return ['any'] + [sub() for _ in range(r.choice([0, 1, 2, 2, 3]))]
        if k == 'annot':
            return ['annot', sub()]
        if k == 'after_ident':
            return ['after', 'ident', r.random() < 0.5, sub()]
        if k == 'after_wrap':
            return ['after', 'wrap', r.random() < 0.5, self.matcher(['l', v], depth - 1)]
        if k == 'after_len':
            return ['after', 'len', r.random() < 0.5, self.matcher(['i', len(es)], depth - 1)]
        if k == 'after_str':
            n = v[1] if t == 'int' else v[2]
            return ['after', 'strOf', r.random() < 0.5, self.matcher(['s'] + [ord(c) for c in str(n)], depth - 1)]
        if k in ('allmatch', 'anymatch'):
            e = r.choice(es) if es else self.int_()
            return [k, self.matcher(e, depth - 1)]
        if k == 'listwise':
            ms = [self.matcher(e, depth - 1) for e in es]
            x = r.random()
            if x < 0.12 and ms:
                ms = ms[:-1]
            elif x < 0.24:
                ms = ms + [['always']]
            return ['listwise', r.random() < 0.3] + ms
        if k == 'setwise':
            es2 = list(es)[:4]
            ms = []
            for e in es2:
                x = r.random()
                if x < 0.55:
                    ms.append(['eq', e] if "'ei'" not in repr(e) else ['always'])
                elif x < 0.7:      # deliberately overlapping: ambiguity
                    ms.append(r.choice([['always'], ['isinst', 'int', 'str']] + ([['any', ['eq', e], ['eq', r.choice(es2)]]] if "'ei'" not in repr(es2) else [])))
                else:
                    ms.append(self.matcher(e, depth - 1))
            x = r.random()
            if x < 0.1 and ms:
                ms = ms[:-1]
            elif x < 0.2 and len(ms) < 4:
                ms = ms + [r.choice([['always'], ['never'], ['eq', self.int_()]])]
            r.shuffle(ms)
            n = len(ms)
            ka = list(range(n))
            r.shuffle(ka)
            kb = list(range(n))
            r.shuffle(kb)
            if r.random() < 0.3:
                kb = list(ka)
            return ['setwise', ka, kb] + ms
        if k == 'dict':
            kvs = v[1:]
            entries = {ktok(kk): [kk, self.matcher(x, depth - 1)] for kk, x in kvs}
            x = r.random()
            if x < 0.2 and entries:
                del entries[r.choice(sorted(entries, key=repr))]
            elif x < 0.4:
                extra = r.choice(KEY_POOL)
                entries[ktok(extra)] = [extra, r.choice([['always'], ['never']])]
            return ['dict', r.choice(['exact', 'contains', 'containedBy'])] + sorted(entries.values(), key=lambda e: key_order(e[0]))
        if k == 'struct':
            kvs = v[2:]
            entries = [[a, self.matcher(x, depth - 1)] for a, x in kvs if r.random() < 0.8]
            if r.random() < 0.07:
                entries.append([r.randrange(4), ['always']])   # possibly a missing attribute
            r.shuffle(entries)
            seen, out = set(), []
            for a, m in entries:
                if a not in seen:
                    seen.add(a)
                    out.append([a, m])
            return ['struct'] + out
        if k == 'exctypeV':
            cs = self.classes_for(v[1], r.choice([1, 1, 2]))
            return ['exctypeV', cs, self.matcher(['ev', v[1], v[2]], depth - 1)]
        if k == 'raises':
            if v[0] == 'fx':
                return ['raises', self.matcher(['ei', v[1], v[2]], depth - 1)]
            return ['raises', r.choice([['always'], ['never'], ['exctype', ['Exception']]])]
        raise AssertionError(k)


C06.PRE['strOf'] = C06._str_of
PROP = C06()
