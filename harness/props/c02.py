"""C02 (model M-Run, harness/mrun.py)."""
from harness.mrun import RunProp
from harness.props.c01 import C01


class C02(RunProp):
    id = 'C02'
    rule = C01.rule


PROP = C02()
