"""C02 (model M-Run, harness/mrun.py)."""
from harness.mrun import RunProp
from harness.props.c01 import C01


class C02(RunProp):
    id = 'C02'
    rule = C01.rule
    manifest = {
        'text': 'Theorems (same Lean model of TestCase.run/RunTest and same quantifier as C01: all test programs with any nesting of cleanups, '
                'fixtures and patches, any exception kinds in any stages, decorators, handler tables, 7 result flavours, any left-over '
                'force_failure, any number of repeated runs): setUp runs first, the test method and tearDown run exactly once iff setUp '
                'returned, then only cleanups; the executed cleanups are a permutation of all cleanups ever registered (in setUp, test, '
                'tearDown, inside cleanups, by patch, by useFixture); the stage sequence is accepted by a LIFO stack machine; no cleanup is '
                'left registered; the attribute store after the run equals the one before (patched existing and absent attributes, repeated '
                'patches); every further run of the instance yields the same events and the same propagated exception as the first '
                '(force_failure is the only state surviving _reset and is read only at the forced-failure test).',
        'note': 'trusted: Lean kernel; hand-written model TTV/Model/RunTest.lean; harness/mrun.py; hypothesis wf: distinct stage ids, user '
                'handlers only for Exception subclasses, initial attribute store has distinct attribute names; "exactly once" is stated on '
                'the ghost records ran/regd of the model; MonkeyPatcher, fixtures library and CPython try/finally modelled, not verified',
        'technique': 'Lean 4 invariant proofs over an executable model of the runner: induction principle for the well-founded cleanup loop, '
                     'cleanup stack as undo log (finite-map view of the attribute store), two-run agreement relation for force_failure, '
                     'differential correspondence',
    }


PROP = C02()
