"""C05 (model M-Run, harness/mrun.py)."""
from harness.mrun import RunProp
from harness.props.c01 import C01


class C05(RunProp):
    id = 'C05'
    rule = C01.rule


PROP = C05()
