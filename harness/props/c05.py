"""C05 (model M-Run, harness/mrun.py)."""
from harness.mrun import RunProp
from harness.props.c01 import C01


class C05(RunProp):
    id = 'C05'

    def extract_tables(self, repo):
        d = dict(RunProp.extract_tables(self, repo))
        from harness.pyres2lean import emit_c05      # translator tie (DESIGN D.2a 2e): the detail-naming code
        d['TTV/Generated/DetailSrc.lean'] = emit_c05(repo)
        return d
    rule = C01.rule
    manifest = {
        'text': 'Theorems (same Lean model of TestCase.run/RunTest and same quantifier as C01: all test programs, any nesting of cleanups and '
                'fixtures, any exception kinds, decorators, handler tables, 7 result flavours, repeated runs), PARTIAL w.r.t. the known-finding '
                'class lateCollision (a plain addDetail(n) replaced an entry stored under a generated/renamed name: holds_model_partial '
                'assumes the class predicate is false, C05_finding_witness proves that the model violates the spec inside it): every name '
                'attached by plain addDetail arrives with its last value, bytes read at reporting time (also inside the class); every '
                'mismatch detail, failed-expectation marker and fixture detail (also of a fixture whose setUp failed) arrives exactly once '
                'under its name or a -k renaming with the bytes due (fixture details: as read right before the cleanUp); the tracebacks among '
                'the details are, as a multiset, exactly those of every non-exempt exception handed to the runner (MultipleExceptions '
                'constituents, forced failure) plus the assertion behind expectFailure and the failure caught by @expectedFailure; detail '
                'names are pairwise distinct; a skip reported by the own reporter carries the reason of a raised skip; every addOnException '
                'handler is called once per exception, in order, before the outcome. addDetailUniqueName, gather_details and '
                '_report_traceback are proved never to overwrite (rename loops find a free name; label loop by pigeonhole).',
        'note': 'trusted: Lean kernel; hand-written model TTV/Model/RunTest.lean (incl. the ghost flag clobbered that defines the finding '
                'class); harness/mrun.py (traceback text abstracted to exception identity, detail names split into base + numeric suffixes); '
                'hypothesis wf: distinct stage ids, user handlers only for Exception subclasses, no user-supplied detail named "reason" (the '
                'framework attaches its own by plain addDetail), content objects and failed expectations pairwise distinct (details are '
                'identified by content), initial attribute names distinct; judged on flavours that receive the details dict',
        'technique': 'Lean 4 invariant proofs over an executable model of the runner: details dict invariant with ghost accumulators carried '
                     'along every primitive, induction principle for the well-founded cleanup loop, each-stage-at-most-once via a counting '
                     'argument on the stage tree, finding class excluded by hypothesis plus a decide-checked witness, differential correspondence',
    }


PROP = C05()
