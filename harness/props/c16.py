"""C16 - Content is lossless and independent of chunking.

One scenario per input (see TTV/Model/Content.lean `Input` / TTV/Drv/C16.lean for the codecs):
  (eq ctA ctB chunksA chunksB)                      Content bytes = what the source yields; ==
  (text cps)                                         text_content round trip
  (json dumped-cps src-cps)                          json_content (json itself is an oracle)
  (decode isText cs chunks whole codec-name)         iter_text/as_text vs decoding the joined bytes
  (stream isFile data0 data1? pos0 size seek? buffer_now iters caps eqs)   content_from_stream/file on an instrumented stream;
                                                     caps = short-read plan: the k-th read of an evaluation returns at most caps[k] bytes;
                                                     after the `iters` consumptions `c == c` is evaluated `eqs` times (second part of the log);
                                                     eqs may be missing (older corpus entries) = 0
  (ctype type subtype ((name value)...))             ContentType.__repr__ -> _make_content_type
  (ctypeSeq ((type subtype params) ...))             the same for several types in one process (a type, a letter-case variant, the type again)
  (copy init ops)                                    _copy_content over a volatile source
"""
import codecs, io, itertools, json, os, tempfile
from harness.core import Prop, some

CODECS = {'absent': None, 'utf8': 'utf8', 'latin1': 'ISO-8859-1', 'ascii': 'ascii'}
OPAQUE = ['utf-16-le', 'utf-32-be', 'cp1252', 'shift_jis', 'euc_jp']
#: stdlib codecs whose INCREMENTAL decoder is known not to agree with decoding the joined bytes in one go (audit/C16 V2-V4): BOM-less
#: utf-16 / utf-32 (refused, one-shot assumes native order), utf-8-sig (a truncated BOM vanishes), punycode (every chunk decoded as a whole
#: string), undefined.  as_text() does not use an incremental decoder (it joins, then decodes once) and is checked for them like for any codec;
#: iter_text() is not observed for them.
UNLAWFUL = ['utf-16', 'utf-32', 'utf-8-sig', 'punycode', 'undefined']   # not utf-16/utf-32/utf-8-sig: CPython's incremental and one-shot decoders disagree there (BOM-less input, truncated BOM)
TOKEN = 'abcxyz019-+._!#$&^`|~{}'
LINEBREAKS = '\n\r\x0b\x0c\x1c\x1d\x1e\x85\u2028\u2029'
EXC = ('ValueError', 'OSError', 'UnicodeDecodeError')


def cps(s):
    return [ord(c) for c in s]


def txt(l):
    return ''.join(chr(c) for c in l)


def blist(chunks):
    return [list(c) for c in chunks]


def exc_name(e):
    if isinstance(e, OSError):
        return 'OSError'
    if isinstance(e, UnicodeDecodeError):
        return 'UnicodeDecodeError'
    return 'ValueError' if isinstance(e, ValueError) else type(e).__name__


class Spy:
    """instrumented binary stream (a plain object with read/seek, like a raw pipe or socket wrapper): logs every
    seek and read; `caps` is a plan of short reads - the k-th read since `restart()` returns at most caps[k] bytes
    although more may follow, as raw / unbuffered streams do"""

    def __init__(self, inner, log, caps=()):
        self.inner, self.log, self.caps, self.k = inner, log, list(caps), 0

    def restart(self):
        self.k = 0

    def read(self, n=-1):
        limit = n
        if self.k < len(self.caps):
            limit = self.caps[self.k] if n is None or n < 0 else min(n, self.caps[self.k])
        self.k += 1
        r = self.inner.read(limit)
        self.log.append(['read', n, len(r)])
        if not r:
            self.k = 0      # an empty read ends an evaluation of the reader; the plan restarts with the next one (c == c runs two in one call)
        return r

    def seek(self, off, whence=0):
        self.log.append(['seek', off, whence])
        return self.inner.seek(off, whence)

    def __enter__(self):
        return self

    def __exit__(self, *a):
        self.log.append('closed')
        self.inner.close()
        return False


class C16(Prop):
    id = 'C16'
    budgets = {'quick': 20000, 'thorough': 300000}
    time_limit = {'quick': 60, 'thorough': 600}
    rule = ('seven scenario kinds (eq/text/json/decode/stream/ctype/copy), see harness/props/c16.py. decode: valid and corrupted UTF-8 '
            '(overlong, surrogates, > U+10FFFF, truncated), Latin-1, ASCII, five opaque codecs with lawful incremental decoders and the stdlib codecs whose '
            'incremental decoders are NOT lawful (utf-16 / utf-32 without BOM, utf-8-sig with a truncated BOM, punycode, undefined: as_text only), cut at random positions incl. inside '
            'sequences and with empty chunks - and every decode observation is repeated on the same Content object after an abandoned iter_text (0..n pieces '
            'pulled, generator dropped) and after a complete/failed decode of an earlier, shorter source: the text must be a function of the bytes alone '
            '(a dependence is reported as a trace outside the model\'s vocabulary); stream: BytesIO and real files, 45 % behind a short-read plan (raw-stream '
            'behaviour: a read returns fewer bytes than asked for before EOF), chunk sizes 1..9 and around the length, offsets -n-2..n+2, '
            'whence 0/1/2, buffer_now, data replaced between construction and iteration, 1-3 consumptions and then 0-2 times `c == c` (EVERY consumption of a stream content with a seek offset must yield the bytes from the offset - it seeks again -, and such a content, a file content and a buffered one must equal themselves every time: clauses re-evaluation / eq-self, seed C16-f); ctype: token names, values over an '
            'adversarial alphabet (quotes, backslashes, separators, NUL, non-ASCII, encoded-word markers, line breaks); ctypeSeq: a content type, a variant of it '
            'that differs in letter case only (in parameter values - significant - and/or in type / subtype / parameter names - insignificant), and the type '
            'again, parsed one after the other in a freshly executed private copy of testtools.testresult.real (process state as at start-up, so cases, '
            'replays and shrinking do not depend on earlier cases), every ContentType handed out being scribbled on afterwards; charset names of the '
            'modelled codecs also in alias spellings (UTF-8, utf_8, Latin-1, us-ascii ...). thorough adds every '
            'cutting of five byte strings of <= 9 bytes and every stream configuration with <= 6 bytes. non-trivial = decode with a cut inside a '
            'multi-byte sequence or an error; stream with >= 2 chunks or a seek; ctype with a parameter whose value needs quoting; copy with a set '
            'after a copy (after every copy the harness also changes the source\'s ContentType object in place: the copies must keep theirs); text with a non-ASCII character; eq with different chunkings; distinct = distinct input S-expression')
    assumptions = ['codecs incremental decoders other than ISO-8859-1/ASCII/UTF-8 (utf-16-le, utf-32-be, cp1252, shift_jis, euc_jp) are opaque: '
                   'their whole-string result is an oracle input and the decoder law is assumed, only checked differentially',
                   'json.dumps/json.loads are an assumed inverse pair (json_content is checked to be utf8(json.dumps(data)) with type application/json)',
                   'file objects: the read/seek contract of io.BytesIO and of open(path, "rb") is modelled (TTV.Content.seek/read), not verified; raw streams are '
                   'modelled by a finite plan of per-read caps >= 1 (a read returns at least one byte while data remains), restarting with every evaluation',
                   'email.message header parsing is modelled by the quoted-string grammar parseCT for lower-case token type/subtype/parameter names; '
                   'inside finding class valueEncodedWord the model does not reproduce the RFC 2047 decoding (soft correspondence there)',
                   'the model has no object state for a Content (decoding is a pure function of the source bytes): independence of earlier uses of '
                   'the same object is checked on the real objects (reuse observations) and, for the source text, by the tie C16_src_iter_text '
                   '(a fresh incremental decoder per call)',
                   'outside the stated domain, not modelled (audit/C16 borderline list): texts with lone surrogates (text_content accepts them, '
                   'iter_bytes then raises UnicodeEncodeError; the model\'s texts are scalar values); sources yielding mutable bytearray chunks '
                   '(_copy_content keeps the chunk objects); content_from_stream without a seek offset iterated twice (nothing rewinds the stream: the '
                   'model reproduces the empty second consumption, the spec demands the bytes of the first consumption only - and for the same reason `c == c` is '
                   'legitimately False for such a content with data left, and for an offset counted from the current position (seek_whence=1): the model '
                   'reproduces both, the spec claims `c == c` only for files, buffered contents and offsets counted from the start or the end; with an offset '
                   'EVERY consumption is specified, for whence 1 relative to where the previous evaluation left the stream); Content.__eq__ with a '
                   'non-Content operand (AttributeError) and ContentType.__eq__ for subclass instances (type(other) is not ContentType)',
                   'iter_text(): for codecs other than the three modelled ones the law of the incremental decoder is ASSUMED; it is known false for the '
                   'stdlib codecs utf-16 / utf-32 (BOM-less input), utf-8-sig (truncated BOM), punycode and undefined - for those iter_text is not '
                   'observed; as_text() (join, then one decode) is checked against one-shot decoding for every codec including these',
                   'translator tie: harness/pycontent2lean.py reads Content._iter_text, content_from_reader, content_from_stream / content_from_file, _iter_chunks, ContentType.__repr__/_quote and '
                   'the charset work-around of _make_content_type as data; TTV.ContentSkel gives the data its meaning (trusted: that the interpreter '
                   'reads the recognised statement forms as Python does); unrecognised statements become .unknown']

    manifest = {
        'text': 'Theorems for all texts, byte strings, chunkings, chunk sizes >= 1, seek offsets/origins and copy histories: as_text of ANY lawful '
                'incremental decoder is independent of the chunking (Latin-1, ASCII and a UTF-8 state machine proved lawful; the machine proved equal to an '
                'RFC 3629 reference decoder that accepts exactly the encodings of scalar-value texts; the encoder proved equal to core Lean\'s '
                'String.utf8EncodeChar); text_content round-trips under every chunking; _iter_chunks yields non-empty chunks <= chunk_size that concatenate '
                'to the bytes from the clamped seek position to EOF, lazily unless buffer_now - in EVERY consumption of a file, a buffered content and a stream content with a seek offset (which seeks again each time; without an offset a consumed stream is legitimately empty the second time), such contents equal to themselves however often compared; Content equality = type and bytes; ContentType render/parse '
                'round trip for lower-case token type/subtype, any token as parameter name and arbitrary values outside four recorded finding classes (one of them: names that are not lower-case tokens without * \' %), names in any letter case coming back lower-cased '
                'and every answer independent of what was parsed before (no state in the model; sequences with case variants and scribbled-on results in the check); '
                '_copy_content copies are snapshots '
                'evaluated once. The hand-written model is tied to the code (a) by theorems C16_src_* proving that iterText, the buffer_now step, the per-evaluation reader of content_from_stream / content_from_file, the chunk '
                'loop, render/quoteValue and fixCharset ARE the interpretation of statement skeletons re-read from content.py, content_type.py and real.py on '
                'every run, (b) by a differential check on instrumented streams/files (incl. short-reading raw streams), real codecs, re-used Content objects '
                'and the real email-based parser.',
        'note': 'partial: the content-type round trip (and hence holds_model) is proved outside the finding classes charsetComma, valueCRLF, '
                'valueEncodedWord, nameNotLowerToken (inside valueEncodedWord and for names with * \' % the model is not faithful: soft correspondence). trusted: Lean kernel, the model '
                'TTV/Model/Content.lean, the harness; codecs other than ISO-8859-1/ASCII/UTF-8 are opaque (law assumed, differential only); json, the '
                'read/seek contract of BytesIO/files and the email header parser are modelled, not verified',
        'technique': 'Lean 4 proofs (structural/functional induction, omega) over an executable model; executable spec shared with a differential correspondence check',
    }

    def extract_tables(self, repo):
        """tie: _iter_text / content_from_reader / _iter_chunks / __repr__ + _quote / the charset work-around, re-read from the tree"""
        from harness import pycontent2lean
        return {'TTV/Generated/ContentSrc.lean': pycontent2lean.generate(repo)}

    # ------------------------------------------------------------------ implementation side
    def run_impl(self, inp):
        try:
            return getattr(self, 'impl_' + inp[0])(*inp[1:])
        except Exception as e:
            return ['raised', type(e).__name__]

    def _ct(self, k):
        from testtools.content_type import ContentType
        return [lambda: ContentType('text', 'plain', {'charset': 'utf8'}), lambda: ContentType('text', 'plain'),
                lambda: ContentType('application', 'octet-stream')][k % 3]()

    def impl_eq(self, cta, ctb, a, b):
        from testtools.content import Content
        a, b = [bytes(c) for c in a], [bytes(c) for c in b]
        ca = Content(self._ct(cta), lambda: a)
        cb = Content(self._ct(ctb), lambda: (c for c in b))     # a generator source
        return ['eq', blist(ca.iter_bytes()), blist(cb.iter_bytes()), bool(ca == cb)]

    def impl_text(self, s):
        from testtools.content import text_content
        from testtools.content_type import ContentType
        c = text_content(txt(s))
        chunks = list(c.iter_bytes())
        ok = c.content_type == ContentType('text', 'plain', {'charset': 'utf8'})
        try:
            at = some(cps(c.as_text()))
        except UnicodeDecodeError:
            at = None
        return ['text', blist(chunks), bool(ok), at]

    def impl_json(self, dumped, src):
        from testtools.content import json_content
        from testtools.content_type import ContentType
        data = json.loads(txt(src))
        c = json_content(data)
        chunks = list(c.iter_bytes())
        ok = c.content_type == ContentType('application', 'json')
        return ['json', blist(chunks), bool(ok), json.loads(b''.join(chunks).decode('utf8')) == data]

    def impl_decode(self, is_text, cs, chunks, whole_in, name):
        from testtools.content import Content
        from testtools.content_type import ContentType
        enc = CODECS[cs] if cs != 'opaque' and name in ('x', 'none') else name      # (an alias spelling of a modelled codec travels in `name`)
        chunks = [bytes(c) for c in chunks]
        params = {} if enc is None else {'charset': enc}
        ct = ContentType('text' if is_text else 'application', 'plain', params)

        lawful = cs != 'opaque' or name.lower().replace('_', '-') not in UNLAWFUL + ['utf16', 'u32']
        decode_errors = (UnicodeError,)      # (UnicodeDecodeError and the plain UnicodeError some codecs raise: both "cannot be decoded")

        def observe(c):
            """(as_text, its error, iter_text pieces, its error)"""
            at = aerr = pieces = err = None
            try:
                at = c.as_text()
            except decode_errors:
                aerr = 'UnicodeDecodeError'
            except ValueError:
                aerr = 'ValueError'
            if lawful:
                try:
                    ps = list(c.iter_text())
                    if at is not None and at != ''.join(ps):
                        return 'as-text-differs-from-iter-text', None, None, None
                    pieces = [''.join(ps)] if cs == 'opaque' else ps
                except decode_errors:
                    err = 'UnicodeDecodeError'
                except ValueError:
                    err = 'ValueError'
            else:
                # a codec whose incremental decoder is known not to agree with one-shot decoding (UNLAWFUL): iter_text is not
                # observed, the trace carries what as_text gave in its place
                pieces, err = (None if at is None else [at]), aerr
            return (None if at is None else cps(at)), aerr, (None if pieces is None else [cps(p) for p in pieces]), err
        first = observe(Content(ct, lambda: chunks))
        if first[0] == 'as-text-differs-from-iter-text':
            return [first[0]]
        # the text of a content is a function of its bytes: whatever was done with the same Content object before (an
        # abandoned iter_text, an earlier complete or failed decode, a source that has grown since) must not change it
        for j in range(len(chunks) + 1):
            for use in ('abandon', 'earlier-shorter-source'):
                cur = [chunks]
                c = Content(ct, lambda: cur[0])
                try:
                    if use == 'abandon':
                        it = c.iter_text()
                        for _ in range(j):
                            next(it, None)
                        del it
                    else:
                        cur[0] = chunks[:j]
                        c.as_text()
                        cur[0] = chunks
                except (UnicodeError, ValueError):
                    cur[0] = chunks
                if observe(c) != first:
                    return ['decode-depends-on-earlier-use', use, j]
        try:
            whole = some(cps(b''.join(chunks).decode(enc or 'ISO-8859-1')))
        except decode_errors:
            whole = None
        at, aerr, pieces, err = first
        return ['decode', some(at), some(aerr), some(pieces), some(err), whole]

    def impl_stream(self, is_file, data0, data1, pos0, size, seek, buffer_now, iters, caps, eqs=0):
        import testtools.content as tc
        log = []
        eqlog = []
        data0 = bytes(data0)
        data1 = None if data1 is None else bytes(data1[1])
        kw = dict(chunk_size=size, buffer_now=buffer_now)
        if seek is not None:
            kw.update(seek_offset=seek[1][0], seek_whence=seek[1][1])
        path = None
        try:
            if is_file:
                fd, path = tempfile.mkstemp(prefix='verif-c16-')
                os.write(fd, data0)
                os.close(fd)

                def spy_open(p, mode='r', *a, **k):
                    assert p == path and mode == 'rb'
                    log.append('opened')
                    return Spy(open(p, mode), log, caps)
                tc.open = spy_open      # module-level name shadows the builtin inside testtools.content only
                make = lambda: tc.content_from_file(path, **kw)
            else:
                inner = io.BytesIO(data0)
                inner.seek(pos0)
                spy = Spy(inner, log, caps)
                make = lambda: tc.content_from_stream(spy, **kw)
            try:
                c = make()
            except (ValueError, OSError) as e:
                log.append(['raised', exc_name(e)])
                return ['stream', log, eqlog]
            log.append('made')
            if data1 is not None:
                if is_file:
                    with open(path, 'wb') as f:
                        f.write(data1)
                else:
                    p = spy.inner.tell()
                    spy.inner = io.BytesIO(data1)
                    spy.inner.seek(p)
            for _ in range(iters):
                log.append('iter')
                if not is_file:
                    spy.restart()       # the plan restarts with every evaluation (a file is re-opened: a new Spy)
                it = iter(c.iter_bytes())
                while True:
                    try:
                        ch = next(it)
                    except StopIteration:
                        log.append('done')
                        break
                    except (ValueError, OSError) as e:
                        log.append(['raised', exc_name(e)])
                        break
                    log.append(['chunk', list(ch)])
            # second part of the log: `c == c`, eqs times - every comparison evaluates the content twice; the stream's own events
            # and the answers (seed C16-f: the generator object captured instead of the generator function called)
            mark = len(log)
            for _ in range(eqs):
                if not is_file:
                    spy.restart()
                try:
                    r = (c == c)
                except (ValueError, OSError) as e:
                    log.append(['raised', exc_name(e)])
                    continue
                log.append(['eqSelf', r is True] if isinstance(r, bool) else ['raised', 'eq-not-bool'])
            eqlog.extend(log[mark:])
            del log[mark:]
            return ['stream', log, eqlog]
        finally:
            if is_file:
                if 'open' in tc.__dict__:
                    del tc.open
                if path:
                    os.unlink(path)

    def impl_ctype(self, t, s, params):
        from testtools.content_type import ContentType
        from testtools.testresult.real import _make_content_type
        ct = ContentType(txt(t), txt(s), {txt(k): txt(v) for k, v in params})
        rendered = repr(ct)
        try:
            r = _make_content_type(rendered)
            parsed = ['ok', cps(r.type), cps(r.subtype), [[cps(k), cps(v)] for k, v in sorted(r.parameters.items())]]
        except ValueError:
            parsed = ['raised', 'ValueError']
        except IndexError:          # (the email parser crashes on an RFC 2231 name with a degenerate value: k*="'")
            parsed = ['raised', 'IndexError']
        return ['ctype', cps(rendered), parsed]

    _real_code = None

    def fresh_real(self):
        """a private, freshly executed copy of testtools.testresult.real: module-level state (caches, registries) is as at the start of a
        process, so that a case - and its replay, and the shrinker's candidates - does not depend on the cases that ran before it"""
        import types
        import testtools.testresult.real as real
        if C16._real_code is None:
            C16._real_code = compile(open(real.__file__).read(), real.__file__, 'exec')
        m = types.ModuleType(real.__name__)
        m.__file__, m.__package__ = real.__file__, real.__package__
        exec(C16._real_code, m.__dict__)
        return m

    def impl_ctypeSeq(self, cts):
        """several content types parsed one after the other in this process; every ContentType handed out is scribbled on afterwards
        (it belongs to the caller: a later parse must not show the scribbles, nor be answered with an earlier answer)"""
        from testtools.content_type import ContentType
        _make_content_type = self.fresh_real()._make_content_type
        out = []
        for t, s, params in cts:
            ct = ContentType(txt(t), txt(s), {txt(k): txt(v) for k, v in params})
            rendered = repr(ct)
            try:
                r = _make_content_type(rendered)
                parsed = ['ok', cps(r.type), cps(r.subtype), [[cps(k), cps(v)] for k, v in sorted(r.parameters.items())]]
                for k in list(r.parameters):
                    r.parameters[k] = r.parameters[k] + '<scribble>'
                r.parameters['verif-scribble'] = 'x'
                r.type, r.subtype = 'scribbled', 'scribbled'
            except ValueError:
                parsed = ['raised', 'ValueError']
            out.append([cps(rendered), parsed])
        return ['ctypeSeq', out]

    def impl_copy(self, init, ops):
        from testtools.content import Content
        from testtools.testcase import _copy_content
        cell = [bytes(c) for c in init]
        evals = [0]

        def src():
            evals[0] += 1
            return cell        # the very same mutable list every time
        from testtools.content_type import ContentType
        orig = Content(ContentType('text', 'x-log', {'charset': 'latin-1', 'n': '0'}), src)
        copies, types, obs = [], [], []

        def type_of(c):
            t = c.content_type
            return (t.type, t.subtype, sorted(t.parameters.items()))
        for op in ops:
            before = evals[0]
            if any(type_of(c) != t for c, t in zip(copies, types)):
                return ['copy-content-type-follows-the-source']
            if op == 'copy':
                types.append(type_of(orig))
                cp = _copy_content(orig)
                if type_of(cp) != types[-1]:
                    return ['copy-changed-content-type']
                copies.append(cp)
                obs.append([None, evals[0] - before])
                # later changes to the source include its content type: scribble on it (in place - the copy must not share it)
                orig.content_type.parameters['n'] = str(len(copies))
                orig.content_type.parameters['charset'] = 'utf8' if len(copies) % 2 else 'latin-1'
                orig.content_type.subtype = 'x-log-%d' % len(copies)
            elif op == 'readOrig':
                r = blist(orig.iter_bytes())
                obs.append([some(r), evals[0] - before])
            elif op[0] == 'set':
                cell[:] = [bytes(c) for c in op[1]]      # in-place: a copy holding a reference would see it
                obs.append([None, 0])
            else:
                k = op[1]
                if k < len(copies):
                    r = blist(copies[k].iter_bytes())
                    obs.append([some(r), evals[0] - before])
                else:
                    obs.append([None, 0])
        if any(type_of(c) != t for c, t in zip(copies, types)):
            return ['copy-content-type-follows-the-source']
        return ['copy', obs]

    # ------------------------------------------------------------------ generators
    def g_text(self, rng, maxlen=10):
        pools = ['abcxyz 09', '\xe9\xff\x80\xa0', '\x00\x7f\n', '\u20ac\u0301\u0800\uffff\ud7ff\ue000', '\U00010000\U0001F600\U0010FFFF']
        w = rng.choice([[6, 1, 1, 1, 1], [1, 2, 1, 3, 3], [1, 1, 1, 1, 1]])
        return ''.join(rng.choice(rng.choices(pools, w)[0]) for _ in range(rng.randint(0, maxlen)))

    def g_bytes(self, rng, maxlen=12):
        return [rng.randrange(256) for _ in range(rng.randint(0, maxlen))]

    def cut(self, rng, b):
        """cut a byte list into chunks: random positions, repeated positions give empty chunks"""
        n = len(b)
        k = rng.choice([0, 0, 1, 1, 2, 3, 5, n])
        pts = sorted(rng.randint(0, n) for _ in range(k))
        if rng.random() < 0.15:
            pts = list(range(1, n))          # every byte its own chunk
        if rng.random() < 0.05 and not b:
            return []
        out, p = [], 0
        for q in pts + [n]:
            out.append(b[p:q])
            p = q
        return out

    BAD_UTF8 = [[0xC0, 0x80], [0xC1, 0xBF], [0xE0, 0x80, 0x80], [0xE0, 0x9F, 0xBF], [0xED, 0xA0, 0x80], [0xED, 0xBF, 0xBF],
                [0xF0, 0x80, 0x80, 0x80], [0xF0, 0x8F, 0xBF, 0xBF], [0xF4, 0x90, 0x80, 0x80], [0xF5, 0x80, 0x80, 0x80], [0xFF], [0x80],
                [0xBF], [0xC2], [0xE2, 0x82], [0xF0, 0x9F, 0x98], [0xE2, 0x28, 0xA1], [0xF0, 0x9F, 0x41, 0x80], [0xC2, 0x41]]

    ALIASES = {'utf8': ['UTF8', 'utf-8', 'UTF-8', 'utf_8', 'U8'], 'latin1': ['latin-1', 'Latin1', 'iso8859-1', 'ISO_8859-1', 'L1'],
               'ascii': ['ASCII', 'us-ascii', 'US_ASCII', '646']}

    def gen_decode(self, rng):
        cs = rng.choice(['utf8'] * 6 + ['absent', 'latin1', 'ascii'] + ['opaque'] * 2)
        name = 'x'
        if cs == 'opaque':
            name = rng.choice(OPAQUE + UNLAWFUL + ['UTF-16', 'utf16', 'u32'] if rng.random() < 0.5 else OPAQUE)
            s = self.g_text(rng)
            try:
                # (BOM-less bytes for utf-16 / utf-32: that is where their incremental decoders differ from one-shot decoding)
                b = list(s.encode({'utf-16': 'utf-16-le', 'UTF-16': 'utf-16-le', 'utf16': 'utf-16-be', 'utf-32': 'utf-32-le', 'u32': 'utf-32-le'}.get(name, name)
                                  if rng.random() < 0.7 else name))
            except (UnicodeError, LookupError):
                b = self.g_bytes(rng)
            if name == 'utf-8-sig' and rng.random() < 0.4:
                b = [0xEF, 0xBB, 0xBF][:rng.randint(1, 3)] + (b if rng.random() < 0.3 else [])
            if name == 'undefined' and rng.random() < 0.5:
                b = []
            if rng.random() < 0.3:
                b = self.mutate(rng, b)
        elif cs == 'utf8':
            b = list(self.g_text(rng).encode('utf8'))
            r = rng.random()
            if r < 0.25:
                i = rng.randint(0, len(b))
                b = b[:i] + rng.choice(self.BAD_UTF8) + b[i:]
            elif r < 0.4:
                b = self.mutate(rng, b)
        elif cs == 'ascii':
            b = [rng.randrange(128 if rng.random() < 0.8 else 256) for _ in range(rng.randint(0, 8))]
        else:
            b = self.g_bytes(rng)
        if cs in self.ALIASES and rng.random() < 0.4:
            name = rng.choice(self.ALIASES[cs])       # the codec registry is case- and punctuation-insensitive: same decoder
        enc = CODECS[cs] if cs != 'opaque' else name
        whole = None
        if cs == 'opaque':
            try:
                whole = some(cps(bytes(b).decode(enc)))
            except UnicodeError:
                whole = None
        return ['decode', rng.random() < 0.95, cs, self.cut(rng, b), whole, name]

    def mutate(self, rng, b):
        b = list(b)
        if not b:
            return [rng.randrange(256)]
        r = rng.random()
        i = rng.randrange(len(b))
        if r < 0.4:
            b[i] = rng.randrange(256)
        elif r < 0.7:
            del b[i]
        else:
            b = b[:i + 1]
        return b

    def gen_stream(self, rng):
        n = rng.choice([0, 1, 2, 3, 4, 5, 6, 8, 9, 10, 12, 16])
        data0 = [rng.randrange(256) for _ in range(n)]
        size = rng.choice([1, 2, 3, 4, 5, 7, 9, max(1, n - 1), max(1, n), n + 1, 2 * n + 1, 4096])
        is_file = rng.random() < 0.4
        seek = None
        if rng.random() < 0.7:
            wh = rng.choice([0, 0, 2, 2, 1])
            off = rng.randint(-n - 2, n + 2)
            if wh == 0 and rng.random() < 0.8:
                off = abs(off)
            if wh == 2 and rng.random() < 0.7:
                off = -abs(off)
            seek = some([off, wh])
        data1 = None
        if rng.random() < 0.35:
            data1 = some([rng.randrange(256) for _ in range(rng.choice([n, n, max(0, n - 2), n + 3]))])
        pos0 = 0 if is_file or rng.random() < 0.6 else rng.randint(0, n + 1)
        caps = []
        if rng.random() < 0.45:       # a raw stream: short reads before end of file
            caps = [rng.choice([1, 1, 2, 3, max(1, size - 1), size, size + 1]) for _ in range(rng.choice([1, 1, 2, 3, 5]))]
        return ['stream', is_file, data0, data1, pos0, size, seek, rng.random() < 0.4, rng.choice([1, 1, 2, 3]), caps, rng.choice([0, 0, 1, 2])]

    VALUE_ALPHA = ['a', 'b', 'Z', '0', ' ', '\t', '"', '\\', ';', ',', '=', '/', '?', '*', "'", '%', 'é', '\x00', '(', ')', '<', '>', '@', ':',
                   '[', ']', '\x7f', '\x80', '€', '\U0001F600', '.', '-', '_']

    def g_token(self, rng):
        return ''.join(rng.choice(TOKEN) for _ in range(rng.randint(1, 5)))

    def gen_ctype(self, rng):
        params = {}
        for _ in range(rng.choice([0, 1, 1, 2, 2, 3, 4])):
            name = rng.choice([self.g_token(rng)] * 4 + ['charset', 'k', 'k-', 'k0', 'ka'])
            if rng.random() < 0.12:      # names outside the lower-case tokens the parser hands back unchanged (finding nameNotLowerToken)
                name = rng.choice(['K', 'Charset', 'Name', 'kA', 'a*', 'k*1', 'k*0', 'a*b', 'a%b', 'k%41', "k'", "a'b", 'X-y', name.upper(), name + '*'])
            if name.lower() in {n.lower() for n in params} and name not in params:
                continue                 # (two names that differ in case only: kept out, the parser merges them)
            r = rng.random()
            if r < 0.08:
                v = ''.join(rng.choice('ab' + LINEBREAKS) for _ in range(rng.randint(1, 4)))
            elif r < 0.14:
                v = rng.choice(['=?utf-8?q?abc?=', 'x =?utf-8?b?YWJj?= y', '=?', 'a=?b', '=?utf-8?q?a', '?=', '=?iso-8859-1?q?=E9?='])
            elif r < 0.3:
                v = rng.choice(['utf8', 'utf-8', 'a,b', ',', 'x,', 'UTF8', 'iso-8859-1', '', ' '])
            else:
                v = ''.join(rng.choice(self.VALUE_ALPHA) for _ in range(rng.choice([0, 1, 1, 2, 3, 4, 6])))
            params[name] = v
        return ['ctype', cps(self.g_token(rng)), cps(self.g_token(rng)), [[cps(k), cps(v)] for k, v in params.items()]]

    SEQ_VALUES = ['server.log', 'Server.LOG', 'a b', 'UTF8', 'utf8', 'x', 'Z', 'Ab"c', 'q\\Q', 'é', 'É', '', '0', 'mixedCase;=x']

    def case_variant(self, rng, ct):
        """a content type that differs from `ct` in letter case only: in parameter VALUES (significant) and/or in type / subtype /
        parameter names (insignificant)"""
        f = rng.choice([str.upper, str.lower, str.swapcase, str.title])
        g = rng.choice([str.upper, str.title, str.swapcase, lambda x: x])
        where = rng.choice(['values', 'values', 'names', 'both'])
        t, s, params = ct
        vals = lambda v: f(v) if where in ('values', 'both') else v
        names = lambda n: g(n) if where in ('names', 'both') else n
        return [cps(names(txt(t))), cps(names(txt(s))), [[cps(names(txt(k))), cps(vals(txt(v)))] for k, v in params]]

    def gen_ctypeSeq(self, rng):
        """a content type (lower-case names, outside the finding classes), a case variant of it, and the type again"""
        names = []
        while len(names) < rng.choice([1, 1, 2, 3]):
            n = rng.choice([self.g_token(rng), 'name', 'charset', 'k'])
            if n not in names:
                names.append(n)
        ct = [cps(self.g_token(rng)), cps(self.g_token(rng)),
              [[cps(n), cps(rng.choice(self.SEQ_VALUES) if rng.random() < 0.8 else ''.join(rng.choice('abZ09 ;=/.é') for _ in range(rng.randint(1, 5))))] for n in names]]
        seq = [ct, self.case_variant(rng, ct), ct]
        r = rng.random()
        if r < 0.25:
            seq = [self.case_variant(rng, ct)] + seq
        elif r < 0.4:
            seq.append(self.case_variant(rng, ct))
        return ['ctypeSeq', seq]

    def g_chunks(self, rng):
        return self.cut(rng, [rng.randrange(256) for _ in range(rng.randint(0, 6))])

    def gen_copy(self, rng):
        ops, ncopies = [], 0
        for _ in range(rng.randint(1, 8)):
            r = rng.random()
            if r < 0.3:
                ops.append(['set', self.g_chunks(rng)])
            elif r < 0.55:
                ops.append('copy')
                ncopies += 1
            elif r < 0.7:
                ops.append('readOrig')
            else:
                ops.append(['readCopy', rng.randint(0, max(0, ncopies - 1)) if rng.random() < 0.9 else ncopies + 1])
        return ['copy', self.g_chunks(rng), ops]

    def g_json(self, rng, depth=2):
        r = rng.random()
        if depth == 0 or r < 0.5:
            return rng.choice([None, True, False, 0, -3, 12345678901234567890, 1.5, -0.25, 1e100, self.g_text(rng, 5), self.g_text(rng, 5), ''])
        if r < 0.75:
            return [self.g_json(rng, depth - 1) for _ in range(rng.randint(0, 3))]
        return {self.g_text(rng, 3): self.g_json(rng, depth - 1) for _ in range(rng.randint(0, 3))}

    def gen_json(self, rng):
        data = self.g_json(rng)
        src = json.dumps(data, ensure_ascii=rng.random() < 0.5, indent=rng.choice([None, 1]))
        return ['json', cps(json.dumps(json.loads(src))), cps(src)]

    def gen_eq(self, rng):
        a = [rng.randrange(256) for _ in range(rng.randint(0, 8))]
        r = rng.random()
        b = a if r < 0.6 else self.mutate(rng, a) if r < 0.8 else [rng.randrange(256) for _ in range(rng.randint(0, 8))]
        cta = rng.randrange(3)
        return ['eq', cta, cta if rng.random() < 0.7 else rng.randrange(3), self.cut(rng, a), self.cut(rng, b)]

    def gen(self, rng, tier):
        k = rng.choices(['decode', 'stream', 'ctype', 'ctypeSeq', 'copy', 'text', 'json', 'eq'], [30, 24, 15, 8, 7, 6, 4, 6])[0]
        if k == 'text':
            return ['text', cps(self.g_text(rng, 14))]
        return getattr(self, 'gen_' + k)(rng)

    # ------------------------------------------------------------------ bounded exhaustive (thorough)
    def compositions(self, b, empties):
        n = len(b)
        for mask in range(1 << max(0, n - 1)):
            out, cur = [], [b[0]] if n else []
            for i in range(1, n):
                if mask >> (i - 1) & 1:
                    out.append(cur)
                    cur = []
                cur.append(b[i])
            out.append(cur)
            yield out
            if empties and mask % 5 == 0:
                yield [[]] + out + [[]]
                yield [x for c in out for x in (c, [])]

    def enumerate(self, tier):
        samples = [('utf8', 'a€😀'.encode('utf8')), ('utf8', 'é́\x00\U0010ffffz'.encode('utf8')), ('utf8', bytes([0x61, 0xE2, 0x82, 0xF0, 0x9F, 0x98, 0x80, 0x62])),
                   ('utf8', bytes([0xF0, 0x9F, 0x98, 0x80, 0xED, 0xA0, 0x80])), ('latin1', bytes([0, 0x7f, 0x80, 0xe9, 0xff, 0x41])),
                   ('absent', bytes([0xe9, 0xc3, 0xa9])), ('ascii', b'ab\x80c')]
        for cs, b in samples:
            for chunks in self.compositions(list(b), True):
                yield ['decode', True, cs, chunks, None, 'x']
        for name, s in [('utf-16-le', 'a€😀'), ('shift_jis', 'aあb')]:
            b = list(s.encode(name))
            for chunks in self.compositions(b, False):
                yield ['decode', True, 'opaque', chunks, some(cps(s)), name]
        # the codecs whose incremental decoders are not lawful (as_text must not care)
        for name, b in [('punycode', b'a-'), ('punycode', 'b\u00fccher'.encode('punycode')), ('utf-16', 'hi\U0001f600'.encode('utf-16-le')),
                        ('utf-32', 'a\u20ac'.encode('utf-32-le')), ('utf-8-sig', b'\xef\xbb'), ('utf-8-sig', b'\xef\xbb\xbfa\xc3\xa9'), ('undefined', b'')]:
            try:
                whole = some(cps(b.decode(name)))
            except UnicodeError:
                whole = None
            for chunks in self.compositions(list(b), True):
                yield ['decode', True, 'opaque', chunks, whole, name]
        for n in range(0, 7):
            data = list(range(65, 65 + n))
            for size in range(1, 8):
                for wh in (0, 1, 2):
                    for off in [None] + list(range(-n - 1, n + 2)):
                        if off is None and wh:
                            continue
                        for bn in (False, True):
                            for is_file in (False, True):
                                seek = None if off is None else some([off, wh])
                                # a lazy stream content with an offset: consumed twice and compared with itself (seed C16-f)
                                again = not is_file and not bn and seek is not None
                                yield ['stream', is_file, data, None, 0, size, seek, bn, 2 if again else 1, [], 1 if again or size == 2 else 0]
                                if n and not is_file and wh == 1:
                                    yield ['stream', False, data, some(data[::-1]), n // 2, size, seek, bn, 2, [], 1]
                                if size > 1 and n > 1 and wh == 0:
                                    for caps in ([1], [size - 1], [size, 1], [2, 1, size]):
                                        yield ['stream', is_file, data, None, 0, size, seek, bn, 1 if is_file else 2, caps, len(caps) - 1]

    # ------------------------------------------------------------------ evidence
    def nontrivial(self, inp, trace):
        k = inp[0]
        if k == 'decode':
            return len(inp[3]) >= 2 and (trace[1] is None or any(0 < len(c) and c[-1] >= 0xC0 or len(c) > 1 and c[-2] >= 0xE0 for c in inp[3][:-1]))
        if k == 'stream':
            return inp[6] is not None or sum(1 for e in trace[1] if isinstance(e, list) and e[0] == 'chunk') >= 2
        if k == 'ctype':
            return any(any(c in (34, 92, 59, 44, 32, 61) or c > 126 for c in v) for _, v in inp[3])
        if k == 'ctypeSeq':
            return len({str(c) for c in inp[1]}) >= 2
        if k == 'copy':
            seen = False
            for op in inp[2]:
                if op == 'copy':
                    seen = True
                elif seen and isinstance(op, list) and op[0] == 'set':
                    return True
            return False
        if k == 'text':
            return any(c > 127 for c in inp[1])
        if k == 'eq':
            return inp[3] != inp[4]
        return True

    def features(self, inp, trace):
        k = inp[0]
        f = ['kind:' + k]
        if isinstance(trace, list) and trace and trace[0] == 'raised':
            f.append('harness-raised:' + str(trace[1]))
            return f
        if k == 'decode':
            f.append('decode:cs=' + (inp[2] if inp[2] != 'opaque' else 'opaque:' + inp[5]))
            if inp[2] == 'opaque' and inp[5].lower().replace('_', '-') in UNLAWFUL + ['utf16', 'u32']:
                f.append('decode:incremental-decoder-not-lawful')
            if inp[2] != 'opaque' and inp[5] not in ('x', 'none'):
                f.append('decode:charset-alias-spelling')
            n = len(inp[3])
            f.append('decode:chunks=' + (str(n) if n < 4 else '4+'))
            f.append('decode:' + ('error' if trace[1] is None else 'ok'))
            if any(len(c) == 0 for c in inp[3]):
                f.append('decode:empty-chunk')
            if inp[2] == 'utf8' and any(len(c) and c[-1] >= 0xC0 or len(c) > 1 and c[-2] >= 0xE0 or len(c) > 2 and c[-3] >= 0xF0 for c in inp[3][:-1]):
                f.append('decode:cut-inside-sequence')
            if not inp[1]:
                f.append('decode:non-text-type')
            f.append('decode:reuse-observations=%s' % (2 * (n + 1) if n < 4 else '10+'))
        elif k == 'stream':
            _, is_file, d0, d1, pos0, size, seek, bn, iters, caps, eqs = (inp + [0])[:11]
            n = len(d0)
            f += ['stream:' + ('file' if is_file else 'bytesio'), 'stream:buffer_now=%s' % bn, 'stream:iters=%d' % iters, 'stream:eqs=%d' % eqs,
                  'stream:size' + ('<len' if size < n else '=len' if size == n else '>len'),
                  'stream:len%%size=%s' % ('0' if n and n % size == 0 else 'other')]
            if seek is None:
                f.append('stream:no-seek')
            else:
                off, wh = seek[1]
                base = [0, pos0, n][wh]
                tgt = base + off
                f.append('stream:whence=%d' % wh)
                f.append('stream:target' + ('<0' if tgt < 0 else '=0' if tgt == 0 else '<eof' if tgt < n else '=eof' if tgt == n else '>eof'))
            if d1 is not None:
                f.append('stream:data-replaced')
            f.append('stream:short-read-plan=%s' % (len(caps) if len(caps) < 3 else '3+'))
            reads = [e for e in trace[1] if isinstance(e, list) and e[0] == 'read']
            if any(0 < e[2] < e[1] and j + 1 < len(reads) and reads[j + 1][2] > 0 for j, e in enumerate(reads)):
                f.append('stream:short-read-before-eof')
            if any(isinstance(e, list) and e[0] == 'raised' for e in trace[1]):
                f.append('stream:seek-raised')
            nch = sum(1 for e in trace[1] if isinstance(e, list) and e[0] == 'chunk')
            f.append('stream:chunks=' + (str(nch) if nch < 4 else '4+'))
            if not is_file and not bn and seek is not None and iters >= 2 and not any(isinstance(e, list) and e[0] == 'raised' for e in trace[1]):
                f.append('stream:re-evaluated-with-offset:whence=%d' % seek[1][1])
            for e in trace[2]:
                if isinstance(e, list) and e[0] == 'eqSelf':
                    f.append('stream:eq-self=%s' % e[1])
        elif k == 'ctype':
            f.append('ctype:params=%d' % len(inp[3]))
            vals = [txt(v) for _, v in inp[3]]
            if any('"' in v or '\\' in v for v in vals):
                f.append('ctype:needs-escape')
            if any(any(c in LINEBREAKS for c in v) for v in vals):
                f.append('ctype:linebreak')
            if any('=?' in v for v in vals):
                f.append('ctype:encoded-word-start')
            if any(txt(k2) == 'charset' and ',' in txt(v) for k2, v in inp[3]):
                f.append('ctype:charset-comma')
            if any(any(c in "*%'" or c.isupper() for c in txt(k2)) for k2, _ in inp[3]):
                f.append('ctype:name-not-lower-token')
            if any(ord(c) > 126 or ord(c) < 32 for v in vals for c in v):
                f.append('ctype:non-printable-or-non-ascii')
            f.append('ctype:parsed=' + (trace[2][0] if isinstance(trace[2], list) else str(trace[2])))
        elif k == 'ctypeSeq':
            f.append('ctypeSeq:len=%d' % len(inp[1]))
            a = inp[1]
            for x, y in zip(a, a[1:]):
                if x != y:
                    if [v for _, v in x[2]] != [v for _, v in y[2]]:
                        f.append('ctypeSeq:value-case-variant')
                    if x[0] != y[0] or x[1] != y[1] or [k2 for k2, _ in x[2]] != [k2 for k2, _ in y[2]]:
                        f.append('ctypeSeq:name-case-variant')
            if any(a[i] == a[j] for i in range(len(a)) for j in range(i + 1, len(a))):
                f.append('ctypeSeq:same-type-again')
        elif k == 'copy':
            f.append('copy:ops=%d' % len(inp[2]))
        return f

    def shrink(self, inp):
        k = inp[0]
        if k == 'decode':
            chunks = inp[3]
            for i in range(len(chunks)):
                if inp[2] != 'opaque':
                    yield inp[:3] + [chunks[:i] + chunks[i + 1:]] + inp[4:]
                if i + 1 < len(chunks):
                    yield inp[:3] + [chunks[:i] + [chunks[i] + chunks[i + 1]] + chunks[i + 2:]] + inp[4:]
        elif k == 'stream':
            _, is_file, d0, d1, pos0, size, seek, bn, iters, caps, eqs = (inp + [0])[:11]
            mk = lambda **kw: ['stream'] + [kw.get(n, v) for n, v in (('is_file', is_file), ('d0', d0), ('d1', d1), ('pos0', pos0), ('size', size),
                                                                       ('seek', seek), ('bn', bn), ('iters', iters), ('caps', caps), ('eqs', eqs))]
            if eqs:
                yield mk(eqs=eqs - 1)
            if iters > 1 or iters and eqs:
                yield mk(iters=iters - 1)
            if d1 is not None:
                yield mk(d1=None)
            if d0:
                yield mk(d0=d0[:-1], pos0=min(pos0, len(d0) - 1))
            if pos0:
                yield mk(pos0=0)
            if seek is not None:
                yield mk(seek=None)
                off, wh = seek[1]
                if off:
                    yield mk(seek=some([off - 1 if off > 0 else off + 1, wh]))
            for j in range(len(caps)):
                yield mk(caps=caps[:j] + caps[j + 1:])
            if is_file:
                yield mk(is_file=False)
            if size > 2:
                yield mk(size=size - 1)
        elif k == 'ctype':
            ps = inp[3]
            for i in range(len(ps)):
                yield inp[:3] + [ps[:i] + ps[i + 1:]]
                v = ps[i][1]
                for j in range(len(v)):
                    yield inp[:3] + [ps[:i] + [[ps[i][0], v[:j] + v[j + 1:]]] + ps[i + 1:]]
        elif k == 'ctypeSeq':
            a = inp[1]
            for i in range(len(a)):
                if len(a) > 1:
                    yield [k, a[:i] + a[i + 1:]]
                for j in range(len(a[i][2])):
                    yield [k, [[c[0], c[1], c[2][:j] + c[2][j + 1:]] if len(c[2]) > j else c for c in a]]
        elif k == 'copy':
            ops = inp[2]
            for i in range(len(ops)):
                yield [k, inp[1], ops[:i] + ops[i + 1:]]
        elif k == 'text':
            for i in range(len(inp[1])):
                yield [k, inp[1][:i] + inp[1][i + 1:]]
        elif k == 'eq':
            for j in (3, 4):
                for i in range(len(inp[j])):
                    yield inp[:j] + [inp[j][:i] + inp[j][i + 1:]] + inp[j + 1:]


PROP = C16()
