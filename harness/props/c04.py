"""C04 - run verdict and stop control are consistent with the outcomes reported.
Input : [shape, history, prog]     prog = none | [some [failfast-flag, [kind ...]]]  (a module of real test cases run by testtools.run)
Trace : [ff0, leafFF, obs, texts, exit]   obs = per call [wasSuccessful, shouldStop, failfast|none, [leaf shouldStop ...], [leaf failfast ...]] of the object
        reported to; texts = parsed output of every TextTestResult leaf; exit = [status, parsed output] of testtools.run
(formats: harness/props/res_common.py, lean/TTV/Drv/Res.lean, lean/TTV/Drv/C04.lean)
"""
import io, re, sys, types, unittest
from harness.core import Prop, some
from harness.props import res_common as R

BAD = ('error', 'failure', 'uxsuccess')
EXITS = ['exit0', 'exitNone', 'exit3']
SEP1, SEP2 = '=' * 70, '-' * 70
LABEL = {'ERROR': 0, 'FAIL': 1, 'UNEXPECTED SUCCESS': 2}


def parse_text(text):
    """TextTestResult output -> [running | [sect label test] | [ran n] | ok | [failed k]]"""
    out = []
    lines = text.split('\n')
    i = 0
    while i < len(lines):
        l = lines[i]
        m = re.match(r'^(ERROR|FAIL|UNEXPECTED SUCCESS): (?:t(\d+))?$', lines[i + 1]) if l == SEP1 and i + 2 < len(lines) else None
        if l == 'Tests running...':
            out.append('running')
        elif m and lines[i + 2] == SEP2:
            out.append(['sect', LABEL[m.group(1)], R.EMPTY_ID if m.group(2) is None else int(m.group(2))])
            i += 2
        elif re.match(r'^Ran (\d+) tests? in \d+\.\d{3}s$', l):
            n = int(l.split()[1])
            out.append(['ran', n] if (n == 1) == (' test ' in l) else 'bad-plural')
        elif l == 'OK':
            out.append('ok')
        elif re.match(r'^FAILED \(failures=(\d+)\)$', l):
            out.append(['failed', int(l[17:-1])])
        i += 1
    return out


_CASES = {}


def case_class():
    if 'C' not in _CASES:
        import testtools

        class Case(testtools.TestCase):
            kind = 'success'
            num = 0

            def id(self):
                return 't%04d' % self.num

            def test_success(self):
                pass

            def test_error(self):
                raise R.HarnessError('boom')

            def test_failure(self):
                self.fail('no')

            def test_skip(self):
                self.skipTest('why')

            @unittest.expectedFailure
            def test_xfail(self):
                self.fail('expected')

            @unittest.expectedFailure
            def test_uxsuccess(self):
                pass

            # code under test that ends the interpreter (argparse --help / --version do this)
            def test_exit0(self):
                sys.exit(0)

            def test_exitNone(self):
                sys.exit()

            def test_exit3(self):
                sys.exit(3)
        _CASES['C'] = Case
    return _CASES['C']


class C04(Prop):
    id = 'C04'
    budgets = {'quick': 4000, 'thorough': 40000}
    time_limit = {'quick': 60, 'thorough': 900}
    rule = ('random adapter graphs (depth 1-4) of ExtendedToOriginalDecorator / TestResultDecorator / Tagger / ThreadsafeForwardingResult / '
            'MultiTestResult / ExtendedToStreamDecorator(+StreamFailFast) over genuine testtools.TestResult / TextTestResult leaves with failfast '
            'set or not on each leaf before wrapping; in 35% of the graphs also recording results of the 2.6 / 2.7 / Twisted flavours behind an '
            'ExtendedToOriginalDecorator, half of the 2.6 / Twisted ones with a failfast attribute assigned on them before or after the objects '
            'above were built; 12% of the graphs use ExtendedToStreamDecorator(StreamFailFast(callback)) leaves (the stream target is itself a StreamFailFast, its '
            'callback counted); falsy-but-legal values: test 7 has the empty id, a third of the skip reasons are empty; 8% of the cases: failfast assigned on a ThreadsafeForwardingResult (or a TestResultDecorator / Tagger over it) that is '
            'reported to directly, over a 2.7 / Twisted style or stream target, the first bad outcome mostly an unexpected success; histories of 0-6 tests x 1-2 runs, outcomes as exc_info / details / plain, failfast assigned '
            'on the outer object and stop() at random positions, 10% damaged histories; 30% of the cases also run testtools.run (TestProgram, in '
            'process) on a module of 0-6 real TestCases with chosen outcomes, with and without -f. thorough adds every history of <= 2 tests '
            '(6 outcomes) x {failfast before, after, never} x stop position over 12 graphs. non-trivial = an adapter above a leaf and a failing '
            'outcome; distinct = distinct input')
    assumptions = ['TextTestResult output is parsed into (banner, sections, count, verdict), not compared character by character; times are ignored',
                   'exit status: TestProgram is run in-process with stdout captured (SystemExit caught); unittest loader / argument parsing modelled, not verified',
                   'ExtendedToStreamDecorator / TextTestResult are only used after startTestRun (outside: AttributeError)',
                   'recording results of the old flavours are the harness\'s own classes (2.6: stop/shouldStop, no failfast; 2.7: failfast and acts on it; '
                   'Twisted: neither); failfast on a 2.6 / Twisted style result is a plain instance attribute assigned by the harness on that object, '
                   'either at once or after the whole graph is built (never in the middle of a history); such results only occur behind an '
                   'ExtendedToOriginalDecorator; per-result clauses (leaf-*, stop-reaches), verdict, summary and not-earlier are stated for graphs '
                   'over testtools\' own results only; not-earlier also where shouldStop is the ExtendedToOriginalDecorator\'s own flag (Twisted-style targets), '
                   'but not over 2.6 / 2.7 style results, which own their shouldStop and are never told that a new run begins; the history assigns failfast only on '
                   'the outer object',
                   'a test whose code calls sys.exit(code), code in {0, None, 3}, is part of the exit-status scenario (SystemExit propagates through TestCase.run '
                   'and the suite by design; the status observed is that of the SystemExit caught around the in-process TestProgram, None counting as 0 as '
                   'the interpreter does); sub-tests (addSubTest), suites whose run() returns None and messages with lone surrogates are outside the alphabets '
                   'of the exit-status / summary model',
                   'suites stop dispatching: modelled as "no further test after shouldStop" and checked through testtools.run -f on real TestCases']

    manifest = {
        'text': 'Theorems for all graphs (any depth / fan-out) of ExtendedToOriginalDecorator, TestResultDecorator, Tagger, '
                'ThreadsafeForwardingResult, MultiTestResult over TestResult / TextTestResult leaves and all call histories: wasSuccessful() '
                'is false exactly when an error, failure or unexpected success was reported since the last startTestRun; every '
                'TextTestResult writes banner, one section per problem, the number of tests started and OK / FAILED(k) in agreement with it; '
                'failfast read through any stack is what was set on the result(s) it reads through to - before or after wrapping, also as an attribute assigned on a 2.6 / Twisted style result behind its ExtendedToOriginalDecorator; with failfast reading true (also on a TestResultDecorator / Tagger reported to directly, on a directly used ThreadsafeForwardingResult, D15, and over old-flavour results: then shouldStop is the adapter\'s reading, its own flag if the result has none) the first bad outcome sets shouldStop, which then stays set until startTestRun, and (own results, stream pipelines included: StreamFailFast calls the decorator\'s stop for error / failure / unexpected success only) is never set earlier (only after stop() or a bad outcome with failfast set somewhere); a StreamFailFast handed to the stream decorator as its target calls its own callback once per bad outcome and has no part in the decorator\'s failfast; stop() on any node sets its shouldStop (every graph, also the stream decorator\'s own) and reaches every result below it; wrapping - and every startTestRun on any wrapper - leaves the failfast of every result alone (D14), and each result by itself '
                'stops exactly by its own setting or by a fail-fast ExtendedToOriginalDecorator above it; exit '
                'status and summary of testtools.run for a module of test cases with and without -f.  The hand-written model is tied to '
                'the code by a differential check (random + bounded-exhaustive graphs x histories, TestProgram run in process).',
        'note': 'partial: the text-summary theorem excludes TextTestResult behind ThreadsafeForwardingResult; for graphs with a stream pipeline '
                '(ExtendedToStreamDecorator + StreamFailFast) the fail-fast / stop clauses (failfast-kept, failfast-read, failfast-stops, '
                'stop-sets, stop-sticky, not-earlier) are proved, while verdict, summary and the per-result clauses are stated for graphs '
                'without one (StreamSummary.wasSuccessful does not count unexpected successes and learns of unfinished tests only at '
                'stopTestRun; stop() on the stream decorator does not go on to the results behind it); '
                'TextTestResult output is parsed, not modelled character by character; trusted: Lean kernel, model, harness',
        'technique': 'Lean 4 proofs by induction on the adapter tree (generic leaf-action theorem, frame lemma for failfast) and on the call '
                     'history; executable spec shared with a differential correspondence check',
    }

    def extract_tables(self, repo):
        # translator tie (DESIGN D.2a 2e): verdict / stop-control code as tables and canonical skeletons
        from harness.pyres2lean import emit_c04
        return {'TTV/Generated/ResCtlSrc.lean': emit_c04(repo)}

    # ----- implementation side
    def observe(self, g):
        ff = getattr(g.root, 'failfast', None)
        return [bool(g.root.wasSuccessful()), bool(g.root.shouldStop), None if ff is None else some(bool(ff)),
                [bool(getattr(l, 'shouldStop', False)) for l in g.leaves], [bool(getattr(l, 'failfast', False)) for l in g.leaves],
                [c[0] for c in g.cbs]]

    def run_prog(self, ff, kinds):
        from testtools.run import TestProgram
        Case = case_class()
        tests = []
        for i, k in enumerate(kinds):
            t = Case('test_' + k)
            t.num = i
            tests.append(t)
        mod = types.ModuleType('verif_c04_mod')
        mod.test_suite = lambda: unittest.TestSuite(tests)
        sys.modules['verif_c04_mod'] = mod
        out = io.StringIO()
        try:
            TestProgram(argv=['prog'] + (['-f'] if ff else []) + ['verif_c04_mod.test_suite'], stdout=out)
            code = 'no-exit'
        except SystemExit as e:
            # (the status the interpreter ends with for this SystemExit: None counts as 0)
            code = 0 if e.code is None else int(e.code) if isinstance(e.code, (bool, int)) else 'exit-' + type(e.code).__name__
        return [code, parse_text(out.getvalue())]

    def run_impl(self, inp):
        shape, hist, prog = inp
        try:
            g = R.Graph(shape, genuine=True)
            ff0 = getattr(g.root, 'failfast', None)
            leaf_ff = [bool(getattr(l, 'failfast', False)) for l in g.leaves]
            obs = []
            for c in hist:
                g.apply(c)
                obs.append(self.observe(g))
            texts = [parse_text(l.stream.getvalue()) for l in g.leaves if hasattr(l, 'stream')]
            ex = None if prog is None else some(self.run_prog(prog[1][0], prog[1][1]))
            return [None if ff0 is None else some(bool(ff0)), leaf_ff, obs, texts, ex]
        except Exception as e:
            return ['raised', type(e).__name__]

    # ----- generators
    def gen_hist(self, rng, shape, kinds):
        can_ff = rng.random() < (0.3 if any(k.startswith('fsink') for k in kinds) else 0.5)     # half of the histories never assign failfast
        h = []

        def noise(p):
            while rng.random() < p:
                r = rng.random()
                if r < 0.35 and can_ff:
                    h.append(['setFailfast', rng.random() < 0.7])
                elif r < 0.6:
                    h.append(['stop'])
                elif r < 0.8:
                    h.append(R.gen_tags_call(rng))
                elif R.can_done(shape):
                    h.append(['done'])
        tid = 0
        need_run = 'text' in kinds or 'e2s' in kinds or 'sff' in kinds
        if not need_run:
            noise(0.25)
        for run in range(rng.choice([1, 1, 2])):
            if need_run or rng.random() < 0.8:
                h.append(['startTestRun'])
            noise(0.3)
            for _ in range(rng.choice([0, 1, 2, 2, 3, 4, 6])):
                tid += 1
                kind = rng.choice(R.KINDS + ['success', 'skip'])
                arg = rng.choice([None, ['details', []]]) if kind in ('success', 'uxsuccess') else \
                    rng.choice([['reason', [114]], ['reason', []], ['details', []]]) if kind == 'skip' else rng.choice([['exc', 'real'], ['details', []]])
                h.append(['startTest', tid])
                noise(0.08)
                h.append(['add', kind, tid, arg])
                noise(0.08)
                h.append(['stopTest', tid])
                noise(0.2)
            if rng.random() < 0.85:
                h.append(['stopTestRun'])
                noise(0.15)
        if not need_run and h and rng.random() < 0.1:
            i = rng.randrange(len(h))
            if rng.random() < 0.5:
                del h[i]
            else:
                h.insert(i, h[i])
        return h

    def gen(self, rng, tier):
        inner = ('etod', 'deco', 'tagger', 'tfr', 'tfr', 'multi', 'multi', 'multi', 'e2s')
        leaves = ('tt', 'tt', 'text')
        d = rng.choice([0, 1, 1, 2, 2, 2, 3, 3])
        r = rng.random()
        if r < 0.35:
            leaves = ('tt', 'tt', 'text', 'old', 'old')       # results of the old flavours behind their adapters
        elif r < 0.47:
            leaves = ('tt', 'sff', 'sff', 'text')             # a StreamFailFast as the stream target of an ExtendedToStreamDecorator
        shape = R.gen_shape(rng, d, leaves=leaves, inner=inner, ff=rng.random() < 0.7, fattr=0.6)
        if rng.random() < 0.15:
            # a multiplexer over results with different failfast settings, the failfast one usually not first
            def leaf(ff):
                l = [rng.choice(['tt', 'tt', 'text']), ff]
                return rng.choice([l, l, ['tfr', ['etod', l]], ['deco', l], ['multi', ['etod', l]]])
            flags = [rng.random() < 0.25] + [rng.random() < 0.6 for _ in range(rng.choice([1, 1, 2]))]
            shape = ['multi'] + [['etod', leaf(f)] for f in flags]
            if rng.random() < 0.4:
                shape = [rng.choice(['etod', 'deco']), shape] if rng.random() < 0.7 else ['multi', ['etod', shape], ['etod', ['tt', False]]]
        if rng.random() < 0.08:
            return [*self.gen_own_failfast(rng), None]
        kinds = R.kinds_in(shape)
        prog = None
        if rng.random() < 0.3:
            ks = [rng.choice(R.KINDS + ['success', 'success']) for _ in range(rng.choice([0, 1, 2, 3, 4, 6]))]
            if ks and rng.random() < 0.15:
                ks[rng.randrange(len(ks))] = rng.choice(EXITS)      # a test whose code calls sys.exit
            prog = some([rng.random() < 0.5, ks])
        return [shape, self.gen_hist(rng, shape, kinds), prog]

    def gen_own_failfast(self, rng):
        """failfast assigned on a ThreadsafeForwardingResult (or a decorator over it) that is reported to directly, over a target that may not
        count an unexpected success as unsuccessful; the first bad outcome of the run is mostly an unexpected success"""
        F = ['tt', False]
        target = rng.choice([['sink', 'py27'], ['sink', 'py27'], ['sink', 'twisted'], ['fsink', rng.random() < 0.5, rng.random() < 0.3, 'twisted'],
                             ['e2s', ['etod', rng.choice([F, ['sink', 'py27'], ['text', False]])]], ['sink', 'py26'], F, ['sff'],
                             ['multi', ['etod', ['sink', 'py27']], ['etod', F]]])
        shape = ['tfr', ['etod', target]]
        r = rng.random()
        if r < 0.2:
            shape = ['deco', shape]
        elif r < 0.4:
            shape = ['tagger', R.gen_tagset(rng, 4), [], shape]
        elif r < 0.45:
            shape = ['multi', ['etod', shape]]
        h = [['startTestRun']]
        if rng.random() < 0.85:
            h.append(['setFailfast', True])
        tid = 0
        first_bad = rng.choice(['uxsuccess', 'uxsuccess', 'uxsuccess', 'failure', 'error'])
        for k in [rng.choice(['success', 'skip', 'xfail']) for _ in range(rng.choice([0, 0, 1, 2]))] + [first_bad] + \
                [rng.choice(R.KINDS) for _ in range(rng.choice([0, 1, 2]))]:
            tid += 1
            arg = rng.choice([None, ['details', []]]) if k in ('success', 'uxsuccess') else \
                rng.choice([['reason', [114]], ['reason', []], ['details', []]]) if k == 'skip' else rng.choice([['exc', 'real'], ['details', []]])
            h += [['startTest', tid], ['add', k, tid, arg], ['stopTest', tid]]
            if rng.random() < 0.1:
                h.append(R.gen_tags_call(rng))
        if rng.random() < 0.8:
            h.append(['stopTestRun'])
        return shape, h

    def enumerate(self, tier):
        T, F = ['tt', True], ['tt', False]
        shapes = [F, T, ['text', False], ['text', True], ['etod', F], ['tfr', ['etod', F]], ['tfr', ['etod', T]],
                  ['multi', ['etod', F], ['etod', T]], ['multi', ['etod', ['text', False]], ['etod', ['tfr', ['etod', F]]]],
                  ['deco', ['etod', T]], ['e2s', ['etod', F]], ['etod', ['multi', ['etod', T], ['etod', F]]],
                  ['multi', ['etod', T], ['etod', F]], ['multi', ['etod', F], ['etod', ['multi', ['etod', F], ['etod', T]]]],
                  ['multi', ['etod', ['fsink', True, True, 'py26']], ['etod', F]],
                  ['tfr', ['etod', ['fsink', False, True, 'twisted']]], ['deco', ['etod', ['fsink', True, False, 'py26']]],
                  ['tagger', [1], [], T], ['etod', ['sink', 'py27']],
                  ['tfr', ['etod', ['sink', 'py27']]], ['deco', ['tfr', ['etod', ['sink', 'twisted']]]], ['tfr', ['etod', ['e2s', ['etod', F]]]],
                  ['sff'], ['etod', ['sff']], ['multi', ['etod', ['sff']], ['etod', F]]]
        outs = [(k, None if k in ('success', 'uxsuccess') else ['reason', [114]] if k == 'skip' else ['exc', 'real']) for k in R.KINDS]
        for s in shapes:
            for ffpos in [None, 0, 1]:
                for stoppos in (None, 1, 2):
                    for k1, a1 in outs:
                        for k2, a2 in outs:
                            h = [['startTestRun'], ['startTest', 1], ['add', k1, 1, a1], ['stopTest', 1],
                                 ['startTest', 2], ['add', k2, 2, a2], ['stopTest', 2], ['stopTestRun']]
                            if stoppos is not None:
                                h.insert(1 + 3 * stoppos, ['stop'])
                            if ffpos is not None:
                                h.insert(1 + 3 * ffpos, ['setFailfast', True])
                            yield [s, h, None]
        for ff in (False, True):
            for k1 in R.KINDS:
                for k2 in R.KINDS:
                    for k3 in ('success', 'failure'):
                        yield [F, [], some([ff, [k1, k2, k3]])]
            for ex in EXITS:
                for k1 in ('success', 'failure'):
                    yield [F, [], some([ff, [k1, ex, 'failure']])]
                yield [F, [], some([ff, [ex]])]

    def nontrivial(self, inp, trace):
        shape, hist, prog = inp
        return R.depth(shape) >= 2 and any(c[0] == 'add' and c[1] in BAD for c in hist)

    def features(self, inp, trace):
        shape, hist, prog = inp
        kinds = R.kinds_in(shape)
        f = ['depth=%d' % R.depth(shape), 'calls=%s' % (len(hist) // 5 * 5), 'tests=%d' % len([c for c in hist if c[0] == 'add']),
             'runs=%d' % len([c for c in hist if c[0] == 'startTestRun']), 'root:' + shape[0]]
        f += ['node:' + k for k in sorted(set(kinds))]
        f += ['attr:%s,%s,%s,under-%s' % (c[3], 'late' if c[1] else 'early', c[2], par) for par, c in self.boxes(shape, 'root')]
        f.append('leaves:' + ('own' if all(k in ('tt', 'text') for k in kinds if k in ('tt', 'text', 'tbt') or 'sink' in k) else 'with-old-flavours'))
        params = [x[1] for x in self.leaf_shapes(shape)]
        f.append('leaf-failfast:' + ('none' if not any(params) else 'all' if all(params) else 'mixed-first' if params[0] else 'mixed-not-first'))
        if not any(c[0] == 'setFailfast' for c in hist):
            f.append('no-assign')
            runs = [i for i, c in enumerate(hist) if c[0] == 'startTestRun']
            bads = [i for i, c in enumerate(hist) if c[0] == 'add' and c[1] in BAD]
            if any(params) and not all(params) and runs and bads and runs[0] < bads[-1]:
                f.append('no-assign+mixed+run-before-bad')
        root = shape[1] if shape[0] == 'deco' else shape[3] if shape[0] == 'tagger' else shape
        if root[0] == 'tfr' and ['setFailfast', True] in hist:
            bad = [c[1] for c in hist if c[0] == 'add' and c[1] in BAD]
            f.append('tfr-own-failfast:first-bad=%s,target=%s' % (bad[0] if bad else 'none', root[1][1][0] + (':' + str(root[1][1][-1]) if 'sink' in root[1][1][0] else '')))
        for c in hist:
            if c[0] == 'add':
                f.append('kind:' + c[1])
            elif c[0] in ('stop', 'setFailfast'):
                f.append('call:' + c[0] + (str(c[1]) if len(c) > 1 else ''))
        if prog is not None:
            f.append('prog:ff=%s,n=%d,%s' % (prog[1][0], len(prog[1][1]), 'bad' if any(k in BAD for k in prog[1][1]) else 'clean'))
            f += ['prog:' + k for k in prog[1][1] if k in EXITS]
        if trace and trace[0] == 'raised':
            f.append('raised:' + trace[1])
        elif trace:
            f.append('stopped' if any(o[1] for o in trace[2]) else 'never-stopped')
            f.append('unsuccessful' if any(not o[0] for o in trace[2]) else 'always-successful')
        return sorted(set(f))

    def boxes(self, s, parent):
        if s[0] == 'etod' and s[1][0] == 'fsink':
            return [(parent, s[1])]
        return [b for c in R.children(s) for b in self.boxes(c, s[0])]

    def leaf_shapes(self, s):
        if s[0] in ('tt', 'text'):
            return [s]
        if s[0] in ('sink', 'fsink'):
            return [[s[0], s[2] if s[0] == 'fsink' else False]]
        return [l for c in R.children(s) for l in self.leaf_shapes(c)]

    def shrink(self, inp):
        shape, hist, prog = inp
        kinds = R.kinds_in(shape)
        if prog is not None:
            yield [shape, hist, None]
            ks = prog[1][1]
            for i in range(len(ks)):
                yield [shape, hist, some([prog[1][0], ks[:i] + ks[i + 1:]])]
        for h in R.shrink_hist(hist):
            if ('text' in kinds or 'e2s' in kinds or 'sff' in kinds) and not R.starts_run(h):
                continue
            yield [shape, h, prog]
        for s in R.shrink_shape(shape):
            if R.wf_shape(s) and not ({'sink:ext', 'tbt'} & set(R.kinds_in(s))):
                yield [s, hist, prog]


PROP = C04()
