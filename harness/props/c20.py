"""C20 - Deferred matchers classify fired/failed/unfired without firing anything.

Input : (history (op ...)) | (runUser beh)          (codecs: TTV/Drv/C20.lean, model: TTV/Model/Deferred.lean)
  op  = (fire res) | (add (cb onOk onFail tag)) | (resume res) | (match matcher) | classify | extract
  res = (ok val) | (fail e)      val = none | (num n) | (pair val val)
  act = keep | (ret res viaDeferred) | inc | wait        tag = plain | (probe k)
  matcher = noResult | (succeeded always|never|(equals val)) | (failed always|never|(isExc e))
Trace : (history (obs ...) ((probe-id res) ...) called logged-at-gc) | (runUser outcome)
"""
import gc, itertools
from harness.core import Prop, some
from harness.mrun import EqualToEverything, NoTruthEq
from harness import kwnames


class E(Exception):
    """the exceptions the generated callbacks raise / the Deferreds fail with: identified by `code`"""

    def __init__(self, code):
        Exception.__init__(self, 'E%d' % code)
        self.code = code


class EEqAll(E):
    """an exception that compares equal to everything"""
    def __eq__(self, other):
        return True

    def __ne__(self, other):
        return False
    __hash__ = Exception.__hash__


class EFalsy(E):
    """an exception that is falsy (and has length 0)"""
    def __bool__(self):
        return False

    def __len__(self):
        return 0


class ENoTruth(E):
    """an exception whose == has no truth value"""
    def __eq__(self, other):
        return NoTruthEq() == other
    __ne__ = __eq__
    __hash__ = Exception.__hash__


def mkexc(code):
    """failure values: codes 3, 4, 5 are the exceptions with an unusual == / truth value, every other code a plain E"""
    return {3: EEqAll, 4: EFalsy, 5: ENoTruth}.get(code, E)(code)


def pyval(v):
    if v is None or v == 'none':
        return None
    if v[0] == 'num':
        return v[1]
    if v[0] == 'sym':       # objects whose == / truth value must never decide anything (fresh ones each time)
        return [EqualToEverything, NoTruthEq, str, list, bool, tuple][v[1]]()
    return (pyval(v[1]), pyval(v[2]))


def sxval(x):
    if x is None:
        return 'none'
    if isinstance(x, EqualToEverything):        # (by type, never by ==)
        return ['sym', 0]
    if isinstance(x, NoTruthEq):
        return ['sym', 1]
    if isinstance(x, str) and len(x) == 0:
        return ['sym', 2]
    if isinstance(x, list) and len(x) == 0:
        return ['sym', 3]
    if x is False:
        return ['sym', 4]
    if isinstance(x, tuple) and len(x) == 0:
        return ['sym', 5]
    if isinstance(x, bool):
        return ['not-a-model-value', 'bool']
    if isinstance(x, int):
        return ['num', x] if x >= 0 else ['not-a-model-value', 'negative']
    if isinstance(x, tuple) and len(x) == 2:
        return ['pair', sxval(x[0]), sxval(x[1])]
    return ['not-a-model-value', type(x).__name__]


def sxres(x):
    from twisted.python.failure import Failure
    if isinstance(x, Failure):
        return ['fail', x.value.code] if isinstance(x.value, E) else ['fail', type(x.value).__name__]
    return ['ok', sxval(x)]


class World:
    """one real Deferred driven by the operations of a history"""

    def __init__(self):
        from twisted.internet import defer
        self.defer = defer
        self.d = defer.Deferred()
        self.inners = []
        self.seen = []

    def fn(self, act, tag):
        defer = self.defer
        if act == 'keep':
            f = lambda x: x
        elif act == 'inc':
            f = lambda x: (x or 0) + 1 if x is None or (isinstance(x, int) and not isinstance(x, bool)) else x
        elif act == 'wait':
            def f(x):
                d = defer.Deferred()
                self.inners.append(d)
                return d
        else:
            _, r, via = act
            if r[0] == 'ok':
                v = pyval(r[1])
                f = (lambda x: defer.succeed(v)) if via else (lambda x: v)
            else:
                code = r[1]
                if via:
                    f = lambda x: defer.fail(mkexc(code))
                else:
                    def f(x):
                        raise mkexc(code)
        if tag != 'plain':
            k, inner = tag[1], f

            def f(x):
                self.seen.append([k, sxres(x)])
                return inner(x)
        return f

    def matcher(self, m):
        from testtools.twistedsupport import succeeded, failed, has_no_result
        from testtools.matchers import Always, Never, Equals, AfterPreprocessing
        if m == 'noResult':
            return has_no_result()
        kind, inner = m
        if kind == 'succeeded':
            return succeeded(Always() if inner == 'always' else Never() if inner == 'never' else Equals(pyval(inner[1])))
        return failed(Always() if inner == 'always' else Never() if inner == 'never'
                      else AfterPreprocessing(lambda f: getattr(f.value, 'code', None), Equals(inner[1])))

    def step(self, op, prefix):
        from testtools.twistedsupport._deferred import extract_result, DeferredNotFired
        d = self.d
        if op == 'classify':
            out = []
            for m in ('noResult', ['succeeded', 'always'], ['failed', 'always']):
                w = World()
                for p in prefix:
                    if p != 'classify':
                        w.step(p, None)
                out.append(w.matcher(m).match(w.d) is None)
                w.d.addErrback(lambda _: None)      # the replica must not log at collection
            return ['classes'] + out
        if op == 'extract':
            try:
                return ['extracted', ['value', sxval(extract_result(d))]]
            except DeferredNotFired:
                return ['extracted', 'notFired']
            except E as e:
                return ['extracted', ['raised', e.code]]
        kind = op[0]
        if kind == 'fire':
            r = op[1]
            try:
                if r[0] == 'ok':
                    d.callback(pyval(r[1]))
                else:
                    d.errback(mkexc(r[1]))
                return ['fired', False]
            except self.defer.AlreadyCalledError:
                return ['fired', True]
        if kind == 'add':
            _, on_ok, on_fail, tag = op[1]
            d.addCallbacks(self.fn(on_ok, tag), self.fn(on_fail, tag))
            return 'added'
        if kind == 'resume':
            r = op[1]
            if d.paused and self.inners and not self.inners[-1].called:
                inner = self.inners[-1]
                if r[0] == 'ok':
                    inner.callback(pyval(r[1]))
                else:
                    inner.errback(mkexc(r[1]))
                return ['resumed', True]
            return ['resumed', False]
        if kind == 'match':
            before = bool(d.called)
            verdict = self.matcher(op[1]).match(d) is None
            return ['verdict', verdict, before, bool(d.called)]
        raise AssertionError(op)


class C20(Prop):
    id = 'C20'
    budgets = {'quick': 8000, 'thorough': 40000}
    time_limit = {'quick': 60, 'thorough': 600}
    rule = ('histories of 1-12 operations (0-3 callbacks attached first, 70 % then fired) on a real twisted Deferred: fire with a value (None, ints, nested tuples; in 40 % of the histories also objects equal to everything, objects whose == has no truth value, '', [], False, ()) / fail with an exception (plain, or equal to everything / falsy / with a no-truth-value ==), '
            'addCallbacks with pairs that pass through, return a value, raise, return an already-fired or an unfired Deferred (chaining), probes that record '
            'what later callbacks see; resume of the chained Deferred; has_no_result / succeeded(Always|Never|Equals) / failed(Always|Never|exception code); '
            'classify = the three classifying matchers on three replicas of the Deferred; extract_result; afterwards the Deferred is dropped and the Twisted '
            'log is checked for "Unhandled error in Deferred". Plus tests run with SynchronousDeferredRunTest that return / raise / return fired or unfired '
            'Deferreds - in the test method, setUp, tearDown or a cleanup (an UNFIRED Deferred in the test method only), each exception kind (failure / error / skip) realised by 15 exception classes incl. '
            'testtools\' and Twisted\'s own (DeferredNotFired, MismatchError, MultipleExceptions with one failure / one error / both / nothing, AlreadyCalledError, CancelledError, '
            'TimeoutError, NoResultError, StaleJunkError, ReentryError: coming out of user code they are user exceptions - seed C20-f), raised or as the failure of a fired Deferred; besides the outcome the whole '
            'event list must equal that of the same test doing the same thing directly under the plain RunTest; in 75 % of the cases after registering two cleanups, the second with a positional and a KEYWORD argument whose name is drawn from the parameter names of every function the keyword travels through (read from the tree under test with inspect - harness/kwnames.py: self, function, fn, f, args, kwargs, result, callable, key, arguments, keywordArguments, exc_info, tb_label, failure; seed C20-g): both must have run, the second with exactly those arguments, whatever the stage did, as they do under the plain RunTest. thorough adds every history of length <= 5 over a 14-operation alphabet and every history of length <= 3 over a 22-operation alphabet with the unusual values and exceptions. non-trivial = a history with a matcher or extract after at '
            'least one other operation, or a runUser case with a Deferred; distinct = distinct input S-expression')
    assumptions = ['twisted.internet.defer.Deferred (callback chain, pausing on a returned Deferred, AlreadyCalledError, DebugInfo.__del__ logging '
                   '"Unhandled error in Deferred" exactly when the last result is a Failure) is modelled by TTV.Deferred.runCbs/add/fire/resume, not verified',
                   'inner matchers are Always/Never/Equals (values) and Always/Never/exception-code (failures); they are assumed pure; with values whose '
                   '== is unusual only Always/Never are used (Equals would be answered by the value\'s own ==, which is not what is under test)',
                   'reading (audit/C20 V1): the verdict clauses are per Deferred STATE at the moment of matching; succeeded()/failed() on a FAILED Deferred '
                   'consume the failure (the errback that marks it handled leaves a successful None), so a second matcher on the same Deferred sees '
                   'that new state - the statement promises intactness for unfired Deferreds and successful results only',
                   'reading (audit/C20 V3): "fired" = a result is deliverable to a newly added callback; a paused Deferred (pause(), or waiting for a '
                   'Deferred returned by a callback) and a Deferred examined from inside one of its own callbacks count as having no result',
                   'outside the stated domain (audit/C20 borderline list): extract_result consumes the result it extracts (and on an unfired Deferred '
                   'leaves its consumer attached - modelled); a test returning an unfired Deferred under SynchronousDeferredRunTest gets addSuccess and '
                   'DeferredNotFired escapes run() (modelled as outcome notFired); values whose __repr__ raises; has_no_result() does not mark a failure handled',
                   'garbage collection: the Deferred is dropped and gc.collect() is run inside the case; CPython reference counting semantics are assumed',
                   'SynchronousDeferredRunTest: the model has three exception KINDS (by the outcome TestCase reports); which exception class realises a kind, in which '
                   'stage, and the optional keyword cleanup are realisation hints the Lean codec ignores - that the unchanged runner treats every class alike is '
                   'the tie C20_src_run_user (signature (self, function, /, *args, **kwargs), the user\'s function called from a thunk so that no keyword reaches maybeDeferred\'s own parameter, the errback _got_user_failure reports EVERY failure) plus the differential run against plain RunTest; only the '
                   'sequence of result events is compared (not details or tracebacks); an unfired Deferred returned from setUp / tearDown / a cleanup is not '
                   'modelled (no outcome + escape, addSuccess + escape, addError respectively - observed, outside the statement, which speaks of fired Deferreds)',
                   'translator tie: harness/pydeferred2lean.py reads on_deferred_result, the three matchers\' match + handlers, extract_result and '
                   '_run_user with the errback _got_user_failure it installs as data (messages of Mismatch objects are not translated); TTV.DeferredSkel gives the data its meaning (trusted: that the '
                   'interpreter reads the recognised statement forms as Python does); unrecognised statements become .unknown']

    manifest = {
        'text': 'Theorems for every Deferred state and every history of fire / add-callback / chained-Deferred resume / match / extract operations: the '
                'matchers as implemented (capturing pass-through callbacks added by on_deferred_result, addErrback on an inspected failure) refine their '
                'declaration - has_no_result, succeeded(m), failed(m) match iff the state is no-result / ok v and m(v) / fail e and m(e); exactly one of the '
                'three classifying matchers matches; matching never fires and is invisible to every later operation and callback except that succeeded/failed '
                'turn an inspected failure into a handled one (so it is not logged at collection, while has_no_result leaves it); extract_result returns the '
                'value, raises the exception or raises DeferredNotFired; SynchronousDeferredRunTest reports an already-fired Deferred like the direct '
                'return/raise, in every stage and for every exception class incl. the framework\'s own. Tied to the code (a) by theorems C20_src_* proving that matchOp / extractOp / runUser ARE the interpretation of the case '
                'splits and handlers re-read from _deferred.py, _matchers.py and _runtest.py on every run, (b) by a differential check against real '
                'twisted Deferreds incl. the unhandled-error log after gc.',
        'note': 'trusted: Lean kernel, the model TTV/Model/Deferred.lean, the harness; Twisted\'s Deferred (chaining, pausing, DebugInfo logging) is '
                'modelled, not verified; inner matchers restricted to Always/Never/Equals/exception code and assumed pure',
        'technique': 'Lean 4 simulation proof (operational matchers vs declarative semantics) by induction over histories; executable spec shared with a '
                     'differential correspondence check',
    }

    def __init__(self):
        self.errors = None

    def extract_tables(self, repo):
        """tie: the decision logic of on_deferred_result / the matchers / extract_result / _run_user, re-read from the tree"""
        from harness import pydeferred2lean
        return {'TTV/Generated/DeferredSrc.lean': pydeferred2lean.generate(repo)}

    def observer(self):
        if self.errors is None:
            from twisted.logger import globalLogBeginner, LogLevel
            self.errors = []
            # start logging with our observer only: nothing is printed to stderr
            globalLogBeginner.beginLoggingTo(
                [lambda ev: self.errors.append(ev) if ev.get('isError') or ev.get('log_level') in (LogLevel.error, LogLevel.critical) else None],
                redirectStandardIO=False, discardBuffer=True)
        return self.errors

    # ------------------------------------------------------------------ implementation side
    def run_impl(self, inp):
        try:
            if inp[0] == 'history':
                return self.impl_history(inp[1])
            return self.impl_run_user(*inp[1:])
        except Exception as e:
            return ['raised', type(e).__name__]

    def impl_history(self, ops):
        errors = self.observer()
        gc.collect(1)
        gc.disable()
        try:
            w = World()
            obs = [w.step(op, ops[:i]) for i, op in enumerate(ops)]
            called = bool(w.d.called)
            seen = w.seen
            n0 = len(errors)        # (the replicas of `classify` were neutralised, they cannot log)
            w.d = None
            w.inners = None
            del w
            gc.collect(1)
            logged = len(errors) > n0
        finally:
            gc.enable()
        return ['history', obs, seen, called, logged]

    #: exception classes a user's code can raise / fail a Deferred with, by the outcome TestCase reports for them (the model's ExcKind).  Besides
    #: the obvious ones: testtools' and Twisted's OWN exception classes - for the runner they are user exceptions like any other when they come
    #: out of user code (seed C20-f: DeferredNotFired coming from the user taken for the runner's own complaint)
    EXC_VARIANTS = {'failure': ['assert', 'mismatch', 'multi-failure', 'multi-error-and-failure'],
                    'error': ['value', 'DeferredNotFired', 'AlreadyCalledError', 'CancelledError', 'TimeoutError', 'NoResultError', 'StaleJunkError',
                              'ReentryError', 'multi-error', 'multi-empty'],
                    'skip': ['skip']}
    STAGES = ['body', 'setUp', 'tearDown', 'cleanup']

    def make_exc(self, case, kind, variant):
        import sys, unittest
        from twisted.internet import defer
        from testtools.twistedsupport._deferred import DeferredNotFired
        from testtools.twistedsupport._spinner import NoResultError, StaleJunkError, ReentryError
        from testtools.runtest import MultipleExceptions
        from testtools.matchers import MismatchError, Equals

        def ei(e):
            try:
                raise e
            except Exception:
                return sys.exc_info()
        table = {'assert': lambda: case.failureException('x'), 'mismatch': lambda: MismatchError(1, Equals(2), Equals(2).match(1)),
                 'multi-failure': lambda: MultipleExceptions(ei(case.failureException('m'))),
                 'multi-error-and-failure': lambda: MultipleExceptions(ei(ValueError('m')), ei(case.failureException('n'))),
                 'value': lambda: ValueError('x'), 'DeferredNotFired': lambda: DeferredNotFired(defer.Deferred()),
                 'AlreadyCalledError': lambda: defer.AlreadyCalledError(), 'CancelledError': lambda: defer.CancelledError(),
                 'TimeoutError': lambda: defer.TimeoutError(), 'NoResultError': lambda: NoResultError(), 'StaleJunkError': lambda: StaleJunkError([]),
                 'ReentryError': lambda: ReentryError('f'), 'multi-error': lambda: MultipleExceptions(ei(ValueError('m'))),
                 'multi-empty': lambda: MultipleExceptions(), 'skip': lambda: unittest.SkipTest('why')}
        if variant not in self.EXC_VARIANTS[kind]:
            variant = self.EXC_VARIANTS[kind][0]
        return table[variant]()

    def impl_run_user(self, beh, hint=None):
        """hint = [stage, cleanup, variant]: stage 'body' | 'setUp' | 'tearDown' | 'cleanup' = which stage behaves like `beh` (the others are
        trivial); cleanup 'kw' = a cleanup taking positional and keyword arguments is registered first (addCleanup(f, 1, key=2)) and must
        have run, with exactly those arguments, when run() is over - whatever the stage did; variant = which exception class realises the
        behaviour's exception kind (EXC_VARIANTS).  Besides the outcome (the trace) the whole event list is compared with that of the SAME
        test doing the same thing DIRECTLY (returning the value / raising the exception) under the plain RunTest: "as if it had returned or
        raised directly" on the real objects."""
        hint = list(hint or ['body', 'none']) + [None]
        stage, cleanup, variant = hint[:3]
        # cleanup: 'none' | 'kw' (keyword called key) | ['kw', name]: the NAME of the cleanup's keyword argument, drawn from the parameter
        # names of the functions it travels through (harness/kwnames.py; seed C20-g: `_run_user(self, function, *args, **kwargs)` without
        # the `/` collides with a keyword called function or self; the unchanged runner collided with maybeDeferred's f)
        kwname = None if cleanup == 'none' else 'key' if cleanup == 'kw' else cleanup[1]
        import testtools
        from twisted.internet import defer
        from testtools.runtest import RunTest
        from testtools.twistedsupport import SynchronousDeferredRunTest
        from testtools.twistedsupport._deferred import DeferredNotFired
        from testtools.testresult.doubles import ExtendedTestResult

        def one(runner, direct):
            calls = []

            def body(case):
                if beh == 'returnsUnfired':
                    return defer.Deferred()
                if beh[0] == 'returns':
                    return pyval(beh[1])
                if beh[0] == 'raises':
                    raise self.make_exc(case, beh[1], variant)
                _, k, v = beh
                if direct:      # the corresponding return / raise
                    if k is None:
                        return pyval(v)
                    raise self.make_exc(case, k[1], variant)
                return defer.succeed(pyval(v)) if k is None else defer.fail(self.make_exc(case, k[1], variant))

            class T(testtools.TestCase):
                run_tests_with = runner

                def setUp(self):
                    super().setUp()
                    if kwname:
                        # registered first = runs last: it shows whether the cleanups AFTER the keyword one are still run
                        self.addCleanup(lambda: calls.append('registered-first'))
                        self.addCleanup(lambda *a, **k: calls.append((a, sorted(k.items()))), 1, **{kwname: 2})
                    if stage == 'cleanup':
                        self.addCleanup(body, self)
                    if stage == 'setUp':
                        return body(self)

                def test(self):
                    if stage == 'body':
                        return body(self)

                def tearDown(self):
                    super().tearDown()
                    if stage == 'tearDown':
                        return body(self)
            r = ExtendedTestResult()
            raised = None
            try:
                T('test').run(r)
            except DeferredNotFired:
                raised = 'DeferredNotFired'
            except TypeError as e:      # (a colliding keyword name after a failed setUp: the TypeError leaves run())
                raised = 'TypeError'
            return [e[0] for e in r._events], raised, calls
        def outcome(ev, raised):
            if ev[:1] != ['startTest'] or ev[-1:] != ['stopTest'] or len(ev) != 3:
                return ['bad-bracket'] + ev
            kind = {'addSuccess': 'success', 'addFailure': ['reported', 'failure'], 'addError': ['reported', 'error'],
                    'addSkip': ['reported', 'skip']}.get(ev[1], ['unexpected', ev[1]])
            if raised:
                return 'notFired' if kind == 'success' else ['raised-and', raised, ev[1]]
            return kind
        ev, raised, calls = one(SynchronousDeferredRunTest, False)
        if kwname and calls != [((1,), [(kwname, 2)]), 'registered-first']:
            return ['runUser', ['keyword-cleanup-not-run-as-registered', kwname, len(calls)] + (['raised', raised] if raised else [])]
        res = outcome(ev, raised)
        if beh != 'returnsUnfired':
            dev, draised, dcalls = one(RunTest, True)
            if kwname and dcalls != [((1,), [(kwname, 2)]), 'registered-first']:     # the plain runner must honour every name in the list
                return ['runUser', ['vocabulary-error', 'keyword', kwname, 'direct'] + dev]
            declared = ['reported', self.exc_kind(beh)] if self.exc_kind(beh) else 'success'
            if outcome(dev, draised) != declared:       # the harness's own table of exception classes is wrong
                return ['runUser', ['vocabulary-error', str(variant), 'direct'] + dev]
            if (ev, raised) != (dev, draised) and res == declared:
                return ['runUser', ['differs-from-doing-it-directly', stage] + ev + ['raised', str(raised), 'direct'] + dev]
        return ['runUser', res]

    # ------------------------------------------------------------------ generators
    VALS = [None, ['num', 0], ['num', 1], ['num', 2], ['num', 7], ['pair', ['num', 1], None], ['pair', ['pair', None, ['num', 3]], ['num', 1]]]
    #: values with an unusual == / truth value: equal-to-everything, no-truth-value ==, "", [], False, ()
    SYMS = [['sym', k] for k in range(6)] + [['pair', ['sym', 0], ['sym', 3]]]

    def g_val(self, rng):
        return rng.choice(self.SYMS) if self.weird and rng.random() < 0.45 else rng.choice(self.VALS)

    def g_res(self, rng):
        if rng.random() < 0.6:
            return ['ok', self.g_val(rng)]
        return ['fail', rng.choice([3, 4, 5]) if self.weird and rng.random() < 0.5 else rng.randrange(3)]

    def g_act(self, rng, errback):
        r = rng.random()
        if r < 0.35:
            return 'keep'
        if r < 0.75:
            return ['ret', self.g_res(rng), rng.random() < 0.3]
        if r < 0.85:
            return 'keep' if errback else 'inc'
        return 'wait'

    def g_matcher(self, rng):
        r = rng.random()
        if r < 0.3:
            return 'noResult'
        if r < 0.65:
            if self.weird:      # the inner matcher is not under test: Equals would be decided by the value's own ==
                return ['succeeded', rng.choice(['always', 'always', 'never'])]
            return ['succeeded', rng.choice(['always', 'always', 'never', ['equals', self.g_val(rng)], ['equals', ['num', 1]]])]
        return ['failed', rng.choice(['always', 'always', 'never', ['isExc', rng.randrange(6 if self.weird else 3)]])]

    def g_add(self, rng, probe_ids):
        tag = ['probe', next(probe_ids)] if rng.random() < 0.6 else 'plain'
        return ['add', ['cb', self.g_act(rng, False), self.g_act(rng, True), tag]]

    def g_op(self, rng, probe_ids, fired):
        r = rng.random()
        if r < (0.05 if fired else 0.3):
            return ['fire', self.g_res(rng)]
        if r < 0.42:
            return self.g_add(rng, probe_ids)
        if r < 0.52:
            return ['resume', self.g_res(rng)]
        if r < 0.84:
            return ['match', self.g_matcher(rng)]
        if r < 0.95:
            return 'classify'
        return 'extract'

    weird = False

    def g_history(self, rng):
        self.weird = rng.random() < 0.4       # 40 % of the histories draw values / exceptions with an unusual == or truth value
        ids = itertools.count()
        ops = [self.g_add(rng, ids) for _ in range(rng.choice([0, 0, 0, 1, 1, 2, 3]))]
        fired = rng.random() < 0.7
        if fired:
            ops.append(['fire', self.g_res(rng)])
        for _ in range(rng.choice([1, 1, 2, 2, 3, 3, 4, 5, 6])):
            op = self.g_op(rng, ids, fired)
            fired = fired or op[0] == 'fire'
            ops.append(op)
            if op[0] == 'add' and 'wait' in op[1][1:3] and rng.random() < 0.6:
                ops.append(['resume', self.g_res(rng)])
        return ops

    BEHS = ['returnsUnfired'] + [['returns', v] for v in (None, ['num', 3], ['num', 0])] + [['returns', ['sym', k]] for k in range(6)] + \
           [['raises', k] for k in ('failure', 'error', 'skip')] + \
           [['returnsFired', None, v] for v in (None, ['num', 3], ['num', 0], ['pair', None, ['num', 1]])] + [['returnsFired', None, ['sym', k]] for k in range(6)] + \
           [['returnsFired', ['some', k], None] for k in ('failure', 'error', 'skip')]

    def gen(self, rng, tier):
        if rng.random() < 0.08:
            beh = rng.choice(self.BEHS)
            stage = 'body' if beh == 'returnsUnfired' else rng.choice(self.STAGES)
            cleanup = 'none' if rng.random() < 0.25 else ['kw', rng.choice(kwnames.names())]
            return ['runUser', beh, [stage, cleanup] + self.variants_of(beh, rng)]
        return ['history', self.g_history(rng)]

    ALPHABET = [['fire', ['ok', ['num', 1]]], ['fire', ['ok', None]], ['fire', ['fail', 0]],
                ['add', ['cb', 'keep', 'keep', ['probe', 0]]], ['add', ['cb', ['ret', ['fail', 1], False], 'keep', 'plain']],
                ['add', ['cb', 'keep', ['ret', ['ok', ['num', 2]], False], 'plain']], ['add', ['cb', 'wait', 'keep', 'plain']],
                ['resume', ['ok', ['num', 1]]], ['resume', ['fail', 2]],
                ['match', 'noResult'], ['match', ['succeeded', ['equals', ['num', 1]]]], ['match', ['failed', 'always']], 'classify', 'extract']

    #: the same with values / exceptions whose == or truth value is unusual (no Equals inner matcher: that is the value's own ==)
    ALPHABET_WEIRD = [op for op in ALPHABET if op != ['match', ['succeeded', ['equals', ['num', 1]]]]] + [
        ['fire', ['ok', ['sym', 0]]], ['fire', ['ok', ['sym', 1]]], ['fire', ['ok', ['sym', 4]]], ['fire', ['fail', 3]], ['fire', ['fail', 4]], ['fire', ['fail', 5]],
        ['add', ['cb', ['ret', ['ok', ['sym', 3]], False], ['ret', ['ok', ['sym', 2]], True], ['probe', 1]]], ['match', ['succeeded', 'always']], ['resume', ['ok', ['sym', 0]]]]

    def exc_kind(self, beh):
        if isinstance(beh, list) and beh[0] == 'raises':
            return beh[1]
        if isinstance(beh, list) and beh[0] == 'returnsFired' and beh[1]:
            return beh[1][1]
        return None

    def variants_of(self, beh, rng):
        k = self.exc_kind(beh)
        return [rng.choice(self.EXC_VARIANTS[k])] if k else []

    def enumerate(self, tier):
        for b in self.BEHS:
            yield ['runUser', b]
            for stage in self.STAGES:
                if stage == 'body' or b != 'returnsUnfired':        # (an unfired Deferred from setUp / tearDown / a cleanup: not modelled)
                    yield ['runUser', b, [stage, 'kw']]
                    # every keyword name of the call path, in every stage, for a successful and a failing behaviour of each shape
                    if b in (['returns', None], ['raises', 'error'], ['returnsFired', None, ['num', 3]], ['returnsFired', ['some', 'failure'], None]):
                        for name in kwnames.names():
                            yield ['runUser', b, [stage, ['kw', name]]]
                    # every exception class of the behaviour's kind, in every stage, raised and as the failure of a fired Deferred
                    for v in (self.EXC_VARIANTS[self.exc_kind(b)] if self.exc_kind(b) else []):
                        yield ['runUser', b, [stage, 'none', v]]
        for n in range(1, 4):
            for ops in itertools.product(self.ALPHABET_WEIRD, repeat=n):
                if any('sym' in str(op) or "'fail', 3" in str(op) or "'fail', 4" in str(op) or "'fail', 5" in str(op) for op in ops):
                    yield ['history', list(ops)]
        for n in range(1, 6):
            for ops in itertools.product(self.ALPHABET, repeat=n):
                yield ['history', list(ops)]

    # ------------------------------------------------------------------ evidence
    def is_probe(self, op):
        return isinstance(op, list) and op[0] == 'add' and op[1][3] != 'plain'

    def nontrivial(self, inp, trace):
        if inp[0] == 'runUser':
            return inp[1] == 'returnsUnfired' or inp[1][0] == 'returnsFired'
        ops = inp[1]
        return any((op in ('classify', 'extract') or op[0] == 'match') and i > 0 for i, op in enumerate(ops))

    def features(self, inp, trace):
        if isinstance(trace, list) and trace and trace[0] == 'raised':
            return ['harness-raised:' + str(trace[1])]
        if inp[0] == 'runUser':
            f = ['kind:runUser', 'runUser:' + (inp[1] if isinstance(inp[1], str) else inp[1][0] + ('-failed' if inp[1][0] == 'returnsFired' and inp[1][1] else ''))]
            if len(inp) > 2:
                cl = inp[2][1]
                f += ['runUser:stage=' + inp[2][0], 'runUser:cleanup=' + (cl if isinstance(cl, str) else 'kw')]
                if not isinstance(cl, str):
                    f += ['runUser:cleanup-keyword=' + cl[1], 'runUser:%s:cleanup-keyword=%s' % (inp[2][0], cl[1])]
                if len(inp[2]) > 2 and isinstance(inp[2][2], str):
                    f += ['runUser:exception=' + inp[2][2], 'runUser:%s:%s:%s' % (inp[2][0], inp[1][0], inp[2][2])]
                if self.exc_kind(inp[1]) is None and inp[1] != 'returnsUnfired':
                    f.append('runUser:%s:%s' % (inp[2][0], inp[1][0]))
            return f
        ops = inp[1]
        f = ['kind:history', 'len=%s' % (len(ops) if len(ops) < 7 else '7+')]
        txt = str(ops)
        for k, name in enumerate(['equal-to-everything', 'no-truth-eq', 'empty-str', 'empty-list', 'False', 'empty-tuple']):
            if "['sym', %d]" % k in txt:
                f.append('value:' + name)
        for k, name in ((3, 'eq-all'), (4, 'falsy'), (5, 'no-truth-eq')):
            if "['fail', %d]" % k in txt:
                f.append('exception:' + name)
        for op, ob in zip(ops, trace[1]):
            name = op if isinstance(op, str) else op[0]
            f.append('op:' + name)
            if name == 'match':
                m = op[1] if isinstance(op[1], str) else op[1][0]
                state = 'nores' if not ob[2] else 'called'
                f.append('match:%s=%s' % (m, ob[1]))
                f.append('match-on:' + state)
            elif name == 'classify':
                f.append('state:' + ['nores', 'ok', 'fail'][ob[1:].index(True)] if ob[1:].count(True) == 1 else 'state:ambiguous')
            elif name == 'extract':
                f.append('extract:' + (ob[1] if isinstance(ob[1], str) else ob[1][0]))
            elif name == 'fire' and ob[1]:
                f.append('fire:already-called')
            elif name == 'resume':
                f.append('resume:' + ('paused' if ob[1] else 'n/a'))
        if trace[4]:
            f.append('unhandled-error-logged')
        if trace[2]:
            f.append('probe-called')
        seen_match = False
        for op in ops:
            if isinstance(op, list) and op[0] == 'match':
                seen_match = True
            elif seen_match and (self.is_probe(op) or (isinstance(op, list) and op[0] == 'fire')):
                f.append('probe-or-fire-after-match')
                break
        return f

    def shrink(self, inp):
        if inp[0] == 'runUser' and len(inp) > 2:
            stage, cleanup = inp[2][:2]
            if cleanup != 'none':
                yield ['runUser', inp[1], [stage, 'none'] + inp[2][2:]]
            if isinstance(inp[1], list) and inp[1][0] != 'returns':
                yield ['runUser', ['returns', None], inp[2][:2]]
            if stage != 'body':
                yield ['runUser', inp[1], ['body', cleanup] + inp[2][2:]]
            if isinstance(inp[1], list) and inp[1][0] == 'returnsFired' and inp[1][1]:
                yield ['runUser', ['raises', inp[1][1][1]], inp[2]]
        if inp[0] != 'history':
            return
        ops = inp[1]
        for i in range(len(ops)):
            yield ['history', ops[:i] + ops[i + 1:]]
        for i, op in enumerate(ops):
            if isinstance(op, list) and op[0] == 'add' and op[1][3] == 'plain':
                continue
            if isinstance(op, list) and op[0] == 'add':
                yield ['history', ops[:i] + [['add', op[1][:3] + ['plain']]] + ops[i + 1:]]


PROP = C20()
