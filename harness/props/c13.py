"""C13 - concurrent suites run every test once, deliver every event, terminate.

Input : [flavour, workers, mkRaise, intr, mfaults, tb, schedule]
        flavour = 'suite' (ConcurrentTestSuite) | 'stream' (ConcurrentStreamTestSuite)
        worker  = [tests, boom, faults] | [tests, boom, faults, polls]   polls (suite flavour): the sub-suite is a stock unittest.TestSuite, whose
                  run() reads result.shouldStop before every element it holds;   tests = [[kind, [tag..]] | [kind, [tag..], [event..]] ..]; boom: run() raises after the tests;
                  a test with a third component is (stream flavour) a native emitter: run(result) calls result.status(...) once per
                  event = [id, ['st', status] | ['file', eof], None | ['some', [tag..]], 'omitted' | 'explicitNone' | ['given', n]]
                  faults (suite): indices of this worker's calls on the caller's result that raise
        mkRaise = None | ['some', k]   make_tests raises after yielding k sub-suites
        intr    = None | ['some', m]   main's m-th queue.get() is interrupted (KeyboardInterrupt subclass)
        mfaults = indices of main's own calls on the caller's result that raise (stream: status; suite: stop)
        tb      = number of chunks of a broken-runner traceback, measured on the implementation (stream)
        schedule = list of thread ids: 0 = the thread calling run(), w+1 = worker w
        an optional 8th component = a list of
        * ['routeCodes', [c0, c1, ..]] (stream flavour): the route code make_tests gives to each worker, as a small number - codes may
          REPEAT (several workers given None, or the same string); without it worker w has the code w.  Part of the model's input:
          an observed event carries its route code, not the index of the worker that emitted it
        * realisation hints, which do not change what the model predicts (atoms): routes (the route code 0 is None, the code 1 is '',
          stream flavour; the others are str(code)), emptyId (test 0 has the id ''), wrap (suite flavour:
        wrap_result wraps each forwarder in a pass-through TestResultDecorator), and what kind of object a sub-suite is -
        testSuites (a unittest.TestSuite holding the worker's 0..3 tests: unhashable, equal to any suite holding equal tests),
        equalCases (instances of one unittest.TestCase class with the same method name: all equal, same hash),
        sameObject (workers with the same script are ONE object, yielded once per worker)
Trace : [log, sink, result, spawned, joined, live, runs, flags, died, finished]      (TTV/Drv/C13.lean)
The real suites run with testtools.testsuite.Queue / .threading replaced by the scheduler's doubles.
"""
import datetime, types, unittest
from harness.core import Prop, some
from harness import sched as S
from harness.props.c12 import Target, ADD, KINDS, schedules

STATUSES = ['inprogress', 'success', 'fail', 'skip', 'xfail', 'uxsuccess', 'exists']
EPOCH = datetime.datetime(1970, 1, 1, tzinfo=datetime.timezone.utc)
STATUS = {'success': 'success', 'error': 'fail', 'failure': 'fail', 'skip': 'skip', 'xfail': 'xfail', 'uxsuccess': 'uxsuccess'}


class Interrupt(KeyboardInterrupt):
    verif_generated = True


class MakeTestsError(Exception):
    pass


class WorkerBoom(Exception):
    pass


class Script:
    """what a sub-suite does when it is run: its placeholder tests, then it raises if `boom`.  The object may be shared by several
    workers (hint sameObject), so what happened is recorded per running thread (`rec[worker index]`), not on the object."""

    def script(self, n, tests, boom, stream, empty_id, rec):
        self.n, self.tests, self.boom, self.stream, self.empty_id, self.rec = n, tests, boom, stream, empty_id, rec

    def cases(self):
        from testtools import PlaceHolder
        return [None if (len(t) == 3 and self.stream) else
                PlaceHolder('' if (j == 0 and self.empty_id) else 't%d' % j, outcome=ADD[t[0]], tags=set(t[1]))
                for j, t in enumerate(self.tests)]

    def run(self, result):
        r = self.rec.setdefault(S.current_tid() - 1 - getattr(self, 'base', 0), {'runs': 0, 'result': None})
        r['runs'] += 1
        r['result'] = result
        for t, case in zip(self.tests, self.cases()):
            if case is None:
                for ev in t[2]:
                    result.status(**native_kwargs(ev, self.empty_id))      # a test that speaks the stream protocol itself
            else:
                case.run(result)
        if self.boom:
            raise WorkerBoom('runner broke')


class Worker(Script):
    """a plain hashable TestCase-like sub-suite"""

    def __init__(self, *a):
        self.script(*a)


class SuiteWorker(Script, unittest.TestSuite):
    """a unittest.TestSuite that holds the worker's tests (unhashable: BaseTestSuite defines __eq__; equal to every suite holding
    equal tests, e.g. every other empty one).  run() runs the held tests in order WITHOUT the stock TestSuite.run's poll of
    result.shouldStop before each test (see the assumptions)"""

    def __init__(self, *a):
        self.script(*a)
        self._held = Script.cases(self)
        unittest.TestSuite.__init__(self, [c for c in self._held if c is not None])      # the suite holds these very objects

    def cases(self):
        return self._held


class CaseWorker(Script, unittest.TestCase):
    """instances of one TestCase class with one method name: unittest.TestCase.__eq__ / __hash__ look at (type, method name) only,
    so all of them are equal and hash alike"""

    def __init__(self, *a):
        unittest.TestCase.__init__(self, 'runTest')
        self.script(*a)

    def runTest(self):
        pass


def native_kwargs(ev, empty_id=False):
    i, kind, tags, ts = ev
    kw = {'test_id': '' if (i == 0 and empty_id) else 't%d' % i}
    if kind[0] == 'st':
        kw['test_status'] = kind[1]
    else:
        kw.update(file_name='log', file_bytes=b'chunk', eof=bool(kind[1]), mime_type='text/plain; charset=utf8')
    if tags is not None:
        kw['test_tags'] = set(tags[1])
    if ts == 'explicitNone':
        kw['timestamp'] = None
    elif ts != 'omitted':
        kw['timestamp'] = EPOCH + datetime.timedelta(seconds=ts[1])
    return kw


def canon_instant(ts):
    """['some', n] for a time stamp the emitter chose (EPOCH + n s), None for the wall clock (or no time stamp at all)"""
    if isinstance(ts, datetime.datetime) and ts.tzinfo is not None:
        d = (ts - EPOCH).total_seconds()
        if 0 <= d < 10 ** 6 and d == int(d):
            return some(int(d))
    return None


class Sink:
    """the caller's StreamResult (stream flavour): status() is a yield point of the calling thread"""

    def __init__(self, sch, faults, routes=None):
        self.s, self.faults, self.events, self.n = sch, set(faults), [], 0
        self.routes = routes or {}          # route code -> its number, for the codes that are not str(number)

    def status(self, test_id=None, test_status=None, test_tags=None, runnable=True, file_name=None, file_bytes=None,
               eof=False, mime_type=None, route_code=None, timestamp=None):
        self.s.yield_point()
        k = self.n
        self.n += 1
        r = k in self.faults
        if test_id is not None and test_id.startswith('broken-runner'):
            tid = 'broken'
        elif test_id is not None and test_id[:1] == 't' and test_id[1:].isdigit():
            tid = int(test_id[1:])
        elif test_id == '':
            tid = 0
        else:
            tid = 99999
        if route_code in self.routes:
            w = self.routes[route_code]
        else:
            try:
                w = int(route_code)
            except (TypeError, ValueError):
                w = 99999
        kind = ['file', bool(eof)] if file_name is not None else ['st', test_status if test_status is not None else 'nostatus']
        tags = None if test_tags is None else some(sorted(test_tags))
        self.events.append([[w, tid, kind, tags, canon_instant(timestamp)], isinstance(timestamp, datetime.datetime), r])
        if r:
            raise S.Injected('injected fault')


class BoomCase:
    """an element of a stock TestSuite whose run raises"""

    def __call__(self, result):
        raise WorkerBoom('runner broke')

    run = __call__


class StockSuite(unittest.TestSuite):
    """a STOCK unittest.TestSuite holding the worker's tests (and, if the run is to break, a last element that raises): run() is
    unittest's own - it reads result.shouldStop before every element (the model's `polls`); overridden only to record the call"""

    def __init__(self, n, tests, boom, stream, empty_id, rec):
        from testtools import PlaceHolder
        cases = [PlaceHolder('' if (j == 0 and empty_id) else 't%d' % j, outcome=ADD[t[0]], tags=set(t[1])) for j, t in enumerate(tests)]
        unittest.TestSuite.__init__(self, cases + ([BoomCase()] if boom else []))
        self.n, self.rec = n, rec

    def run(self, result, debug=False):
        r = self.rec.setdefault(S.current_tid() - 1 - getattr(self, 'base', 0), {'runs': 0, 'result': None})
        r['runs'] += 1
        r['result'] = result
        return unittest.TestSuite.run(self, result, debug)


class TbWorker:
    def run(self, result):
        raise WorkerBoom('runner broke')


def measure_tb():
    """number of status events that carry the traceback of a broken runner (depends on traceback formatting)"""
    import testtools
    evs = []

    class Q:
        def put(self, x):
            evs.append(x)
    res = testtools.ExtendedToStreamDecorator(testtools.TimestampingStreamResult(testtools.StreamToQueue(Q(), '0')))
    suite = testtools.ConcurrentStreamTestSuite(lambda: [])
    res.startTestRun()      # run() does this in the calling thread before it starts the worker
    suite._run_test(TbWorker(), res, '0')
    return sum(1 for e in evs if e.get('file_name') is not None)


class C13(Prop):
    id = 'C13'
    budgets = {'quick': 2200, 'thorough': 26000}
    time_limit = {'quick': 45, 'thorough': 500}
    rule = ('30 % of the random cases are HISTORIES of 2-3 run() calls on ONE suite object (each run with its own sub-suites, fault plan and schedule; the earlier runs mostly aborted - '
            'make_tests failing, an interrupt, the caller\'s result raising -; the leftover workers of an aborted run either joined before the next run() or, half of the histories, finishing WHILE it goes on, '
            'each run\'s threads following their own run\'s schedule), every clause demanded of every run; a run is: ConcurrentTestSuite / ConcurrentStreamTestSuite (half each) over 0-4 workers running 0-3 tests: PlaceHolder tests of arbitrary outcome '
            'with tags, and - stream flavour, 40 % of the tests - native stream emitters whose run(result) calls result.status() for 0-3 scripted events '
            '(test id, any status / file chunk with or without eof, test_tags absent / empty / given, timestamp keyword omitted / None / a given instant); '
            'workers with no test / that emit nothing; a sub-suite is a plain object, a unittest.TestSuite holding its tests (unhashable; empty ones are equal), an instance of one '
            'unittest.TestCase class (all equal, same hash), the SAME object yielded for several workers, or - suite flavour, `polls` - a stock unittest.TestSuite whose own run() reads '
            'result.shouldStop before every element; stream flavour: route codes drawn from a small alphabet WITH repetition (40 % of the cases with >= 2 workers: all workers given one code, '
            'two codes, three codes - the code 0 being None and 1 the empty string under the hint `routes`); realisation hints that leave the prediction unchanged: route codes None and \'\', the empty test id, a pass-through '
            'wrap_result; workers raising from run(), worker-side faults of the caller\'s TestResult (suite; also at the shouldStop read), make_tests raising after k sub-suites, '
            'an interrupt at main\'s m-th queue.get(), the caller\'s result raising at main\'s j-th call (stream: status; suite: stop in the abort path); '
            'schedules: quick = every schedule with <= 2 pre-emptions of 13 small base configurations + random / bursty / few-pre-emption schedules of random '
            'configurations; thorough adds every schedule with <= 2 pre-emptions for 2 workers x 2 tests, <= 1 for 3 workers, and every single fault position / interrupt position / make_tests failure position (<= 1 pre-emption), also for stock TestSuite partitions and for equal / identical / unhashable sub-suite objects. non-trivial = at least 2 workers started; '
            'distinct = distinct input S-expression')
    assumptions = ['a history of run() calls is made in one caller thread on one suite object; every run has its own caller\'s result object; in the overlapping mode the scheduler alternates between the runs that have an enabled thread, '
                   'inside a run it follows that run\'s schedule and then lowest-first - so every run\'s own sequence of decisions is what it would be alone, which is what the model (every run by itself, C13_runs_independent) predicts',
                   'threading.Thread start/join and queue.Queue (unbounded FIFO) semantics are modelled (harness/sched.py doubles), not verified; the semaphore of the suite flavour is a real threading.Semaphore(1), instrumented (see C12)',
                   'only operations on the shared queue / semaphore / caller\'s result and thread start/join are scheduling points; a new thread runs up to its first such operation when it is started',
                   'a KeyboardInterrupt delivered to the thread calling run() is modelled as an exception at a queue.get()',
                   'a run() that raises raises an Exception subclass (both _run_test methods say `except Exception`: a KeyboardInterrupt / SystemExit / GeneratorExit out of a sub-suite\'s run() '
                   'ends the worker thread without a broken-runner report - audit/C13 violation 3 - which is the documented Exception-only domain of C13)',
                   'a worker\'s identity is its position in what make_tests yields (the model never looks at the sub-suite object); what kind of object it is - unhashable, equal to another, '
                   'the very same object again - is varied by the harness only, and the theorems hold for every such choice because the repaired run() keys its table by the Thread',
                   'a stock unittest.TestSuite (`polls`) reads result.shouldStop before each element; the VALUE read is not modelled - the caller\'s result double always answers False, so the worker goes on '
                   '(a worker that reads True leaves its loop early and performs a prefix of its program; "told to stop" is what C13 claims, not that the worker obeys); the stream flavour\'s '
                   'per-worker result answers shouldStop locally (no shared object), so `polls` is a suite-flavour notion; a stock TestSuite is yielded once (unittest empties a suite while running it)',
                   'the number of chunks of a broken-runner traceback is measured on the implementation and given to the model (stream flavour)',
                   'per-worker results are the default ones or (hint wrap) a pass-through TestResultDecorator; the caller\'s result raises Exception subclasses only '
                   '(a BaseException from status()/stop() is outside the documented fault domain of C13; C12 mixes both kinds); API test ids '
                   'are positional (repeated ids are covered by native emitters only)',
                   'stream flavour: the caller\'s result knows a worker by its route code only, and make_tests may hand the same code (None, the same string) to several workers: the `delivered` clause '
                   'then demands that the events under a code are an interleaving of (prefixes of) the event sequences of the started workers with that code - each worker\'s own order kept, '
                   'nothing twice, on normal return nothing missing; which of two colliding workers emitted an event both would emit next cannot be observed and is not claimed. For a code held by one '
                   'started worker this is the plain per-worker prefix / equality clause (theorem C13_merge_single)',
                   'translator ties (harness/suiteskel.py + harness/tfrskel.py): the try / except Exception / finally structure of both _run_test methods and the '
                   'skeletons of ThreadsafeForwardingResult are re-read from the source on every run (theorems C13_src_run_test_suite / _stream, C12_src_*); trusted: '
                   'the interpreters\' reading of sequencing / try-except / try-finally and that each recognised statement is what its name says; run() itself (the '
                   'for / while loops of the calling thread) is not translated - its tie is the correspondence check']

    manifest = {
        'text': 'Theorems for every number of workers, worker programs (0.. tests of any outcome, run() raising), fault plans (worker-side faults of the caller\'s '
                'TestResult, make_tests failing after k sub-suites, an interrupt at any queue.get(), the caller\'s result raising at any call of run()\'s thread) and every '
                'schedule (arbitrary list of thread ids, unbounded), for both ConcurrentTestSuite and ConcurrentStreamTestSuite - a worker being its position in what make_tests yields, whatever '
                'object the sub-suite is (unhashable unittest.TestSuite, equal TestCases, the same object twice; stock TestSuite partitions with their shouldStop reads): no reachable state is stuck and every run ends '
                '(run() returns or raises, every started thread ends); on normal return every sub-suite was started, ran once, has terminated and every event it emitted reached '
                'the caller\'s result exactly once in that worker\'s order (stream: with its route code and a time stamp - the emitter\'s own instant if it gave one; route codes may be shared by '
                'several workers, the events under a code are then an interleaving of those workers\' sequences, C13_same_route_code, and exactly the one worker\'s sequence when the code is not shared, C13_merge_single; '
                'for TestResult-API tests and for tests that call result.status() themselves; suite: one whole well-shaped block at a time - C12\'s invariant incl. '
                'main\'s stop() calls); on abort what was delivered is still a prefix per worker; a raising sub-suite yields exactly one errored broken-runner test; if run() '
                'raises the exception is the injected one and every registered worker is told to stop (suite: one stop() per registered worker; stream: its shouldStop is set and '
                'no later step clears it, because run() forwards the worker\'s startTestRun itself before starting the thread). The hand-written model is tied to the code by a '
                'differential check that runs the real suites in real threads under a deterministic scheduler (bounded-pre-emption exhaustive + random schedules, all fault kinds), also for histories of 1-3 run() calls on one suite object, earlier runs aborted and their leftover workers joined first or overlapping the next run: every run\'s trace is that of the same run on a fresh suite (C13_runs_independent).',
        'note': 'partial by nature: the theorems cover every interleaving of the model\'s atomic steps (operations on queue / semaphore / caller\'s result, thread start/join); '
                'CPython pre-emption is reached only through the scheduler-driven correspondence. trusted: Lean kernel, TTV/Model/Conc.lean + ConcSuite.lean, harness/sched.py '
                'and the plug-in; Thread/Queue semantics and the blocking of Semaphore.acquire modelled; KeyboardInterrupt modelled as an exception at queue.get(); traceback chunk count measured',
        'technique': 'Lean 4 invariant proofs over a small-step interleaving semantics (all schedules, no bound) with a termination measure, executable spec shared with a '
                     'differential correspondence check under a deterministic thread scheduler',
    }

    def extract_tables(self, repo):
        """translator ties: the worker side of the two suites (_run_test), and - because the suite flavour's workers report through
        ThreadsafeForwardingResult, whose block semantics C13's theorems reuse - the skeletons of that class as well"""
        from harness import suiteskel, tfrskel
        return {'TTV/Generated/SuiteSkel.lean': suiteskel.generate(repo), 'TTV/Generated/TfrSkel.lean': tfrskel.generate(repo)}

    def __init__(self):
        self.stats = {}
        self._tb = None
        self._sys = None
        self._sys_left = 0

    def tb(self):
        if self._tb is None:
            self._tb = measure_tb()
        return self._tb

    # ----- implementation side
    def build_env(self, inp, sch, base):
        """everything ONE run of a history needs besides the suite object: its sub-suites, fault plan, caller's result, observations;
        `base` = number of worker threads the earlier runs of the history were given (thread ids are global in a history)"""
        flavour, wspecs, mk, intr, mfaults, tb, schedule = inp[:7]
        hints = inp[7] if len(inp) > 7 else []
        codes = next((h[1] for h in hints if isinstance(h, list) and h[0] == 'routeCodes'), None)
        code = lambda n: codes[n] if codes is not None and n < len(codes) else n        # the route code of worker n, as a small number
        route = lambda n: ({0: None, 1: ''}.get(code(n), str(code(n))) if 'routes' in hints else str(code(n)))
        mk = None if mk is None else mk[1]
        log = []
        cls = SuiteWorker if 'testSuites' in hints else CaseWorker if 'equalCases' in hints else Worker
        rec, workers, seen = {}, [], {}
        for n, w in enumerate(wspecs):
            key = repr(w[:2])
            polls = len(w) > 3 and w[3]
            if polls:                           # a stock unittest.TestSuite (one run per object: unittest empties a suite as it runs it)
                workers.append(StockSuite(n, w[0], w[1], False, 'emptyId' in hints, rec))
            elif 'sameObject' in hints and key in seen:
                workers.append(seen[key])       # the very same sub-suite object, yielded once more
            else:
                workers.append(cls(n, w[0], w[1], flavour == 'stream', 'emptyId' in hints, rec))
                seen[key] = workers[-1]
        for w in workers:
            w.base = base
        faults = {0: set(mfaults)}
        for n, w in enumerate(wspecs):
            faults[base + n + 1] = set(w[2])
        target = Target(sch, log, faults)
        target.mixed_faults = False

        def make_tests(*_):
            for n, w in enumerate(workers):
                if mk is not None and n >= mk:
                    raise MakeTestsError('make_tests broke')
                yield w if flavour == 'suite' else (w, route(n))
            if mk is not None:
                raise MakeTestsError('make_tests broke')
        return {'inp': inp, 'flavour': flavour, 'hints': hints, 'base': base, 'n': len(wspecs), 'log': log, 'sem': S.SchedSemaphore(sch, log),
                'rec': rec, 'target': target, 'sink': Sink(sch, mfaults, {None: 0, '': 1} if 'routes' in hints else None),
                'intr': None if intr is None else intr[1], 'made': 0, 'make_tests': make_tests,
                'st': {'gets': 0, 'spawned': [], 'joined': [], 'result': None, 'live': []},
                'schedule': [0 if t == 0 else (base + t if t <= len(wspecs) else -1) for t in schedule]}

    def execute_runs(self, runs, overlap=False):
        """run() once per element of `runs` on ONE suite object, in one caller thread (tid 0).  Between two runs the caller either
        waits until every worker of the runs so far has ended (`overlap` false: what is left of the aborted run's schedule, then
        lowest-first, drives them) or goes straight on: the leftover workers then finish WHILE the next run goes on, following
        their own run's schedule (scheduler lanes)"""
        import testtools
        import testtools.testsuite as ts
        sch = S.Scheduler([])
        cur = {}
        envs = []
        made = {}

        def on_get(q):
            env = cur['env']
            if S.current_tid() == 0:
                k = env['st']['gets']
                env['st']['gets'] += 1
                if k == env['intr']:
                    sch.yield_point()
                    raise Interrupt()

        class Thread(S.SchedThread):
            def __init__(self, target=None, args=()):
                env = cur['env']
                env['made'] += 1
                self.env, self.local = env, env['made'] - 1                     # the k-th thread a run() creates is its worker k
                S.SchedThread.__init__(self, sch, target, args, env['base'] + env['made'])
                made[self.tid] = self

            def start(self):
                self.s.yield_point()
                self.env['st']['spawned'].append(self.local)
                self.s.spawn(self.tid, lambda: self.target(*self.args), by=S.current_tid())

            def join(self, timeout=None):
                S.SchedThread.join(self)
                self.env['st']['joined'].append(self.local)

        make_tests = lambda *a: cur['env']['make_tests']()
        flavour = runs[0][0]
        wrap = any('wrap' in (r[7] if len(r) > 7 else []) for r in runs)

        def caller():
            if flavour == 'suite':
                if wrap:
                    from testtools.testresult.real import TestResultDecorator
                    suite = testtools.ConcurrentTestSuite(unittest.TestSuite(), make_tests, wrap_result=lambda r, i: TestResultDecorator(r))
                else:
                    suite = testtools.ConcurrentTestSuite(unittest.TestSuite(), make_tests)
            else:
                suite = testtools.ConcurrentStreamTestSuite(make_tests)
            base = 0
            for k, inp in enumerate(runs):
                env = self.build_env(inp, sch, base)
                base += env['n']
                if k > 0 and not overlap:           # join the leftover workers first
                    old = [g for e in envs for g in range(e['base'] + 1, e['base'] + e['made'] + 1)]
                    if any(g not in sch.done for g in old):
                        sch.yield_point(lambda: all(g in sch.done for g in old))
                envs.append(env)
                cur['env'] = env
                if k == 0:
                    sch.lanes[0]['schedule'] = env['schedule']
                else:
                    sch.new_lane(env['schedule'])
                st = env['st']
                try:
                    suite.run(env['target'] if flavour == 'suite' else env['sink'])
                    st['result'] = 'returned'
                except Interrupt:
                    st['result'] = ['raised', 'interrupt']
                except MakeTestsError:
                    st['result'] = ['raised', 'makeTests']
                except S.INJECTED:
                    st['result'] = ['raised', 'injected']
                st['live'] = [w for w in st['spawned'] if (env['base'] + w + 1) not in sch.done]

        saved = ts.threading, ts.Queue
        ts.threading = types.SimpleNamespace(Thread=Thread, Semaphore=lambda n=1: cur['env']['sem'], current_thread=lambda: made[S.current_tid()])
        ts.Queue = lambda: S.SchedQueue(sch, on_get)
        try:
            sch.spawn(0, caller)
            dl = sch.run()
        finally:
            ts.threading, ts.Queue = saved
        return sch, envs, dl

    def execute(self, inp):
        sch, envs, dl = self.execute_runs([inp])
        e = envs[0]
        return sch, e['log'], e['sink'], e['rec'], e['st'], dl

    def run_trace(self, sch, env, dl):
        """the trace of one run of a history, in its own (local) thread numbering"""
        g2l = {0: 0}
        for w in range(env['n']):
            g2l[env['base'] + w + 1] = w + 1
        died = []
        for w in range(env['n']):
            e = sch.errors.get(env['base'] + w + 1)
            if e is not None and not isinstance(e, S.INJECTED):
                return ['raised', type(e).__name__]
            died.append(e is not None)
        flags = []
        for w in range(env['n']):
            r = env['rec'].get(w, {}).get('result')
            flags.append(bool(r.shouldStop) if (r is not None and env['flavour'] == 'stream') else False)
        st = env['st']
        log = [[g2l.get(e[0], 99999)] + list(e[1:]) for e in env['log']]
        finished = dl is None and 0 in sch.done and all((env['base'] + w + 1) in sch.done for w in st['spawned'])
        return [log, env['sink'].events, st['result'], st['spawned'], st['joined'], st['live'],
                [env['rec'].get(w, {}).get('runs', 0) for w in range(env['n'])], flags, died, finished]

    def run_impl(self, inp):
        hist = inp[0] == 'history'
        runs = inp[1] if hist else [inp]
        try:
            sch, envs, dl = self.execute_runs(runs, overlap=hist and len(inp) > 2 and 'overlap' in inp[2])
        except S.Hang:
            return ['harness-hang', 'scheduler']
        if 0 in sch.errors:
            return ['raised', type(sch.errors[0]).__name__]
        if len(envs) != len(runs):
            return ['raised', 'history-cut-short']
        traces = [self.run_trace(sch, e, dl) for e in envs]
        for t in traces:
            if len(t) == 2:
                return t
        self.stats[id(inp)] = (sch.skipped, len(sch.picks))
        return traces[0] if not hist else ['runs', traces]

    def step_counts(self, inp):
        sch, *_ = self.execute(inp[:6] + [[]])
        return tuple(sch.picks.count(i) for i in range(len(inp[1]) + 1))

    # ----- generators
    def gen_event(self, rng):
        kind = ['st', rng.choice(STATUSES)] if rng.random() < 0.7 else ['file', rng.random() < 0.5]
        tags = rng.choice([None, None, some([]), some(sorted(rng.sample(range(4), rng.choice([1, 2]))))])
        ts = rng.choice(['omitted', 'explicitNone', 'explicitNone', ['given', rng.randrange(50)], ['given', rng.randrange(50)]])
        return [rng.randrange(3), kind, tags, ts]

    def gen_worker(self, rng, flavour, fault_p, stock_p=0):
        tests = [[rng.choice(KINDS), sorted(rng.sample(range(4), rng.choice([0, 0, 0, 1, 2])))] for _ in range(rng.choice([0, 1, 1, 2, 2, 3]))]
        if flavour == 'stream':
            for t in tests:
                if rng.random() < 0.4:      # a test that emits stream events itself
                    t.append([self.gen_event(rng) for _ in range(rng.choice([0, 1, 2, 2, 3]))])
        boom = rng.random() < 0.25
        faults = []
        if flavour == 'suite' and rng.random() < fault_p:
            up = 8 * (len(tests) + 1)
            faults = sorted(set(rng.randrange(up) for _ in range(rng.choice([1, 1, 2]))))
        if flavour == 'suite' and rng.random() < stock_p:
            return [tests, boom, faults, True]
        return [tests, boom, faults]

    def gen_config(self, rng):
        flavour = rng.choice(['suite', 'stream'])
        n = rng.choice([0, 1, 2, 2, 2, 3, 3, 4])
        fault_p = rng.choice([0, 0, 0.3, 0.6])
        stock_p = rng.choice([0, 0, 0, 0.5, 1])
        workers = [self.gen_worker(rng, flavour, fault_p, stock_p) for _ in range(n)]
        mode = rng.random()
        mk = intr = None
        mfaults = []
        if mode < 0.15:
            mk = some(rng.randrange(n + 2))
        elif mode < 0.35:
            intr = some(rng.randrange(2 * n + 3 if flavour == 'suite' else 8 * n + 2))
        elif mode < 0.55:
            if flavour == 'stream':
                mfaults = sorted(set(rng.randrange(6 * n + 1) for _ in range(rng.choice([1, 1, 2]))))
            else:   # a stop() of the abort path raises: needs an abort
                mfaults = sorted(set(rng.randrange(n + 1) for _ in range(rng.choice([1, 2]))))
                if rng.random() < 0.5:
                    mk = some(rng.randrange(n + 2))
                else:
                    intr = some(rng.randrange(2 * n + 2))
        return [flavour, workers, mk, intr, mfaults, self.tb()]

    def gen_schedule(self, rng, cfg):
        n = len(cfg[1]) + 1
        per = 10 if cfg[0] == 'suite' else 6
        total = sum(per * len(w[0]) + 12 for w in cfg[1]) + 6
        mode = rng.random()
        if mode < 0.4:
            return [rng.randrange(n) for _ in range(rng.randrange(total + 1))]
        if mode < 0.75:
            out = []
            while len(out) < total:
                out += [rng.randrange(n)] * rng.choice([1, 1, 2, 3, 5, 8, 13])
            return out[:rng.randrange(total + 1)]
        if mode < 0.95:
            out = []
            for _ in range(rng.choice([1, 2, 3, 4])):
                out += [rng.randrange(n)] * rng.randrange(1, 14)
            return out
        return []

    def base_configs(self):
        tb = self.tb()
        t = lambda k='success', tags=(): [k, list(tags)]
        return [
            ['suite', [[[t()], False, []], [[t('error', [1])], False, []]], None, None, [], tb],
            ['stream', [[[t()], False, []], [[t('skip')], True, []]], None, None, [], tb],
            ['suite', [[[t()], True, []], [[], False, []]], None, some(1), [], tb],
            ['stream', [[[t()], False, []], [[t('failure')], False, []]], None, None, [2], tb],
            ['stream', [[[t()], False, []], [[], False, []]], some(2), None, [], tb],
            ['suite', [[[t('xfail')], False, [1]], [[t()], False, []]], some(2), None, [0], tb],
            ['stream', [[[t('success', [2])], False, []],
                        [[['success', [], [[0, ['st', 'inprogress'], None, 'explicitNone'], [0, ['file', True], some([1]), ['given', 7]],
                                           [0, ['st', 'success'], some([]), 'omitted']]]], True, []]], None, None, [], tb],
            # stock unittest.TestSuite partitions (they poll shouldStop): one breaks, the other's first poll raises
            ['suite', [[[t('failure', [1])], True, [], True], [[t()], False, [0], True]], None, None, [], tb],
            # (a 7th component = realisation hints)  one object yielded twice / unhashable, equal suites / equal cases with an abort
            ['suite', [[[t()], False, []], [[t()], False, []]], None, None, [], tb, ['sameObject']],
            ['suite', [[[], False, []], [[], False, []]], None, None, [], tb, ['testSuites']],
            ['suite', [[[t()], False, []], [[t('error')], False, []]], None, some(1), [0], tb, ['equalCases']],
            # make_tests gives both workers the SAME route code (here None): the caller cannot tell them apart by anything but the events
            ['stream', [[[t()], False, []], [[t()], True, []]], None, None, [], tb, [['routeCodes', [0, 0]], 'routes']],
            ['stream', [[[t('skip')], False, []], [[], False, []]], None, None, [1], tb, [['routeCodes', [1, 1]]]],
        ]

    def systematic(self, configs, k):
        for cfg in configs:
            cfg, hints = cfg[:6], cfg[6:]
            counts = self.step_counts(cfg + [[]])
            for s in schedules(counts, None, k):
                yield cfg + [s] + hints

    def gen(self, rng, tier):
        if self._sys is None:
            its = [self.systematic([c], 2) for c in self.base_configs()]

            def round_robin():
                live = list(its)
                while live:
                    for it in list(live):
                        x = next(it, None)
                        if x is None:
                            live.remove(it)
                        else:
                            yield x
            self._sys = round_robin()
            self._sys_left = self.budgets[tier] // 2 if tier == 'quick' else 0
        if self._sys_left > 0:
            self._sys_left -= 1
            nxt = next(self._sys, None)
            if nxt is not None:
                return nxt
            self._sys_left = 0
        if rng.random() < 0.3:      # a HISTORY of 2-3 run() calls on one suite object, the earlier ones mostly aborted
            flavour = rng.choice(['suite', 'stream'])
            k = rng.choice([2, 2, 2, 3])
            runs = []
            for j in range(k):
                r = self.gen_run(rng, flavour, abort_bias=(j < k - 1))
                if flavour == 'suite':      # wrap_result is a property of the suite object: all runs or none
                    h = [x for x in (r[7] if len(r) > 7 else []) if x != 'wrap']
                    r = r[:7] + ([h] if h else [])
                runs.append(r)
            return ['history', runs] + ([['overlap']] if rng.random() < 0.5 else [])
        return self.gen_run(rng)

    def gen_run(self, rng, flavour=None, abort_bias=False):
        for _ in range(50):
            cfg = self.gen_config(rng)
            if (flavour is None or cfg[0] == flavour) and (not abort_bias or rng.random() < 0.25 or cfg[2] is not None or cfg[3] is not None or cfg[4]):
                break
        hints = [h for h in (['routes', 'emptyId'] if cfg[0] == 'stream' else ['wrap', 'emptyId']) if rng.random() < 0.25]
        if cfg[0] == 'stream' and len(cfg[1]) >= 2 and rng.random() < 0.4:
            k = rng.choice([1, 1, 2, 2, 3])     # route codes from a small alphabet, WITH repetition (make_tests may hand out None to everyone)
            hints.append(['routeCodes', [rng.randrange(k) for _ in cfg[1]]])
        kind = rng.random()         # what kind of object a sub-suite is (both flavours; the suite flavour used to key a dict by it)
        if kind < 0.25:
            hints.append('testSuites')
        elif kind < 0.5:
            hints.append('equalCases')
        if rng.random() < 0.3 and len(cfg[1]) >= 2:
            hints.append('sameObject')      # some workers share one script, hence - under this hint - one object
            for w in cfg[1][1:]:
                if rng.random() < 0.7:
                    w[0], w[1] = [list(t) for t in cfg[1][0][0]], cfg[1][0][1]
        return cfg + [self.gen_schedule(rng, cfg)] + ([hints] if hints else [])

    def enumerate(self, tier):
        tb = self.tb()
        t = lambda k='success', tags=(): [k, list(tags)]
        two_suite = ['suite', [[[t(), t('error')], False, []], [[t('skip', [1])], True, []]], None, None, [], tb]
        two_stream = ['stream', [[[t(), t('error')], False, []], [[t('skip')], True, []]], None, None, [], tb]
        yield from self.systematic([two_suite, two_stream], 2)
        three = [['suite', [[[t()], False, []], [[t('failure')], False, []], [[], True, []]], None, None, [], tb],
                 ['stream', [[[t()], False, []], [[t('failure')], False, []], [[], True, []]], None, None, [], tb]]
        yield from self.systematic(three, 1)
        # every single fault position for 2 workers, <= 1 pre-emption
        native = ['stream', [[[t('success', [2])], False, []],
                             [[['success', [], [[0, ['st', 'inprogress'], None, 'explicitNone'], [0, ['file', True], some([1]), ['given', 7]],
                                                [1, ['st', 'exists'], some([]), 'omitted']]]], True, []]], None, None, [], tb]
        yield from self.systematic([native], 1)
        small_suite = ['suite', [[[t()], False, []], [[t('error')], True, []]], None, None, [], tb]
        small_stream = ['stream', [[[t()], False, []], [[t('error')], True, []]], None, None, [], tb]
        for f in range(12):                       # the caller's StreamResult raises at main's f-th status call
            yield from self.systematic([small_stream[:4] + [[f], tb]], 1)
        for w in range(2):                        # the caller's TestResult raises at worker w's f-th call
            for f in range(12):
                ws = [[x[0], x[1], [f] if j == w else []] for j, x in enumerate(small_suite[1])]
                yield from self.systematic([['suite', ws, None, None, [], tb]], 1)
        for m in range(5):                        # interrupts, make_tests failures (with a raising stop)
            for base in (small_suite, small_stream):
                yield from self.systematic([base[:3] + [some(m), [], tb]], 1)
                if m <= 3:
                    yield from self.systematic([base[:2] + [some(m), None, [], tb]], 1)
            yield from self.systematic([small_suite[:2] + [some(2), None, [m % 2], tb]], 1)
        # histories: a run aborted at every position (<= 1 pre-emption in it), then a healthy run on the same suite object; the leftover
        # workers joined first / overlapping the second run
        for fl in ('stream', 'suite'):
            second = [fl, [[[t('skip')], False, []]], None, None, [], tb, []]
            first = [fl, [[[t()], False, []], [[t('error')], True, []]], None, None, [], tb]
            aborts = [first[:2] + [some(m), None, [], tb] for m in range(3)] + [first[:3] + [some(m), [], tb] for m in range(4)]
            if fl == 'stream':
                aborts += [first[:4] + [[f], tb] for f in range(0, 8, 2)]
            for ab in aborts:
                for run1 in self.systematic([ab], 1):
                    yield ['history', [run1, second]]
                    yield ['history', [run1, second], ['overlap']]
        # stock unittest.TestSuite partitions (shouldStop read before every element): <= 2 pre-emptions; every single fault position
        # (incl. each read), interrupts and make_tests failures with <= 1
        stock = ['suite', [[[t()], False, [], True], [[t('error', [1])], True, [], True]], None, None, [], tb]
        yield from self.systematic([stock], 1)
        for w in range(2):
            for f in range(13):
                ws = [[x[0], x[1], [f] if j == w else [], True] for j, x in enumerate(stock[1])]
                yield from self.systematic([['suite', ws, None, None, [], tb]], 1)
        for m in range(4):
            yield from self.systematic([stock[:3] + [some(m), [m % 2], tb]], 1)
        # equal route codes (stream): <= 2 pre-emptions; every position of a raising status() call, of an interrupt, of a make_tests failure
        for hints in ([['routeCodes', [0, 0]]], [['routeCodes', [0, 0]], 'routes']):
            shared = ['stream', [[[t()], False, []], [[t('error')], True, []]], None, None, [], tb, hints]
            yield from self.systematic([shared], 2 if len(hints) == 1 else 1)
            if len(hints) > 1:
                continue
            for f in range(12):
                yield from self.systematic([shared[:4] + [[f], tb, hints]], 1)
            for m in range(5):
                yield from self.systematic([shared[:3] + [some(m), [], tb, hints]], 1)
                if m <= 3:
                    yield from self.systematic([shared[:2] + [some(m), None, [], tb, hints]], 1)
        three_shared = ['stream', [[[t()], False, []], [[t()], False, []], [[t('skip')], False, []]], None, None, [], tb, [['routeCodes', [0, 1, 0]]]]
        yield from self.systematic([three_shared], 1)
        # what kind of object the sub-suites are: equal cases, one object twice, unhashable suites - with and without an abort
        for hint in ('equalCases', 'sameObject', 'testSuites'):
            same = ['suite', [[[t('failure')], False, []], [[t('failure')], False, []]], None, None, [], tb, [hint]]
            yield from self.systematic([same], 2 if hint == 'equalCases' else 1)
            for m in range(4):
                yield from self.systematic([same[:3] + [some(m), [1], tb, [hint]]], 1)

    # ----- evidence
    def nontrivial(self, inp, trace):
        if inp[0] == 'history':
            return isinstance(trace, list) and len(trace) == 2 and trace[0] == 'runs' and isinstance(trace[1], list) \
                and any(self.nontrivial(r, t) for r, t in zip(inp[1], trace[1]))
        return isinstance(trace, list) and len(trace) == 10 and isinstance(trace[3], list) and len(trace[3]) >= 2

    def features(self, inp, trace):
        if inp[0] == 'history':
            runs = inp[1]
            ok = isinstance(trace, list) and len(trace) == 2 and trace[0] == 'runs' and isinstance(trace[1], list) and len(trace[1]) == len(runs)
            f = ['history-runs=%d' % len(runs), 'history:' + ('leftovers-overlap-next-run' if (len(inp) > 2 and 'overlap' in inp[2]) else 'leftovers-joined-first')]
            if not ok:
                return f + ['trace:' + (str(trace[0]) if isinstance(trace, list) and trace else '?')]
            for k, (r, t) in enumerate(zip(runs, trace[1])):
                f += [x for x in self.features(r, t) if not x.startswith('disabled-picks')]
                if k + 1 < len(runs) and isinstance(t, list) and len(t) == 10:
                    res = t[2]
                    if res != 'returned':
                        f.append('run-after-aborted-run')
                        if t[5]:
                            f.append('run-after-abort-with-live-workers')
                    else:
                        f.append('run-after-returned-run')
            return sorted(set(f))
        flavour, workers, mk, intr, mfaults, tb, schedule = inp[:7]
        f = ['hint:' + h for h in (inp[7] if len(inp) > 7 else []) if isinstance(h, str)] + ['flavour=' + flavour, 'workers=%d' % len(workers), 'tests=%s' % min(sum(len(w[0]) for w in workers), 7)]
        nat = [ev for w in workers for t in w[0] if len(t) == 3 for ev in t[2]]
        if flavour == 'stream' and any(len(t) == 3 for w in workers for t in w[0]):
            f.append('native-emitter')
            f.append('native-events=%s' % min(len(nat), 6))
            for ev in nat:
                f.append('native-ts:' + (ev[3] if isinstance(ev[3], str) else 'given'))
                f.append('native-kind:' + (ev[1][1] if ev[1][0] == 'st' else 'file'))
        hs = inp[7] if len(inp) > 7 else []
        codes = next((h[1] for h in hs if isinstance(h, list) and h[0] == 'routeCodes'), None)
        if codes is not None and flavour == 'stream':
            cs = codes[:len(workers)]
            f.append('route-codes-given')
            if len(set(cs)) < len(cs):
                f.append('shared-route-code')
                dup = {c for c in cs if cs.count(c) > 1}
                if 'routes' in hs and 0 in dup:
                    f.append('shared-route-code=None')
                if 'routes' in hs and 1 in dup:
                    f.append("shared-route-code=''")
                if isinstance(trace, list) and len(trace) == 10 and isinstance(trace[3], list) \
                        and any(sum(1 for w in trace[3] if w < len(cs) and cs[w] == c) > 1 for c in dup):
                    f.append('two-started-workers-share-a-route-code')
        if 'sameObject' in hs and len(set(repr(w[:2]) for w in workers)) < len(workers):
            f.append('one-object-yielded-twice')
        if 'testSuites' in hs and sum(1 for w in workers if not w[0]) >= 2:
            f.append('equal-empty-TestSuites')
        if any(len(w) > 3 and w[3] for w in workers):
            f.append('stock-TestSuite(polls shouldStop)')
        if any(w[1] for w in workers):
            f.append('boom-worker')
        if any(w[2] for w in workers):
            f.append('worker-faults')
        if mk is not None:
            f.append('make_tests-raises')
        if intr is not None:
            f.append('interrupt-planned')
        if mfaults:
            f.append('main-faults-planned')
        st = self.stats.pop(id(inp), None)
        if st:
            f.append('disabled-picks=%s' % ('0' if st[0] == 0 else '1+'))
        if isinstance(trace, list) and len(trace) == 10:
            res = trace[2]
            f.append('result=' + (res if isinstance(res, str) else 'none' if res is None else 'raised-' + res[1]))
            f.append('spawned=%d' % len(trace[3]))
            f.append('live-at-return=%s' % ('0' if not trace[5] else '1+'))
            if res is not None and not isinstance(res, str):
                reg = [w for w in trace[3] if w not in trace[4]]
                f.append('registered-at-abort=%d' % len(reg))
                if flavour == 'stream' and any(not trace[7][w] for w in reg):
                    f.append('STOP-FLAG-LOST')
                if flavour == 'suite':
                    f.append('main-stop-calls=%d' % sum(1 for e in trace[0] if e[0] == 0 and e[1] == 'call'))
            if any(trace[8]):
                f.append('worker-thread-died')
            if flavour == 'suite':
                owners = [e[0] for e in trace[0] if e[1] == 'acq']
                sw = sum(1 for a, b in zip(owners, owners[1:]) if a != b)
                f.append('section-switches=%s' % (sw if sw < 6 else '6+'))
                if any(e[1] == 'call' and e[3] for e in trace[0]):
                    f.append('target-raised')
            else:
                if any(e[0][4] is not None for e in trace[1]):
                    f.append('delivered-given-instant')
                if any(not e[1] for e in trace[1]):
                    f.append('DELIVERED-WITHOUT-TIMESTAMP')
                ws = [e[0][0] for e in trace[1]]
                sw = sum(1 for a, b in zip(ws, ws[1:]) if a != b)
                f.append('sink-switches=%s' % (sw if sw < 6 else '6+'))
                if any(e[0][1] == 'broken' for e in trace[1]):
                    f.append('broken-runner-delivered')
            if any(e[1] == 'call' and not isinstance(e[2], str) and e[2][0] == 'outcome' and e[2][2] == 'broken' for e in trace[0]):
                f.append('broken-runner-delivered')
            if not trace[9]:
                f.append('DEADLOCK')
        else:
            f.append('trace:' + (str(trace[0]) if isinstance(trace, list) and trace else '?'))
        return f

    def shrink(self, inp):
        if inp[0] == 'history':
            runs, hh = inp[1], inp[2:]
            if len(runs) == 1:
                yield runs[0]
            for j in range(len(runs)):                   # drop a run
                if len(runs) > 1:
                    yield ['history', runs[:j] + runs[j + 1:]] + hh
            if hh:
                yield ['history', runs]                  # join the leftovers first
            for j in range(len(runs)):
                for cand in self.shrink(runs[j]):
                    yield ['history', runs[:j] + [cand] + runs[j + 1:]] + hh
            return
        hints = inp[7] if len(inp) > 7 else []
        for j in range(len(hints)):                      # drop a realisation hint
            h = hints[:j] + hints[j + 1:]
            yield inp[:7] + ([h] if h else [])
        workers = inp[1]
        for cand in self.shrink7(inp[:7]):
            h = hints
            if len(cand[1]) < len(workers):             # a worker was dropped: its route code goes with it
                i = next((k for k in range(len(cand[1])) if cand[1][k] != workers[k]), len(cand[1]))
                h = [[x[0], x[1][:i] + x[1][i + 1:]] if (isinstance(x, list) and x[0] == 'routeCodes') else x for x in hints]
            yield cand + ([h] if h else [])
        for j, x in enumerate(hints):                   # route codes: make one worker's code its own
            if isinstance(x, list) and x[0] == 'routeCodes':
                for k in range(len(x[1])):
                    fresh = max(x[1] + [len(workers)]) + 1
                    yield inp[:7] + [hints[:j] + [[x[0], x[1][:k] + [fresh] + x[1][k + 1:]]] + hints[j + 1:]]

    def shrink7(self, inp):
        flavour, workers, mk, intr, mfaults, tb, schedule = inp
        n = len(workers)
        for i in range(n):                       # drop a worker
            yield [flavour, workers[:i] + workers[i + 1:], mk, intr, mfaults, tb, [x - (x > i + 1) for x in schedule if x != i + 1]]
        for i, w in enumerate(workers):
            rest = lambda nw: [flavour, workers[:i] + [nw] + workers[i + 1:], mk, intr, mfaults, tb, schedule]
            for j in range(len(w[0])):
                yield rest([w[0][:j] + w[0][j + 1:], w[1], w[2]] + w[3:])
                if len(w[0][j]) == 3:             # native emitter: fewer / plainer events, or an API test instead
                    t = w[0][j]
                    repl = lambda nt: rest([w[0][:j] + [nt] + w[0][j + 1:], w[1], w[2]] + w[3:])
                    yield repl(t[:2])
                    for k in range(len(t[2])):
                        yield repl([t[0], t[1], t[2][:k] + t[2][k + 1:]])
                        ev = t[2][k]
                        if ev[2] is not None:
                            yield repl([t[0], t[1], t[2][:k] + [[ev[0], ev[1], None, ev[3]]] + t[2][k + 1:]])
                        if ev[3] != 'omitted' and ev[3] != 'explicitNone':
                            yield repl([t[0], t[1], t[2][:k] + [[ev[0], ev[1], ev[2], 'omitted']] + t[2][k + 1:]])
                if w[0][j][1]:
                    yield rest([w[0][:j] + [[w[0][j][0], []] + w[0][j][2:]] + w[0][j + 1:], w[1], w[2]] + w[3:])
            if w[1]:
                yield rest([w[0], False, w[2]] + w[3:])
            for j in range(len(w[2])):
                yield rest([w[0], w[1], w[2][:j] + w[2][j + 1:]] + w[3:])
            if len(w) > 3:                       # an ordinary sub-suite instead of a stock TestSuite
                yield rest(w[:3])
        if mk is not None:
            yield [flavour, workers, None, intr, mfaults, tb, schedule]
        if intr is not None:
            yield [flavour, workers, mk, None, mfaults, tb, schedule]
        for j in range(len(mfaults)):
            yield [flavour, workers, mk, intr, mfaults[:j] + mfaults[j + 1:], tb, schedule]
        if schedule:
            yield [flavour, workers, mk, intr, mfaults, tb, []]
            yield [flavour, workers, mk, intr, mfaults, tb, schedule[:len(schedule) // 2]]
            for j in range(len(schedule)):
                yield [flavour, workers, mk, intr, mfaults, tb, schedule[:j] + schedule[j + 1:]]


PROP = C13()
