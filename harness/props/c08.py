"""C08 - result adapters deliver each call once, at the richest protocol the target has.
Input : [shape, history] or [shape, history, faults]   (formats: harness/props/res_common.py, lean/TTV/Drv/Res.lean);
        faults = tests for which the on_test callback of the TestByTestResult raises (linear stacks over one only)
Trace : [[log, callbacks] per leaf, left to right]   log = [[call, current-tags] ...], callbacks of TestByTestResult =
        [test, status, start, stop, tags, details]
"""
import ast, os
from harness.core import Prop, chars
from harness.props import res_common as R


class C08(Prop):
    id = 'C08'
    budgets = {'quick': 6000, 'thorough': 60000}
    time_limit = {'quick': 60, 'thorough': 900}
    rule = ('random adapter graphs (depth 1-4, MultiTestResult fan-out 1-3) of ExtendedToOriginalDecorator / TestResultDecorator / Tagger / '
            'ThreadsafeForwardingResult / MultiTestResult over recording results of five flavours (2.6, 2.7, Twisted, extended, '
            'testtools.TestResult) and TestByTestResult; histories of 0-5 tests x 1-2 runs with tags/time/stop/done/progress between, '
            'outcomes as exc_info / reason / details dicts (0-3 text or binary attachments incl. whitespace, newlines, the names traceback '
            'and reason), tests being TestCase / PlaceHolder / ErrorHolder; 15% of the histories are damaged (call dropped, doubled or '
            'swapped) and 8% of the tests report a second outcome inside the same startTest/stopTest when no TestByTestResult is in the graph; attachments named reason may be non-text; 12% of the cases are linear stacks (0-3 ExtendedToOriginalDecorator / '
            'TestResultDecorator / Tagger layers) over a TestByTestResult whose on_test callback raises for a random subset of the tests '
            '(the harness catches the exception at the caller and carries on); 30% of the Taggers only remove tags (from the pool the '
            'histories use at run level). thorough adds every 1- and 2-test history (6 outcomes x 3 argument forms) '
            'over every graph of depth <= 2 (MultiTestResult with <= 2 targets). non-trivial = at least one adapter above a leaf and at '
            'least one outcome; distinct = distinct input S-expression')
    assumptions = ['the recording results of the 2.6 / 2.7 / Twisted / extended flavours are the harness\'s own classes (after testtools.testresult.doubles, with the real signatures - trial\'s todo=None - and every argument received recorded as part of the event); '
                   'testtools.TestResult / TestByTestResult are observed through subclasses that log every call before the upcall',
                   'CPython semantics of getattr probing, try/except TypeError protocol negotiation, dict order, str.strip (whitespace table in '
                   'TTV/Model/Result.lean isSpace) and sorted() on str are modelled, not verified',
                   'exceptions escaping a result are not modelled: inputs on which the real code raises are outside the domain - except a raising '
                   'on_test callback of a TestByTestResult under a linear stack (no MultiTestResult / ThreadsafeForwardingResult above it): the '
                   'exception is caught by the caller, which goes on reporting; every exception caught must come from a recorded callback',
                   'Content objects are reduced to text (decoded) / non-text (rendered content type) / traceback; text that cannot be encoded for '
                   'rendering (lone surrogates in messages) is outside the alphabet']

    manifest = {
        'text': 'Theorems for all adapter graphs (any depth / fan-out) of ExtendedToOriginalDecorator, TestResultDecorator, Tagger, '
                'ThreadsafeForwardingResult, MultiTestResult over 2.6 / 2.7 / Twisted / extended / testtools.TestResult / TestByTestResult '
                'leaves and all call histories: every leaf receives the startTest / outcome / stopTest events of the history exactly once and '
                'in order, degraded only by the fixed table (skip, xfail -> success on 2.6; unexpected success -> failure; details -> '
                '_StringException / reason); the degradation never makes a failing outcome passing; _details_to_str (modelled exactly over '
                'code points) contains every non-empty text detail; TestByTestResult calls back once per stopTest with test, status word, '
                'details (an empty details dict is details), times and tags - also when the callback raises for some tests (linear stacks): later callbacks carry their own test\'s tags.  The hand-written model is tied to the code by a differential check (random + bounded-exhaustive '
                'graphs x histories) and by the extracted status-word table.',
        'note': 'trusted: Lean kernel, the model TTV/Model/Result.lean, the harness (own recording results of the old flavours); exceptions escaping a result, getattr / TypeError protocol '
                'negotiation and str.strip are modelled, not verified',
        'technique': 'Lean 4 proofs by induction on the adapter tree (state type computed from the shape) and on the call history; executable '
                     'spec shared with a differential correspondence check',
    }

    def extract_tables(self, repo):
        """status word that each TestByTestResult.add* assigns to self._status (tie 1)"""
        src = open(os.path.join(repo, 'testtools', 'testresult', 'real.py')).read()
        words = {}
        for node in ast.walk(ast.parse(src)):
            if isinstance(node, ast.ClassDef) and node.name == 'TestByTestResult':
                for f in node.body:
                    if isinstance(f, ast.FunctionDef) and f.name.startswith('add'):
                        for st in ast.walk(f):
                            if (isinstance(st, ast.Assign) and isinstance(st.targets[0], ast.Attribute) and st.targets[0].attr == '_status'
                                    and isinstance(st.value, ast.Constant)):
                                words[f.name] = st.value.value
        if len(words) != 6:
            raise RuntimeError('TestByTestResult status words not found: %r' % words)
        rows = ', '.join('("%s", "%s")' % (m, words[m]) for m in sorted(words))
        text = ('/-! GENERATED by harness/props/c08.py from testtools/testresult/real.py (class TestByTestResult): the status word each\n'
                'outcome method reports to the callback.  Do not edit. -/\n'
                'namespace TTV.Generated.C08\n'
                'def tbtStatusWords : List (String × String) := [%s]\n'
                'end TTV.Generated.C08\n' % rows)
        from harness.pyres2lean import emit_c08      # translator tie (DESIGN D.2a 2e)
        return {'TTV/Generated/C08.lean': text, 'TTV/Generated/EtodSrc.lean': emit_c08(repo)}

    # ----- implementation side
    def run_impl(self, inp):
        shape, hist = inp[:2]
        faults = set(inp[2]) if len(inp) > 2 else set()
        try:
            g = R.Graph(shape)
            for l in g.leaves:
                if hasattr(l, '_faults'):
                    l._faults = faults
            caught = []
            for c in hist:
                try:
                    g.apply(c)
                except R.CallbackFault as e:
                    if c[0] != 'stopTest' or c[1] != e.n:
                        return ['raised', 'CallbackFault-at-' + c[0]]
                    caught.append(e.n)
            if faults:
                # every faulting callback reached the caller, once, in order - and nothing else did
                expected = [call[0] for l in g.leaves for call in getattr(l, '_calls', []) if call[0] in faults]
                if caught != expected:
                    return ['raised', 'CallbackFault-lost']
            return [[l._log, getattr(l, '_calls', [])] for l in g.leaves]
        except Exception as e:
            return ['raised', type(e).__name__]

    # ----- generators
    def gen_hist(self, rng, shape, kinds):
        has_tbt = 'tbt' in kinds
        h = []
        tid = [rng.randrange(0, 8)]

        def noise(p, inside):
            while rng.random() < p:
                r = rng.random()
                if r < 0.45:
                    h.append(R.gen_tags_call(rng))
                elif r < 0.75:
                    h.append(['time', rng.choice([None, ['at', rng.randrange(0, 20)]])])
                elif r < 0.85:
                    h.append(['stop'])
                elif r < 0.92 and R.can_done(shape):
                    h.append(['done'])
                elif r < 0.97 and R.can_progress(shape):
                    h.append(['progress'])
                elif not inside:
                    h.append(['setFailfast', rng.random() < 0.5])
        for run in range(rng.choice([1, 1, 1, 2])):
            noise(0.2, False)
            if rng.random() < 0.85:
                h.append(['startTestRun'])
            for _ in range(rng.choice([0, 1, 1, 2, 2, 3, 4, 5])):
                noise(0.3, False)
                t = tid[0] = (tid[0] + rng.choice([0, 1, 1, 2, 3])) % 12
                kind = rng.choice(R.KINDS)
                arg = R.gen_arg(rng, kind)
                h.append(['startTest', t])
                noise(0.3, True)
                h.append(['add', kind, t, arg])
                noise(0.2, True)
                if not has_tbt and rng.random() < 0.08:
                    # a second outcome inside the same bracket (unittest 3.12: failing body + failing tearDown)
                    k2 = rng.choice(['error', 'error', 'failure'])
                    h.append(['add', k2, t, R.gen_arg(rng, k2)])
                h.append(['stopTest', t])
            noise(0.2, False)
            if rng.random() < 0.85:
                h.append(['stopTestRun'])
        if not has_tbt and h and rng.random() < 0.15:
            i = rng.randrange(len(h))
            r = rng.random()
            if r < 0.4:
                del h[i]
            elif r < 0.7:
                h.insert(i, h[i])
            elif i + 1 < len(h):
                h[i], h[i + 1] = h[i + 1], h[i]
        return h

    def gen(self, rng, tier):
        shape = R.gen_shape(rng, rng.choice([1, 1, 2, 2, 3]), inner=('etod', 'deco', 'tagger', 'tfr', 'multi', 'multi'), fattr=0.15)
        while R.depth(shape) < 2 and rng.random() < 0.9:
            shape = R.gen_shape(rng, rng.choice([1, 2, 2, 3]), inner=('etod', 'deco', 'tagger', 'tfr', 'multi', 'multi'), fattr=0.15)
        if rng.random() < 0.12:
            # a linear stack over a TestByTestResult whose callback raises for some tests
            shape = ['tbt']
            for _ in range(rng.choice([0, 0, 1, 1, 2, 3])):
                k = rng.choice(['etod', 'deco', 'tagger'])
                shape = R.gen_tagger(rng, shape) if k == 'tagger' else [k, shape]
            hist = self.gen_hist(rng, shape, R.kinds_in(shape))
            tests = sorted({c[1] for c in hist if c[0] == 'stopTest'})
            faults = [t for t in tests if rng.random() < 0.4]
            return [shape, hist, faults] if faults else [shape, hist]
        kinds = R.kinds_in(shape)
        return [shape, self.gen_hist(rng, shape, kinds)]

    def small_shapes(self):
        leaves = [['etod', ['sink', f]] for f in R.OLD] + [['sink', 'ext'], ['tt', False], ['tbt']]

        def targets(xs):
            return [x if x[0] == 'etod' and x[1][0] == 'sink' else ['etod', x] for x in xs]

        def wrap(xs, multi2):
            out = []
            for x in xs:
                out += [['etod', x], ['deco', x], ['tagger', [1], [], x], ['tfr', targets([x])[0]], ['multi', targets([x])[0]]]
            for a in multi2:
                for b in multi2:
                    out.append(['multi', targets([a])[0], targets([b])[0]])
            return out
        d1 = wrap(leaves, leaves)
        d2 = wrap(d1, [])
        return leaves + d1 + d2

    def enumerate(self, tier):
        forms = []
        for k in R.KINDS:
            forms.append((k, ['details', [[chars('log'), ['text', chars(' l1\nl2 ')]], [chars('traceback'), ['text', chars('tb')]]]]))
            forms.append((k, ['details', [[chars('reason'), ['text', chars('why')]]]]))
            forms.append((k, None if k in ('success', 'uxsuccess') else ['reason', chars('r')] if k == 'skip' else ['exc', 'real']))
        for shape in self.small_shapes():
            for k, a in forms:
                yield [shape, [['startTestRun'], ['startTest', 1], ['add', k, 1, a], ['stopTest', 1], ['stopTestRun']]]
            for k, a in forms[::3]:
                for k2, a2 in forms[2::3]:
                    yield [shape, [['startTest', 2], ['tags', [0], []], ['add', k, 2, a], ['stopTest', 2],
                                   ['time', ['at', 3]], ['startTest', 3], ['add', k2, 3, a2], ['stopTest', 3]]]

    def nontrivial(self, inp, trace):
        shape, hist = inp[:2]
        return R.depth(shape) >= 2 and any(c[0] == 'add' for c in hist)

    def features(self, inp, trace):
        shape, hist = inp[:2]
        kinds = R.kinds_in(shape)
        f = ['depth=%d' % R.depth(shape), 'leaves=%d' % len([k for k in kinds if k.startswith(('sink', 'fsink')) or k in ('tt', 'tbt', 'text')]),
             'calls=%s' % (len(hist) if len(hist) < 30 else '30+'), 'tests=%d' % len([c for c in hist if c[0] == 'startTest'])]
        f += ['node:' + k for k in sorted(set(kinds))]
        for c in hist:
            if c[0] == 'add':
                a = c[3]
                f.append('kind:' + c[1])
                f.append('arg:' + ('none' if a is None else a[0] if a[0] != 'details' else 'details%d' % min(len(a[1]), 3)))
            else:
                f.append('call:' + c[0])
        if trace and trace[0] == 'raised':
            f.append('raised:' + trace[1])
        if len(inp) > 2:
            stops = [c[1] for c in hist if c[0] == 'stopTest']
            first = min([i for i, t in enumerate(stops) if t in inp[2]] or [len(stops)])
            f += ['callback-raises', 'callback-raises:tests-after=%d' % min(len(stops) - first - 1, 3), 'callback-raises:root-' + shape[0]]
            if any(c[0] == 'tags' for c in hist) or 'tagger' in kinds:
                f.append('callback-raises+tags')
        return sorted(set(f))

    def shrink(self, inp):
        shape, hist = inp[:2]
        faults = inp[2] if len(inp) > 2 else []
        rest = [faults] if faults else []
        tbt = 'tbt' in R.kinds_in(shape)
        for i in range(len(faults)):
            yield [shape, hist] + ([faults[:i] + faults[i + 1:]] if len(faults) > 1 else [])
        starts = [i for i, c in enumerate(hist) if c[0] == 'startTest']
        for i in starts:      # a whole test at once (single calls cannot go when the history has to stay well-formed)
            j = next((j for j in range(i, len(hist)) if hist[j][0] == 'stopTest'), None)
            if j is not None:
                yield [shape, hist[:i] + hist[j + 1:]] + rest
        for h in R.shrink_hist(hist):
            if not tbt or R.wf_hist(h):     # TestByTestResult raises on stopTest without startTest: outside the domain
                yield [shape, h] + rest
        for s in R.shrink_shape(shape):
            if R.wf_shape(s) and (not faults or R.linear_tbt(s)):
                yield [s, hist] + rest


PROP = C08()
