"""Keyword names for the arguments of cleanups (`addCleanup(f, name=value)`).

A cleanup's keyword arguments travel through several functions of the library on their way to the cleanup: `TestCase.addCleanup`,
`RunTest._run_cleanups`, the runner's `_run_user` (one per runner class), Twisted's `maybeDeferred`, and on an error
`_got_user_exception` / `_got_user_failure`.  A keyword whose NAME equals a parameter name of one of those functions collides with it unless
that parameter is positional-only (seed C20-g dropped the `/` of `SynchronousDeferredRunTest._run_user`; the unchanged synchronous runner
passed the keywords to `maybeDeferred(f, ...)`: a cleanup keyword named `f` was a TypeError).  `names()` is the list the harnesses draw from:
a fixed core plus the parameter names of every function on the call path AS FOUND IN THE TREE UNDER TEST (inspect), so that a renamed
parameter is followed.  Used by harness/props/c20.py and the `kwfn` realisation hint of harness/mrun.py; harness/props/c14.py
(cleanup_kws: its fixed names as a floor plus one of the further names of this list)."""
import inspect

FIXED = ['self', 'function', 'fn', 'f', 'args', 'kwargs', 'result', 'callable', 'key']
_cache = None


def call_path():
    """the functions a cleanup's keyword arguments pass through (those importable in this environment)"""
    import testtools
    from testtools.runtest import RunTest
    fs = [testtools.TestCase.addCleanup, RunTest._run_cleanups, RunTest._run_user, RunTest._got_user_exception]
    try:
        from twisted.internet import defer
        from testtools.twistedsupport import AsynchronousDeferredRunTest, SynchronousDeferredRunTest
        fs += [SynchronousDeferredRunTest._run_user, AsynchronousDeferredRunTest._run_user, AsynchronousDeferredRunTest._run_cleanups,
               SynchronousDeferredRunTest._got_user_failure, defer.maybeDeferred]
    except ImportError:
        pass
    return fs


def names():
    global _cache
    if _cache is None:
        out = list(FIXED)
        for f in call_path():
            try:
                ps = list(inspect.signature(f).parameters)
            except (TypeError, ValueError):
                continue
            out += [p for p in ps if p not in out]
        _cache = out
    return list(_cache)
