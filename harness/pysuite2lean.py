"""Python -> Lean translator for the suite utilities of testtools (C19).

Run on every check of C19 (through `c19.extract_tables`): `iterate_tests`, `filter_by_ids`, `_flatten_tests`, `sorted_tests`
(testtools/testsuite.py) and the `--load-list` block of `TestProgram.__init__` (testtools/run.py) are re-read from the tree under
test and emitted as DATA of the types of `TTV/Model/SuiteUtilSkel.lean` into `TTV/Generated/SuiteSrc.lean`.  The interpreters there give
the data its meaning over the M-Suite tree model; `C19_src_*` (Props/C19.lean) prove that the hand-written `iterate`, `filterIds`,
`flatten`, `sortedTests` and the `--load-list` step ARE the interpretation of what was found in the source.

Recognised (anything else becomes `.unknown`, which no reference term contains, so the proofs break):
* `iterate_tests(x)`: `try: s = iter(x)` / `except TypeError: yield x` / `else: for t in s: yield from iterate_tests(t)`.
* `filter_by_ids(x, ids)`: a sequence of `if <test>:` cases and a final `return x`.  Tests: `hasattr(x, "filter_by_ids")` (also
  `safe_hasattr`), `hasattr(x, "id")`, `isinstance(x, unittest.TestSuite)`.  Actions: `return x.filter_by_ids(ids)`;
  `if x.id() in ids: return x else: return unittest.TestSuite()` (also without the `else`, or turned around with `not in`) - the replacement must be a NEW empty
  suite built by that very call expression, a name bound elsewhere is `keepIfIdIn false`; the in-place block `filtered = []; for item
  in x: filtered.append(filter_by_ids(item, ids)); x._tests[:] = filtered` (also as a list comprehension), falling through to the final return.
* `_flatten_tests(x, unpack_outer)`: `try: tests = iter(x)` / `except TypeError: return [(x.id(), x)]`; `if type(x) in (unittest.TestSuite,)
  or unpack_outer:` with the extend-recursion loop; `else:` a sequence of steps in the ORDER they occur: first-id loop, `if hasattr(x,
  "sort_tests"): x.sort_tests()`, `return [(suite_id, x)]`.
* `sorted_tests(x, unpack_outer)`: steps in order: duplicate check (`Counter(case.id() for case in iterate_tests(x))`, dict of counts > 1,
  `raise ValueError`), `tests = _flatten_tests(x, unpack_outer=unpack_outer)`, `tests.sort(key=lambda item: (item[0] is not None, item[0] or ""))`,
  `return unittest.TestSuite([test for (_, test) in tests])`.
* `TestProgram.__init__`: the statement `if self.load_list:` must come after `self.parseArgs(argv)` and before the `if not self.listtests:`
  that runs or lists; its body: open the file "rb", read the lines (try/finally close, or a `with` block), `test_ids = {line.strip().decode("utf-8")
  for line in lines}`, `self.test = filter_by_ids(self.test, test_ids)` - the ASSIGNMENT is what is recognised, a bare call is `.unknown`.
* `FixtureSuite.sort_tests(self)` - the library's own suite class with a `sort_tests` (the model's kind `csort`): exactly `self._tests =
  list(sorted_tests(self, True))` (`unpack_outer=True` / the `sorted_tests(self, True)._tests` spelling alike) = the suite's children become the
  ITEMS of sorted_tests of the suite itself with only the outer level unpacked - custom suites among them whole; the class must define nothing
  but __init__, run and sort_tests (no filter_by_ids, no __iter__).  Anything else (seed C19-f iterated the sorted suite down to its
  leaves) is `.unknown`.
Parameter and local names are taken from the source (renaming is harmless).
Trusted: this recogniser and that `TTV.SuiteUtilSkel.*I` read these forms as Python does.
"""
import ast, os
from harness.pydeferred2lean import find, body_of
from harness import pynorm
from harness.pynorm import canon


def u(x):
    return ast.unparse(x)


def nocomment(stmts):
    return [s for s in stmts if not (isinstance(s, ast.Expr) and isinstance(s.value, ast.Constant)) and not isinstance(s, ast.Pass)]


# ---------------------------------------------------------------- iterate_tests
def iterate_tests(fn):
    bad = '{ nonIterable := .unknown, iterable := .unknown }'
    ps = [a.arg for a in fn.args.args]
    b = body_of(fn)
    if len(ps) != 1 or len(b) != 1 or not isinstance(b[0], ast.Try):
        return bad
    x, t = ps[0], b[0]
    if t.finalbody or len(t.handlers) != 1 or len(t.body) != 1:
        return bad
    s = t.body[0]
    if not (isinstance(s, ast.Assign) and len(s.targets) == 1 and isinstance(s.targets[0], ast.Name) and u(s.value) == 'iter(%s)' % x):
        return bad
    it = s.targets[0].id
    h = t.handlers[0]
    non = '.yieldSelf' if h.type is not None and u(h.type) == 'TypeError' and [u(y) for y in nocomment(h.body)] == ['yield %s' % x] else '.unknown'
    e = nocomment(t.orelse)
    itb = '.unknown'
    if len(e) == 1 and isinstance(e[0], ast.For) and isinstance(e[0].target, ast.Name) and u(e[0].iter) == it and not e[0].orelse:
        if [u(y) for y in nocomment(e[0].body)] == ['yield from %s(%s)' % (fn.name, e[0].target.id)]:
            itb = '.yieldFromChildren'
    return '{ nonIterable := %s, iterable := %s }' % (non, itb)


# ---------------------------------------------------------------- filter_by_ids
def filter_by_ids(fn):
    ps = [a.arg for a in fn.args.args]
    if len(ps) != 2:
        return '{ cases := [], finalReturnsSame := false }'
    x, ids = ps
    stmts = body_of(fn)
    cases, final = [], False

    def test(t):
        s = u(t)
        for f in ('hasattr', 'safe_hasattr'):
            if s in ("%s(%s, 'filter_by_ids')" % (f, x),):
                return '.hasOwnFilter'
            if s == "%s(%s, 'id')" % (f, x):
                return '.hasId'
        if s == 'isinstance(%s, unittest.TestSuite)' % x:
            return '.isTestSuite'
        return '.unknown'

    def action(body):
        b = nocomment(body)
        if len(b) >= 2 and u(b[-1]) == 'return ' + x and action(b[:-1]) == '.filterChildrenInPlace':
            return '.filterChildrenInPlace'           # an explicit `return x` where the block would fall through to the final `return x`
        if len(b) == 1 and u(b[0]) == 'return %s.filter_by_ids(%s)' % (x, ids):
            return '.delegate'
        # if x.id() in ids: return x [else:] return <replacement>
        if b and isinstance(b[0], ast.If) and u(b[0].test) == '%s.id() in %s' % (x, ids) and [u(y) for y in nocomment(b[0].body)] == ['return ' + x]:
            tail = nocomment(b[0].orelse) if b[0].orelse else b[1:]
            if (b[0].orelse and len(b) == 1 or not b[0].orelse) and len(tail) == 1 and isinstance(tail[0], ast.Return) and tail[0].value is not None:
                return '(.keepIfIdIn %s)' % ('true' if u(tail[0].value) == 'unittest.TestSuite()' else 'false')
        # the same with the test turned around: if x.id() not in ids: return <replacement>; return x
        if len(b) == 2 and isinstance(b[0], ast.If) and not b[0].orelse and u(b[0].test) == '%s.id() not in %s' % (x, ids) and u(b[1]) == 'return ' + x:
            r = nocomment(b[0].body)
            if len(r) == 1 and isinstance(r[0], ast.Return) and r[0].value is not None:
                return '(.keepIfIdIn %s)' % ('true' if u(r[0].value) == 'unittest.TestSuite()' else 'false')
        # in-place filtering of the children
        if len(b) == 2 and isinstance(b[0], ast.Assign) and isinstance(b[0].targets[0], ast.Name) and isinstance(b[0].value, ast.ListComp) \
                and u(b[1]) == '%s._tests[:] = %s' % (x, b[0].targets[0].id):
            lc = b[0].value
            if len(lc.generators) == 1 and not lc.generators[0].ifs and isinstance(lc.generators[0].target, ast.Name) and u(lc.generators[0].iter) == x \
                    and u(lc.elt) == '%s(%s, %s)' % (fn.name, lc.generators[0].target.id, ids):
                return '.filterChildrenInPlace'
        if len(b) == 3 and isinstance(b[0], ast.Assign) and u(b[0].value) == '[]' and isinstance(b[0].targets[0], ast.Name) and isinstance(b[1], ast.For):
            acc, loop = b[0].targets[0].id, b[1]
            if isinstance(loop.target, ast.Name) and u(loop.iter) == x and not loop.orelse and \
                    [u(y) for y in nocomment(loop.body)] == ['%s.append(%s(%s, %s))' % (acc, fn.name, loop.target.id, ids)] and \
                    u(b[2]) == '%s._tests[:] = %s' % (x, acc):
                return '.filterChildrenInPlace'
        if len(b) == 1 and isinstance(b[0], ast.Assign) and u(b[0].targets[0]) == '%s._tests[:]' % x and isinstance(b[0].value, ast.ListComp):
            lc = b[0].value
            if len(lc.generators) == 1 and not lc.generators[0].ifs and isinstance(lc.generators[0].target, ast.Name) and u(lc.generators[0].iter) == x \
                    and u(lc.elt) == '%s(%s, %s)' % (fn.name, lc.generators[0].target.id, ids):
                return '.filterChildrenInPlace'
        return '.unknown'
    for i, s in enumerate(stmts):
        if isinstance(s, ast.If) and not s.orelse:
            cases.append('(%s, %s)' % (test(s.test), action(s.body)))
        elif isinstance(s, ast.Return) and i == len(stmts) - 1 and s.value is not None and u(s.value) == x:
            final = True
        else:
            cases.append('(.unknown, .unknown)')
    return '{ cases := [%s], finalReturnsSame := %s }' % (', '.join(cases), 'true' if final else 'false')


# ---------------------------------------------------------------- _flatten_tests
def flatten_tests(fn):
    bad = '{ nonIterable := .unknown, unpackTest := .unknown, unpackBody := .unknown, wholeSteps := [] }'
    ps = [a.arg for a in fn.args.args]
    b = body_of(fn)
    # (after normalisation the statements that follow the try - whose handler returns - are its else-branch, and what follows the
    #  returning `if` is no longer under an `else`)
    if len(ps) != 2 or not b or not isinstance(b[0], ast.Try):
        return bad
    x, outer = ps
    t = b[0]
    after = list(t.orelse) + b[1:]
    if not after or not isinstance(after[0], ast.If):
        return bad
    cond = after[0]
    whole = list(cond.orelse) + after[1:]
    if cond.orelse and after[1:]:
        return bad
    non = '.unknown'
    it = None
    if not t.finalbody and len(t.handlers) == 1 and len(t.body) == 1 and isinstance(t.body[0], ast.Assign) \
            and isinstance(t.body[0].targets[0], ast.Name) and u(t.body[0].value) == 'iter(%s)' % x:
        it = t.body[0].targets[0].id
        h = t.handlers[0]
        if h.type is not None and u(h.type) == 'TypeError' and [u(y) for y in nocomment(h.body)] == ['return [(%s.id(), %s)]' % (x, x)]:
            non = '.single'
    ut = '.plainTypeOrOuter' if u(cond.test) in ('type(%s) in (unittest.TestSuite,) or %s' % (x, outer), 'type(%s) is unittest.TestSuite or %s' % (x, outer),
                                                 'type(%s) == unittest.TestSuite or %s' % (x, outer)) else '.unknown'
    ub = '.unknown'
    cb = nocomment(cond.body)
    if it and len(cb) == 3 and isinstance(cb[0], ast.Assign) and u(cb[0].value) == '[]' and isinstance(cb[1], ast.For) and isinstance(cb[1].target, ast.Name):
        acc = u(cb[0].targets[0])
        if u(cb[1].iter) == it and [u(y) for y in nocomment(cb[1].body)] == ['%s.extend(%s(%s))' % (acc, fn.name, cb[1].target.id)] and u(cb[2]) == 'return ' + acc:
            ub = '.extendRecursive'
    # the same as one nested comprehension: return [item for test in tests for item in _flatten_tests(test)]
    if it and len(cb) == 1 and isinstance(cb[0], ast.Return) and canon(cb[0].value) == canon('[b for a in %s for b in %s(a)]' % (it, fn.name)):
        ub = '.extendRecursive'
    steps = []
    eb = nocomment(whole)
    i = 0
    sid = None
    while i < len(eb):
        s = eb[i]
        # suite_id = None; tests = iterate_tests(x); for test in tests: suite_id = test.id(); break
        if isinstance(s, ast.Assign) and u(s.value) == 'None' and isinstance(s.targets[0], ast.Name) and i + 2 < len(eb) and sid is None:
            name = s.targets[0].id
            a, f = eb[i + 1], eb[i + 2]
            if isinstance(a, ast.Assign) and isinstance(a.targets[0], ast.Name) and u(a.value) == 'iterate_tests(%s)' % x and isinstance(f, ast.For) \
                    and isinstance(f.target, ast.Name) and u(f.iter) == a.targets[0].id and not f.orelse \
                    and [u(y) for y in nocomment(f.body)] == ['%s = %s.id()' % (name, f.target.id), 'break']:
                sid = name
                steps.append('.firstId')
                i += 3
                continue
        # the same with next(): suite_id = next((t.id() for t in iterate_tests(x)), None)
        if isinstance(s, ast.Assign) and isinstance(s.targets[0], ast.Name) and sid is None and \
                canon(s.value) == canon('next((t.id() for t in iterate_tests(%s)), None)' % x):
            sid = s.targets[0].id
            steps.append('.firstId')
            i += 1
            continue
        if isinstance(s, ast.If) and not s.orelse and u(s.test) in ("hasattr(%s, 'sort_tests')" % x, "safe_hasattr(%s, 'sort_tests')" % x) \
                and [u(y) for y in nocomment(s.body)] == ['%s.sort_tests()' % x]:
            steps.append('.sortIfHas')
            i += 1
            continue
        if isinstance(s, ast.Return) and sid and u(s.value) == '[(%s, %s)]' % (sid, x) and i == len(eb) - 1:
            steps.append('.returnPair')
            i += 1
            continue
        steps.append('.unknown')
        i += 1
    return '{ nonIterable := %s, unpackTest := %s, unpackBody := %s, wholeSteps := [%s] }' % (non, ut, ub, ', '.join(steps))


# ---------------------------------------------------------------- sorted_tests
def sorted_tests(fn):
    ps = [a.arg for a in fn.args.args]
    if len(ps) != 2:
        return '[.unknown]'
    x, outer = ps
    b = body_of(fn)
    steps = []
    i = 0
    tests = None
    while i < len(b):
        s = b[i]
        # seen = Counter(...); duplicates = {...}; if duplicates: raise ValueError(...)
        if isinstance(s, ast.Assign) and isinstance(s.targets[0], ast.Name) and i + 2 < len(b):
            seen = s.targets[0].id
            d, r = b[i + 1], b[i + 2]
            over = None
            if canon(s.value) == canon('Counter((case.id() for case in iterate_tests(%s)))' % x):
                over = '.iterateTests'
            if isinstance(d, ast.Assign) and isinstance(d.targets[0], ast.Name) and over and \
                    canon(d.value) == canon('{test_id: count for test_id, count in %s.items() if count > 1}' % seen) and isinstance(r, ast.If) and not r.orelse \
                    and u(r.test) == d.targets[0].id and len(r.body) == 1 and isinstance(r.body[0], ast.Raise) and u(r.body[0].exc).startswith('ValueError('):
                steps.append('(.dupCheck %s)' % over)
                i += 3
                continue
        if isinstance(s, ast.Assign) and isinstance(s.targets[0], ast.Name) and tests is None and \
                u(s.value) in ('_flatten_tests(%s, unpack_outer=%s)' % (x, outer), '_flatten_tests(%s, %s)' % (x, outer)):
            tests = s.targets[0].id
            steps.append('.flatten')
            i += 1
            continue
        key = "lambda item: (item[0] is not None, item[0] or '')"
        if tests and (canon(s) == canon('%s.sort(key=%s)' % (tests, key)) or canon(s) == canon('%s = sorted(%s, key=%s)' % (tests, tests, key))):
            steps.append('.sortByKey')
            i += 1
            continue
        if tests and isinstance(s, ast.Return) and isinstance(s.value, ast.Call) and u(s.value.func) == 'unittest.TestSuite' and len(s.value.args) == 1 \
                and isinstance(s.value.args[0], ast.ListComp) and i == len(b) - 1:
            lc = s.value.args[0]
            g = lc.generators[0]
            if len(lc.generators) == 1 and not g.ifs and u(g.iter) == tests and isinstance(g.target, ast.Tuple) and len(g.target.elts) == 2 \
                    and u(lc.elt) == u(g.target.elts[1]):
                steps.append('.returnPlainSuite')
                i += 1
                continue
        steps.append('.unknown')
        i += 1
    return '[%s]' % ', '.join(steps)


# ---------------------------------------------------------------- TestProgram --load-list
def load_list(init, cls=None):
    b = body_of(init)
    idx = {u(s) if not isinstance(s, ast.If) else 'if ' + u(s.test): k for k, s in enumerate(b)}
    k_parse = idx.get('self.parseArgs(argv)')
    k_ll = idx.get('if self.load_list')
    k_run = idx.get('if not self.listtests')
    placed = k_parse is not None and k_ll is not None and k_run is not None and k_parse < k_ll < k_run
    n_ll = sum(1 for s in b if isinstance(s, ast.If) and 'load_list' in u(s.test))
    steps = []
    if k_ll is not None and not b[k_ll].orelse and n_ll == 1:
        body = nocomment(b[k_ll].body)
        # the block moved into a parameterless helper method that returns nothing: read the helper's statements in its place
        if len(body) == 1 and isinstance(body[0], ast.Expr) and isinstance(body[0].value, ast.Call) and not body[0].value.args and not body[0].value.keywords \
                and isinstance(body[0].value.func, ast.Attribute) and u(body[0].value.func.value) == 'self' and cls is not None:
            hs = [f for f in cls.body if isinstance(f, ast.FunctionDef) and f.name == body[0].value.func.attr and [a.arg for a in f.args.args] == ['self']]
            if len(hs) == 1 and not any(isinstance(n, ast.Return) for n in ast.walk(hs[0])):
                body = nocomment(body_of(hs[0]))
        src = lines = ids = None
        for s in body:
            if isinstance(s, ast.Assign) and isinstance(s.targets[0], ast.Name) and u(s.value) == "open(self.load_list, 'rb')" and src is None:
                src = s.targets[0].id
                steps.append('.openRead')
                continue
            if isinstance(s, ast.Try) and src and not s.handlers and not s.orelse and len(s.body) == 1 and isinstance(s.body[0], ast.Assign) \
                    and u(s.body[0].value) == src + '.readlines()' and [u(y) for y in s.finalbody] == [src + '.close()'] and lines is None:
                lines = u(s.body[0].targets[0])
                steps.append('.readLines')
                continue
            if isinstance(s, ast.With) and len(s.items) == 1 and u(s.items[0].context_expr) == "open(self.load_list, 'rb')" and s.items[0].optional_vars is not None \
                    and len(s.body) == 1 and isinstance(s.body[0], ast.Assign) and u(s.body[0].value) == u(s.items[0].optional_vars) + '.readlines()' and src is None:
                src, lines = u(s.items[0].optional_vars), u(s.body[0].targets[0])
                steps += ['.openRead', '.readLines']
                continue
            if isinstance(s, ast.Assign) and isinstance(s.targets[0], ast.Name) and lines and \
                    canon(s.value) == canon("{line.strip().decode('utf-8') for line in %s}" % lines) and ids is None:
                ids = s.targets[0].id
                steps.append('.idsFromLines')
                continue
            if ids and u(s) == 'self.test = filter_by_ids(self.test, %s)' % ids:
                steps.append('.assignFiltered')
                continue
            steps.append('.unknown')
    return '{ placedBetweenParseAndRun := %s, steps := [%s] }' % ('true' if placed else 'false', ', '.join(steps))


# ---------------------------------------------------------------- FixtureSuite.sort_tests
def fixture_sort_tests(tree):
    try:
        cls = find(tree, 'FixtureSuite')
        fn = find(tree, 'FixtureSuite.sort_tests')
    except ValueError:
        return '.unknown'
    if {c.name for c in cls.body if isinstance(c, (ast.FunctionDef, ast.AsyncFunctionDef))} != {'__init__', 'run', 'sort_tests'}:
        return '.unknown'
    if [u(b) for b in cls.bases] != ['unittest.TestSuite']:
        return '.unknown'
    ps = [a.arg for a in fn.args.posonlyargs + fn.args.args]
    if len(ps) != 1 or fn.args.vararg or fn.args.kwarg or fn.args.kwonlyargs:
        return '.unknown'
    me = ps[0]
    body = [u(st) for st in body_of(fn)]
    forms = ['%s._tests = list(sorted_tests(%s, True))' % (me, me), '%s._tests = list(sorted_tests(%s, unpack_outer=True))' % (me, me),
             '%s._tests = sorted_tests(%s, True)._tests' % (me, me), '%s._tests = sorted_tests(%s, unpack_outer=True)._tests' % (me, me)]
    return '.itemsOfSortedOuter' if len(body) == 1 and body[0] in forms else '.unknown'


def generate(repo):
    ts = ast.parse(open(os.path.join(repo, 'testtools', 'testsuite.py')).read())
    run = ast.parse(open(os.path.join(repo, 'testtools', 'run.py')).read())
    return '''import TTV.Model.SuiteUtilSkel
/-! GENERATED by harness/pysuite2lean.py from testtools/testsuite.py and testtools/run.py on every run - do not edit.
`iterate_tests`, `filter_by_ids`, `_flatten_tests`, `sorted_tests`, the `--load-list` block of `TestProgram.__init__` and `FixtureSuite.sort_tests`, as data. -/
namespace TTV.Generated.SuiteSrc
open TTV.SuiteUtilSkel

def iterateTests : IterSrc :=
    %s

def filterByIds : FilterSrc :=
    %s

def flattenTests : FlattenSrc :=
    %s

def sortedTests : List SortedStep := %s

def loadList : LoadListSrc :=
    %s

def fixtureSortTests : SortSelf := %s

end TTV.Generated.SuiteSrc
''' % (iterate_tests(find(ts, 'iterate_tests')), filter_by_ids(find(ts, 'filter_by_ids')), flatten_tests(find(ts, '_flatten_tests')),
       sorted_tests(find(ts, 'sorted_tests')), load_list(find(run, 'TestProgram.__init__'), find(run, 'TestProgram')), fixture_sort_tests(ts))


if __name__ == '__main__':
    import sys
    print(generate(sys.argv[1] if len(sys.argv) > 1 else '/repo'))
