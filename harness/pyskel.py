"""Python -> Lean translator for the control skeleton of `RunTest._run_core` and `RunTest._select_exception`
(testtools/runtest.py).  Run on every check of C01-C05 (through `mrun.extract_tables`): the two functions are re-read from the
tree under test and emitted as terms of `TTV.RunSkel.Skel` / `List TTV.RunSkel.SelRule` into `TTV/Generated/RunSkel.lean`;
`C01_src_run_core` and `C03_src_select` then prove that the model's `runCore` / `select` are the interpretation of exactly these
terms.  Statement forms that are not recognised become `.unknown` / `.other`, which the reference skeletons do not contain, so
the proofs break (and the check goes on to search for a failing test program).

Recognised in `_run_core`: docstring; pure local bindings (`x = getattr(...)`, `x = self.case._get_test_method()`: dropped);
`failed = True|False`; `return`; `if <skip-decorator test>:`; `if self.exception_caught == self._run_user(<callee>, ...):`
(either operand order); `if getattr(self.case, 'force_failure', None):`; `if failed:` / `if not failed:`; `try: ... finally: ...`
without handlers; the calls `self.result.addSkip(...)`, `self.result.addSuccess(self.case, details=self.case.getDetails())`,
`self._run_cleanups(self.result)`, `self._run_user(<callee>)`.
"""
import ast, os

CALLEES = {'self.case._run_setup': '.setUp', 'self.case._run_test_method': '.testMethod', 'self.case._run_teardown': '.tearDown',
           'self._run_cleanups': '.cleanups', '_raise_force_fail_error': '.forceFail'}


def find(tree, cls, name):
    for node in ast.walk(tree):
        if isinstance(node, ast.ClassDef) and node.name == cls:
            for f in node.body:
                if isinstance(f, ast.FunctionDef) and f.name == name:
                    return f
    raise ValueError('%s.%s not found' % (cls, name))


def run_user_callee(e):
    """`self._run_user(<callee>, ...)` -> Lean Callee, else None"""
    if isinstance(e, ast.Call) and ast.unparse(e.func) == 'self._run_user' and e.args and not e.keywords:
        c = CALLEES.get(ast.unparse(e.args[0]))
        rest = [ast.unparse(a) for a in e.args[1:]]
        if c is not None and rest in ([], ['self.result']):
            return c
    return None


def caught_test(t):
    """`self.exception_caught == self._run_user(c, ...)` in either order -> callee"""
    if isinstance(t, ast.Compare) and len(t.ops) == 1 and isinstance(t.ops[0], (ast.Eq, ast.Is)):
        a, b = t.left, t.comparators[0]
        for x, y in ((a, b), (b, a)):
            if ast.unparse(x) == 'self.exception_caught':
                return run_user_callee(y)
    return None


def pure(e):
    """an expression without effects on the run: names, attributes, constants, getattr(...), self.case._get_test_method()"""
    for n in ast.walk(e):
        if isinstance(n, ast.Call) and ast.unparse(n.func) not in ('getattr', 'self.case._get_test_method'):
            return False
    return True


FLAG = ['failed']          # name of the local boolean flag of _run_core (found by `generate`: renaming it is harmless)


class _Subst(ast.NodeTransformer):
    def __init__(self, m):
        self.m = m

    def visit_Name(self, node):
        if isinstance(node.ctx, ast.Load) and node.id in self.m:
            return ast.copy_location(ast.parse(self.m[node.id], mode='eval').body, node)
        return node


def resolve_aliases(fn):
    """local names bound ONCE, at the top level of the function, to a pure attribute chain on self (`case = self.case`,
    `result = self.result`, `caught = self.exception_caught`) are replaced by that chain (harmless rewrite: local aliases)"""
    counts, alias = {}, {}
    for node in ast.walk(fn):
        if isinstance(node, ast.Name) and isinstance(node.ctx, ast.Store):
            counts[node.id] = counts.get(node.id, 0) + 1
    for st in fn.body:
        if isinstance(st, ast.Assign) and len(st.targets) == 1 and isinstance(st.targets[0], ast.Name) and counts.get(st.targets[0].id) == 1:
            v = st.value
            chain = v
            while isinstance(chain, ast.Attribute):
                chain = chain.value
            if isinstance(v, ast.Attribute) and isinstance(chain, ast.Name) and chain.id == 'self':
                alias[st.targets[0].id] = ast.unparse(v)
    if alias:
        fn = ast.fix_missing_locations(_Subst(alias).visit(fn))
    return fn


def block(stmts):
    if not stmts:
        return '.done'
    s, rest = stmts[0], stmts[1:]
    k = lambda: block(rest)
    if isinstance(s, ast.Expr) and isinstance(s.value, ast.Constant) and isinstance(s.value.value, str):
        return k()                                                      # docstring
    if isinstance(s, ast.Pass):
        return k()
    if isinstance(s, ast.Return) and (s.value is None or (isinstance(s.value, ast.Constant) and s.value.value is None)):
        return '.ret'
    if isinstance(s, ast.Assign) and len(s.targets) == 1 and isinstance(s.targets[0], ast.Name):
        if s.targets[0].id == FLAG[0] and isinstance(s.value, ast.Constant) and s.value.value in (True, False):
            return '(.setFailed %s %s)' % ('true' if s.value.value else 'false', k())
        if s.targets[0].id != FLAG[0] and pure(s.value):
            return k()
    if isinstance(s, ast.If) and not s.orelse and len(s.body) == 1 and isinstance(s.body[0], ast.Assign) \
            and len(s.body[0].targets) == 1 and isinstance(s.body[0].targets[0], ast.Name) and s.body[0].targets[0].id != FLAG[0] \
            and pure(s.body[0].value) and pure(s.test) and ast.unparse(s.test) in (
                '%s is None' % s.body[0].targets[0].id, 'not isinstance(%s, str)' % s.body[0].targets[0].id):
        return k()                                                      # defaulting / casting of a pure local (`if reason is None: reason = ...`)
    if isinstance(s, ast.If):
        t = s.test
        c = caught_test(t)
        if c is not None:
            return '(.ifCaught %s %s %s %s)' % (c, block(s.body), block(s.orelse), k())
        src = ast.unparse(t)
        if not s.orelse:
            if '__unittest_skip__' in src and pure(t):
                return '(.ifSkipDeco %s %s)' % (block(s.body), k())
            if src in ("getattr(self.case, 'force_failure', None)", "getattr(self.case, 'force_failure', False)", 'self.case.force_failure'):
                return '(.ifForce %s %s)' % (block(s.body), k())
            if src == FLAG[0]:
                return '(.ifFailed false %s %s)' % (block(s.body), k())
            if src == 'not ' + FLAG[0]:
                return '(.ifFailed true %s %s)' % (block(s.body), k())
    if isinstance(s, ast.Try) and not s.handlers and not s.orelse and s.finalbody:
        return '(.tryFinally %s %s %s)' % (block(s.body), block(s.finalbody), k())
    if isinstance(s, ast.Expr) and isinstance(s.value, ast.Call):
        call = s.value
        f = ast.unparse(call.func)
        if f == 'self.result.addSkip' and ast.unparse(call.args[0]) == 'self.case' and [kw.arg for kw in call.keywords] == ['reason']:
            return '(.addSkip %s)' % k()
        if f == 'self.result.addSuccess' and ast.unparse(call) == 'self.result.addSuccess(self.case, details=self.case.getDetails())':
            return '(.addSuccess %s)' % k()
        if ast.unparse(call) == 'self._run_cleanups(self.result)':
            return '(.callCleanups %s)' % k()
        c = run_user_callee(call)
        if c is not None:
            return '(.runUser %s %s)' % (c, k())
    return '(.unknown %s)' % k()


def select_rules(fn):
    rules = []
    env = {}
    body = list(fn.body)
    k = 0
    while k < len(body):
        s = body[k]
        k += 1
        # `x = next((e for e in [reversed](self._exceptions) if <cond>), None)` + `if x is not None: return x`
        if isinstance(s, ast.Assign) and len(s.targets) == 1 and isinstance(s.targets[0], ast.Name) and k < len(body) \
                and isinstance(s.value, ast.Call) and ast.unparse(s.value.func) == 'next' and len(s.value.args) == 2 \
                and isinstance(s.value.args[0], ast.GeneratorExp) and ast.unparse(s.value.args[1]) == 'None':
            g, x, nxt = s.value.args[0], s.targets[0].id, body[k]
            if len(g.generators) == 1 and len(g.generators[0].ifs) == 1 and isinstance(g.elt, ast.Name) \
                    and ast.unparse(g.generators[0].target) == g.elt.id and isinstance(nxt, ast.If) and not nxt.orelse \
                    and ast.unparse(nxt.test) == '%s is not None' % x and len(nxt.body) == 1 and ast.unparse(nxt.body[0]) == 'return %s' % x:
                loop = ast.parse('for %s in %s:\n    if %s:\n        return %s' % (
                    g.elt.id, ast.unparse(g.generators[0].iter), ast.unparse(g.generators[0].ifs[0]), g.elt.id)).body[0]
                body[k - 1:k + 1] = [loop]
                k -= 1
                continue
    for s in body:
        if isinstance(s, ast.Expr) and isinstance(s.value, ast.Constant):
            continue
        if isinstance(s, ast.Assign) and len(s.targets) == 1 and isinstance(s.targets[0], ast.Name) and pure(s.value):
            env[s.targets[0].id] = ast.unparse(s.value)
            continue
        if isinstance(s, ast.For) and isinstance(s.target, ast.Name) and not s.orelse and len(s.body) == 1:
            it = ast.unparse(s.iter)
            rev = {'self._exceptions': 'false', 'reversed(self._exceptions)': 'true'}.get(it)
            b = s.body[0]
            v = s.target.id
            if rev is not None and isinstance(b, ast.If) and not b.orelse and len(b.body) == 1 and isinstance(b.body[0], ast.Return) \
                    and ast.unparse(b.body[0].value) == v:
                t = ast.unparse(b.test)
                cond = '.other'
                if t == 'self._handler_for(%s) is None' % v:
                    cond = '.unclaimed'
                else:
                    for name, val in env.items():
                        if t == 'self._handler_for(%s) not in %s' % (v, name) and \
                                val == "(getattr(self.case, '_report_skip', None), getattr(self.case, '_report_expected_failure', None))":
                            cond = '.notBenign'
                rules.append('.firstWhere %s %s' % (rev, cond))
                continue
        if isinstance(s, ast.Return) and ast.unparse(s.value) == 'self._exceptions[-1]':
            rules.append('.last')
            continue
        rules.append('.other')
    return rules


def cleanups_shape(fn):
    """`_run_cleanups`: '.liveStackLifo' iff the body is - up to the names of locals and the operand order of `==` -
        flag = False
        while self.case._cleanups:
            f, a, kw = self.case._cleanups.pop()
            r = self._run_user(f, *a, **kw)
            if r == self.exception_caught: flag = True
        if flag: return self.exception_caught
    i.e. pop from the LIVE stack until it is empty (so cleanups registered meanwhile run too, last in first out), each one
    through _run_user, failure sticky.  Anything else: '.other'."""
    body = [s for s in fn.body if not (isinstance(s, ast.Expr) and isinstance(s.value, ast.Constant))]
    try:
        init, loop, tail = body
        flag = init.targets[0].id
        assert isinstance(init.value, ast.Constant) and init.value.value is False
        assert isinstance(loop, ast.While) and not loop.orelse and ast.unparse(loop.test) == 'self.case._cleanups'
        take, call, test = loop.body
        f, a, kw = [e.id for e in take.targets[0].elts]
        assert ast.unparse(take.value) == 'self.case._cleanups.pop()'
        r = call.targets[0].id
        assert ast.unparse(call.value) == 'self._run_user(%s, *%s, **%s)' % (f, a, kw)
        assert isinstance(test, ast.If) and not test.orelse and len(test.body) == 1
        assert ast.unparse(test.test) in ('%s == self.exception_caught' % r, 'self.exception_caught == %s' % r,
                                          '%s is self.exception_caught' % r, 'self.exception_caught is %s' % r)
        assert ast.unparse(test.body[0]) == '%s = True' % flag
        assert isinstance(tail, ast.If) and not tail.orelse and ast.unparse(tail.test) == flag
        assert len(tail.body) == 1 and ast.unparse(tail.body[0]) == 'return self.exception_caught'
        return '.liveStackLifo'
    except (AssertionError, ValueError, AttributeError, IndexError, TypeError):
        return '.other'


def handler_for_ok(fn):
    """`_handler_for`: first (class, handler) of self.handlers with isinstance(e, class), else None"""
    body = [s for s in fn.body if not (isinstance(s, ast.Expr) and isinstance(s.value, ast.Constant))]
    want = "for exc_class, handler in self.handlers:\n    if isinstance(e, exc_class):\n        return handler\nreturn None"
    want2 = "return next((handler for exc_class, handler in self.handlers if isinstance(e, exc_class)), None)"
    return '\n'.join(ast.unparse(s) for s in body) in (want, want2)


def generate(repo):
    tree = ast.parse(open(os.path.join(repo, 'testtools', 'runtest.py')).read())
    fn = resolve_aliases(find(tree, 'RunTest', '_run_core'))
    flags = [st.targets[0].id for st in fn.body if isinstance(st, ast.Assign) and len(st.targets) == 1 and isinstance(st.targets[0], ast.Name)
             and isinstance(st.value, ast.Constant) and st.value.value is False]
    FLAG[0] = flags[0] if len(flags) == 1 else 'failed'
    core = block(fn.body)
    rules = select_rules(resolve_aliases(find(tree, 'RunTest', '_select_exception')))
    hf = handler_for_ok(find(tree, 'RunTest', '_handler_for'))
    cl = cleanups_shape(resolve_aliases(find(tree, 'RunTest', '_run_cleanups')))
    return '''import TTV.Model.RunSkel
/-! GENERATED by harness/pyskel.py from testtools/runtest.py on every run - do not edit.
The control skeleton of `RunTest._run_core`, the rules of `RunTest._select_exception`, and whether `RunTest._handler_for` is
the first-isinstance-match loop the model's `handlerFor` transcribes. -/
namespace TTV.Generated.RunSkel
open TTV.RunSkel

def runCore : Skel :=
  %s

def selectRules : List SelRule := [%s]

def handlerForIsFirstMatch : Bool := %s

/-- the shape of `RunTest._run_cleanups` -/
def cleanupsShape : CleanupsShape := %s

end TTV.Generated.RunSkel
''' % (core, ', '.join(rules), 'true' if hf else 'false', cl)


if __name__ == '__main__':
    import sys
    print(generate(sys.argv[1] if len(sys.argv) > 1 else '/repo'))
