"""Python -> Lean translator for the decision logic behind Content (C16).

Run on every check of C16 (through `c16.extract_tables`): `Content._iter_text`, `content_from_reader`, `_iter_chunks`
(testtools/content.py), `ContentType.__repr__` / `_quote` (testtools/content_type.py) and the charset work-around at the end of
`_make_content_type` (testtools/testresult/real.py) are re-read from the tree under test and emitted as DATA of the types of
`TTV/Model/ContentSkel.lean` into `TTV/Generated/ContentSrc.lean`.  The interpreters there give the data its meaning over the
M-Content model; `C16_src_*` (Props/C16.lean) prove that the hand-written `iterText`, the buffer_now step, `chunks`, `render` /
`quoteValue` and `fixCharset` ARE the interpretation of what was found in the source.

Recognised (anything else becomes `.unknown`, which no reference term contains, so the proofs break):
* `_iter_text`: statements in order: `encoding = self.content_type.parameters.get("charset", <default>)`; `decoder =
  codecs.getincrementaldecoder(encoding)()` (a NEW decoder object made in this call); `for b in self.iter_bytes(): yield decoder.decode(b)`;
  `final = decoder.decode(b"", True)` (also `_b("")`, `final=True`); `if final: yield final`.
* `as_text`: `if self.content_type.type != "text": raise ValueError(...)`; the same charset lookup; `return _join_b(self.iter_bytes()).decode(encoding)` -
  the bytes joined first and decoded ONCE (an `as_text` that joins the pieces of `iter_text` is `.unknown`).
* `content_from_reader`: `if content_type is None: content_type = UTF8_TEXT`; `if buffer_now: contents = list(reader())` + a local
  `def reader(): return contents` (also a lambda); `return Content(content_type, reader)`.
* `content_from_stream` / `content_from_file`: the content-type default; a nested `def reader():` (for a stream also `reader = lambda: …`) whose
  body CALLS `_iter_chunks(stream, chunk_size, seek_offset, seek_whence)` - so every evaluation of the content gets a new generator that seeks
  again and reads to the end; for a file inside `with open(path, "rb") as stream:` with `yield from`; `return content_from_reader(reader,
  content_type, buffer_now)`.  Read from the statements as they stand (no inlining): a generator made once and captured is `.unknown`.
* `_iter_chunks`: `if seek_offset is not None: stream.seek(seek_offset, seek_whence)`; `chunk = stream.read(chunk_size)`; `while chunk:`
  with body steps `yield chunk` / `chunk = stream.read(chunk_size)`; or the rotated loop `while True:` with body steps `chunk = stream.read(chunk_size)` /
  `if not chunk: break` / `yield chunk` (transcribed as it stands; that it means the same is proved in Lean: `chunksI_refRotated`).
* `__repr__`: `if self.parameters: params = <lead>; params += <sep>.join(sorted(<item> for k, v in self.parameters.items()))` (also as one
  expression `<lead> + <sep>.join(...)`) `else: params = ""`; `return <result>`, where `<item>` and `<result>` are strings assembled from literal
  text and values by `str.format` with `{}` fields, an f-string, or `%` with `%s` fields (no format specs) - only WHAT is concatenated counts;
  `_quote`: `return str(value).replace(c1, r1).replace(c2, r2)…` with single-character patterns.
* the work-around: `if "<key>" in parameters: if "<c>" in parameters["<key>"]: parameters["<key>"] = parameters["<key>"][: parameters["<key>"].find("<c>")]`
  (the two tests may be joined by `and`; the cut may be spelled `.split(c)[0]` / `.partition(c)[0]`; the value may be read through a local alias);
  a loop over all parameters in its place is `.everyParam` (seed C09-d).
Local names are taken from the source (renaming is harmless); the function bodies are first normalised by harness/pynorm.py (temporaries and
effect-free aliases inlined, `while (x := e)` unfolded, `[x for x in e]` = `list(e)`, …).
Trusted: this recogniser and that `TTV.ContentSkel.*I` read these forms as Python does.
"""
import ast, os
from harness.pydeferred2lean import find, body_of
from harness.pysuite2lean import nocomment, u
from harness import pynorm
from harness.pynorm import canon


def text(s):
    return '[%s]' % ', '.join(str(ord(c)) for c in s)


# ---------------------------------------------------------------- Content._iter_text
def iter_text(fn):
    steps = []
    enc = dec = fin = None
    for s in body_of(fn):
        if isinstance(s, ast.Assign) and len(s.targets) == 1 and isinstance(s.targets[0], ast.Name):
            name, v = s.targets[0].id, s.value
            if enc is None and isinstance(v, ast.Call) and u(v.func) == 'self.content_type.parameters.get' and len(v.args) == 2 and not v.keywords \
                    and u(v.args[0]) == "'charset'" and isinstance(v.args[1], ast.Constant) and isinstance(v.args[1].value, str):
                enc = name
                d = v.args[1].value.lower().replace('_', '-')
                steps.append('(.encodingFromCharset %s)' % ('.iso8859_1' if d in ('iso-8859-1', 'latin-1', 'latin1', 'iso8859-1', 'l1') else '.other'))
                continue
            if enc and dec is None and u(v) == 'codecs.getincrementaldecoder(%s)()' % enc:
                dec = name
                steps.append('.freshDecoder')
                continue
            if dec and fin is None and u(v) in ("%s.decode(_b(''), True)" % dec, "%s.decode(b'', True)" % dec, "%s.decode(b'', final=True)" % dec,
                                                "%s.decode(_b(''), final=True)" % dec):
                fin = name
                steps.append('.finalFlush')
                continue
        if dec and isinstance(s, ast.For) and isinstance(s.target, ast.Name) and u(s.iter) == 'self.iter_bytes()' and not s.orelse \
                and [u(y) for y in nocomment(s.body)] == ['yield %s.decode(%s)' % (dec, s.target.id)]:
            steps.append('.forChunksYieldDecode')
            continue
        if fin and isinstance(s, ast.If) and not s.orelse and u(s.test) in (fin, 'len(%s) > 0' % fin, 'len(%s) != 0' % fin, "%s != ''" % fin) \
                and [u(y) for y in nocomment(s.body)] == ['yield ' + fin]:
            steps.append('.yieldFinalIfNonEmpty')
            continue
        steps.append('.unknown')
    return '[%s]' % ', '.join(steps)


# ---------------------------------------------------------------- Content.as_text
def as_text(fn):
    """`if self.content_type.type != "text": raise ValueError(...)`; `encoding = self.content_type.parameters.get("charset", <default>)`;
    `return _join_b(self.iter_bytes()).decode(encoding)` (also `b"".join(...)`): the bytes are joined first and decoded ONCE"""
    steps = []
    enc = None
    for s in body_of(fn):
        if isinstance(s, ast.If) and not s.orelse and u(s.test) in ("self.content_type.type != 'text'", "not self.content_type.type == 'text'") \
                and len(nocomment(s.body)) == 1 and isinstance(s.body[-1], ast.Raise) and u(s.body[-1].exc).startswith('ValueError('):
            steps.append('.raiseIfNotText')
            continue
        if isinstance(s, ast.Assign) and isinstance(s.targets[0], ast.Name) and enc is None and isinstance(s.value, ast.Call) \
                and u(s.value.func) == 'self.content_type.parameters.get' and len(s.value.args) == 2 and u(s.value.args[0]) == "'charset'" \
                and isinstance(s.value.args[1], ast.Constant) and isinstance(s.value.args[1].value, str):
            enc = s.targets[0].id
            d = s.value.args[1].value.lower().replace('_', '-')
            steps.append('(.encodingFromCharset %s)' % ('.iso8859_1' if d in ('iso-8859-1', 'latin-1', 'latin1', 'iso8859-1', 'l1') else '.other'))
            continue
        if isinstance(s, ast.Return) and enc and u(s.value) in ('_join_b(self.iter_bytes()).decode(%s)' % enc, "b''.join(self.iter_bytes()).decode(%s)" % enc):
            steps.append('.returnJoinedDecoded')
            continue
        steps.append('.unknown')
    return '[%s]' % ', '.join(steps)


# ---------------------------------------------------------------- content_from_reader
def content_from_reader(fn):
    ps = [a.arg for a in fn.args.args]
    if len(ps) != 3:
        return '[.unknown]'
    reader, ctype, bnow = ps
    steps = []
    stmts = body_of(fn)
    # the same decision written with an early return for the lazy case:
    #   if not buffer_now: return Content(ct, reader);  contents = list(reader());  return Content(ct, <function returning contents>)
    for k, s in enumerate(stmts):
        if isinstance(s, ast.If) and not s.orelse and u(s.test) == 'not ' + bnow and [u(y) for y in nocomment(s.body)] == ['return Content(%s, %s)' % (ctype, reader)] \
                and len(stmts) == k + 3 and isinstance(stmts[k + 1], ast.Assign) and isinstance(stmts[k + 1].targets[0], ast.Name):
            c = stmts[k + 1].targets[0].id
            if u(stmts[k + 1].value) == 'list(%s())' % reader and canon(stmts[k + 2]) == canon('return Content(%s, lambda: %s)' % (ctype, c)):
                stmts = stmts[:k] + [ast.parse('if %s:\n    %s = list(%s())\n    %s = lambda: %s' % (bnow, c, reader, reader, c)).body[0],
                                     ast.parse('return Content(%s, %s)' % (ctype, reader)).body[0]]
                break
    for s in stmts:
        if isinstance(s, ast.If) and not s.orelse and u(s.test) == '%s is None' % ctype and [u(y) for y in nocomment(s.body)] == ['%s = UTF8_TEXT' % ctype]:
            steps.append('.defaultType')
            continue
        if isinstance(s, ast.If) and not s.orelse and u(s.test) == bnow:
            b = nocomment(s.body)
            kind = '.unknown'
            if len(b) == 2 and isinstance(b[0], ast.Assign) and isinstance(b[0].targets[0], ast.Name):
                c = b[0].targets[0].id
                rebinds = (isinstance(b[1], ast.FunctionDef) and b[1].name == reader and not b[1].args.args and [u(y) for y in body_of(b[1])] == ['return ' + c]) \
                    or u(b[1]) == '%s = lambda: %s' % (reader, c)
                if rebinds and u(b[0].value) == 'list(%s())' % reader:
                    kind = '.listOfReaderCall'
            steps.append('(.ifBufferNow %s)' % kind)
            continue
        if isinstance(s, ast.Return) and u(s.value) == 'Content(%s, %s)' % (ctype, reader):
            steps.append('.returnContent')
            continue
        steps.append('.unknown')
    return '[%s]' % ', '.join(steps)


# ---------------------------------------------------------------- content_from_stream / content_from_file
def content_from_source(fn, is_file):
    """`if content_type is None: content_type = UTF8_TEXT`; a nested `def reader():` (or `reader = lambda: ...`) whose EVERY call makes a new
    `_iter_chunks(stream, chunk_size, seek_offset, seek_whence)` generator - for a file inside `with open(path, "rb") as stream:` with `yield from`;
    `return content_from_reader(reader, content_type, buffer_now)`.  A generator made once and captured (seed C16-f: `chunks = _iter_chunks(...)`,
    `lambda: chunks`) is `.unknown`: only a call of _iter_chunks INSIDE the reader's body is recognised."""
    ps = [a.arg for a in fn.args.posonlyargs + fn.args.args]
    if len(ps) != 6 or fn.args.vararg or fn.args.kwarg or fn.args.kwonlyargs:
        return '[.unknown]'
    src, ctype, size, bnow, off, wh = ps
    steps = []
    reader = None
    for st in nocomment(fn.body):       # (NOT pynorm's normal form: inlining a once-made generator into the lambda would be exactly the seeded bug)
        if isinstance(st, ast.If) and not st.orelse and u(st.test) == '%s is None' % ctype and [u(y) for y in nocomment(st.body)] == ['%s = UTF8_TEXT' % ctype]:
            steps.append('.defaultType')
            continue
        if isinstance(st, ast.FunctionDef) and reader is None and not (st.args.args or st.args.vararg or st.args.kwarg or st.args.kwonlyargs or st.decorator_list):
            b = nocomment(st.body)
            kind = '.unknown'
            if not is_file and len(b) == 1 and u(b[0]) in ('return _iter_chunks(%s, %s, %s, %s)' % (src, size, off, wh),
                                                            'yield from _iter_chunks(%s, %s, %s, %s)' % (src, size, off, wh)):
                kind = '.freshIterChunks'
            if is_file and len(b) == 1 and isinstance(b[0], ast.With) and len(b[0].items) == 1 and b[0].items[0].optional_vars is not None \
                    and u(b[0].items[0].context_expr) in ("open(%s, 'rb')" % src, "open(%s, mode='rb')" % src):
                f = u(b[0].items[0].optional_vars)
                if [u(y) for y in nocomment(b[0].body)] == ['yield from _iter_chunks(%s, %s, %s, %s)' % (f, size, off, wh)]:
                    kind = '.openThenFreshIterChunks'
            reader = st.name
            steps.append('(.defReader %s)' % kind)
            continue
        if isinstance(st, ast.Assign) and reader is None and len(st.targets) == 1 and isinstance(st.targets[0], ast.Name) and isinstance(st.value, ast.Lambda) \
                and not is_file and not st.value.args.args and u(st.value.body) == '_iter_chunks(%s, %s, %s, %s)' % (src, size, off, wh):
            reader = st.targets[0].id
            steps.append('(.defReader .freshIterChunks)')
            continue
        if isinstance(st, ast.Return) and reader and u(st.value) == 'content_from_reader(%s, %s, %s)' % (reader, ctype, bnow):
            steps.append('.returnFromReader')
            continue
        steps.append('.unknown')
    return '[%s]' % ', '.join(steps)


# ---------------------------------------------------------------- _iter_chunks
def iter_chunks(fn):
    ps = [a.arg for a in fn.args.args]
    if len(ps) != 4:
        return '{ pre := [.unknown], body := [] }'
    stream, size, off, wh = ps
    pre, body = [], []
    chunk = None
    b = body_of(fn)
    for k, s in enumerate(b):
        if isinstance(s, ast.If) and not s.orelse and u(s.test) == '%s is not None' % off and \
                [u(y) for y in nocomment(s.body)] == ['%s.seek(%s, %s)' % (stream, off, wh)]:
            pre.append('.seekIfGiven')
            continue
        if isinstance(s, ast.Assign) and isinstance(s.targets[0], ast.Name) and u(s.value) == '%s.read(%s)' % (stream, size) and chunk is None:
            chunk = s.targets[0].id
            pre.append('.read')
            continue
        if chunk and isinstance(s, ast.While) and not s.orelse and u(s.test) == chunk and k == len(b) - 1:
            pre.append('.whileChunk')
            for y in nocomment(s.body):
                if u(y) == 'yield ' + chunk:
                    body.append('.yieldChunk')
                elif u(y) == '%s = %s.read(%s)' % (chunk, stream, size):
                    body.append('.read')
                else:
                    body.append('.unknown')
            continue
        # the rotated loop: while True: chunk = stream.read(size); if not chunk: break; yield chunk   (its meaning is given - and proved
        # equal to the other shape - on the Lean side, the translator only transcribes the statements)
        if chunk is None and isinstance(s, ast.While) and not s.orelse and u(s.test) in ('True', '1') and k == len(b) - 1:
            pre.append('.whileTrue')
            for y in nocomment(s.body):
                if isinstance(y, ast.Assign) and isinstance(y.targets[0], ast.Name) and u(y.value) == '%s.read(%s)' % (stream, size) and chunk in (None, y.targets[0].id):
                    chunk = y.targets[0].id
                    body.append('.read')
                elif chunk and isinstance(y, ast.If) and not y.orelse and u(y.test) == 'not ' + chunk and [u(z) for z in nocomment(y.body)] == ['break']:
                    body.append('.breakIfEmpty')
                elif chunk and u(y) == 'yield ' + chunk:
                    body.append('.yieldChunk')
                else:
                    body.append('.unknown')
            continue
        pre.append('.unknown')
    return '{ pre := [%s], body := [%s] }' % (', '.join(pre), ', '.join(body))


# ---------------------------------------------------------------- ContentType.__repr__ / _quote
def quote_fn(fn):
    ps = [a.arg for a in fn.args.args]
    b = body_of(fn)
    if len(b) != 1 or not isinstance(b[0], ast.Return) or not ps:
        return None
    v = ps[-1]
    reps = []
    e = b[0].value
    while isinstance(e, ast.Call) and isinstance(e.func, ast.Attribute) and e.func.attr == 'replace' and len(e.args) == 2 and not e.keywords:
        a, r = e.args
        if not (isinstance(a, ast.Constant) and isinstance(r, ast.Constant) and isinstance(a.value, str) and isinstance(r.value, str) and len(a.value) == 1):
            return None
        reps.append((a.value, r.value))
        e = e.func.value
    if u(e) not in ('str(%s)' % v, v):
        return None
    return list(reversed(reps))


def template(e):
    """a string built from literal text and values - `'..{}..'.format(a, b)`, an f-string, `'..%s..' % (a, b)` - as a list of
    ('lit', text) / ('arg', expression); None if it is none of these (no format specs, conversions or named fields)"""
    if isinstance(e, ast.Call) and isinstance(e.func, ast.Attribute) and e.func.attr == 'format' and isinstance(e.func.value, ast.Constant) \
            and isinstance(e.func.value.value, str) and not e.keywords:
        parts = e.func.value.value.split('{}')
        if len(parts) != len(e.args) + 1 or any('{' in p or '}' in p for p in parts):
            return None
        out = []
        for i, p in enumerate(parts):
            out.append(('lit', p))
            if i < len(e.args):
                out.append(('arg', e.args[i]))
        return [x for x in out if x != ('lit', '')]
    if isinstance(e, ast.JoinedStr):
        out = []
        for v in e.values:
            if isinstance(v, ast.Constant) and isinstance(v.value, str):
                out.append(('lit', v.value))
            elif isinstance(v, ast.FormattedValue) and v.format_spec is None and v.conversion == -1:
                out.append(('arg', v.value))
            else:
                return None
        return out
    if isinstance(e, ast.BinOp) and isinstance(e.op, ast.Mod) and isinstance(e.left, ast.Constant) and isinstance(e.left.value, str):
        args = list(e.right.elts) if isinstance(e.right, ast.Tuple) else [e.right]
        parts = e.left.value.split('%s')
        if len(parts) != len(args) + 1 or any('%' in p for p in parts):
            return None
        out = []
        for i, p in enumerate(parts):
            out.append(('lit', p))
            if i < len(args):
                out.append(('arg', args[i]))
        return [x for x in out if x != ('lit', '')]
    return None


def pieces(tpl, names):
    """template -> Lean pieces; `names` maps the source text of a value to its piece"""
    if tpl is None:
        return ['.unknown']
    return ['(.lit %s)' % text(v) if k == 'lit' else names.get(u(v), '.unknown') for k, v in tpl]


def repr_fn(cls):
    bad = '{ guardOnParams := false, lead := [], sep := [], sorted := false, item := [.unknown], result := [.unknown], quote := [] }'
    fn = find(cls, '__repr__')
    b = body_of(fn)
    if len(b) != 2 or not isinstance(b[0], ast.If) or not isinstance(b[1], ast.Return):
        return bad
    cond, ret = b
    if u(cond.test) != 'self.parameters':
        return bad
    tb, eb = nocomment(cond.body), nocomment(cond.orelse)
    if len(eb) != 1 or not isinstance(eb[0], ast.Assign) or u(eb[0].value) != "''":
        return bad
    pname = u(eb[0].targets[0])
    lead = joined = None
    if len(tb) == 2 and isinstance(tb[0], ast.Assign) and u(tb[0].targets[0]) == pname and isinstance(tb[0].value, ast.Constant) \
            and isinstance(tb[1], ast.AugAssign) and isinstance(tb[1].op, ast.Add) and u(tb[1].target) == pname:
        lead, joined = tb[0].value.value, tb[1].value
    elif len(tb) == 1 and isinstance(tb[0], ast.Assign) and u(tb[0].targets[0]) == pname and isinstance(tb[0].value, ast.BinOp) \
            and isinstance(tb[0].value.op, ast.Add) and isinstance(tb[0].value.left, ast.Constant):
        lead, joined = tb[0].value.left.value, tb[0].value.right
    if not isinstance(lead, str) or not (isinstance(joined, ast.Call) and isinstance(joined.func, ast.Attribute) and joined.func.attr == 'join'
                                         and isinstance(joined.func.value, ast.Constant) and len(joined.args) == 1):
        return bad
    sep = joined.func.value.value
    inner = joined.args[0]
    srt = False
    if isinstance(inner, ast.Call) and u(inner.func) == 'sorted' and len(inner.args) == 1 and not inner.keywords:
        srt, inner = True, inner.args[0]
    item = ['.unknown']
    quote_name = None
    if isinstance(inner, (ast.GeneratorExp, ast.ListComp)) and len(inner.generators) == 1 and not inner.generators[0].ifs:
        g = inner.generators[0]
        if isinstance(g.target, ast.Tuple) and len(g.target.elts) == 2 and u(g.iter) == 'self.parameters.items()':
            key, val = u(g.target.elts[0]), u(g.target.elts[1])
            tpl = template(inner.elt)
            for k, a in (tpl or []):
                if k == 'arg' and isinstance(a, ast.Call) and u(a.func).startswith('self.') and len(a.args) == 1 and not a.keywords and u(a.args[0]) == val:
                    quote_name = u(a.func)[5:]
            item = pieces(tpl, {key: '.key', val: '.rawValue', 'str(%s)' % val: '.rawValue', 'self.%s(%s)' % (quote_name or '_quote', val): '.quotedValue'})
    result = pieces(template(ret.value), {'self.type': '.type', 'self.subtype': '.subtype', pname: '.params'})
    reps = None
    if quote_name:
        try:
            reps = quote_fn(find(cls, quote_name))
        except ValueError:
            reps = None
    quote = '[(0, [])]' if reps is None else '[%s]' % ', '.join('(%d, %s)' % (ord(a), text(r)) for a, r in reps)     # (0, []) deletes NULs: not the reference
    return '{ guardOnParams := true, lead := %s, sep := %s, sorted := %s, item := [%s], result := [%s], quote := %s }' % (
        text(lead), text(sep), 'true' if srt else 'false', ', '.join(item), ', '.join(result), quote)


# ---------------------------------------------------------------- _make_content_type: the charset work-around
def charset_fix(fn):
    bad = '{ guardKey := [], scope := .unknown, cut := 0 }'
    b = body_of(fn)
    if len(b) < 2 or not isinstance(b[-1], ast.Return) or not isinstance(b[-2], ast.If):
        return bad
    ret, g = b[-1], pynorm.split_and(b[-2])              # `if A and B: S` is `if A: if B: S`
    if not (isinstance(ret.value, ast.Call) and u(ret.value.func) == 'ContentType' and len(ret.value.args) == 3):
        return bad
    params = u(ret.value.args[2])
    t = g.test
    if g.orelse or not (isinstance(t, ast.Compare) and len(t.ops) == 1 and isinstance(t.ops[0], ast.In) and isinstance(t.left, ast.Constant)
                        and isinstance(t.left.value, str) and u(t.comparators[0]) == params):
        return bad
    gkey = t.left.value
    inner = nocomment(g.body)
    scope, cut = '.unknown', 0
    if len(inner) == 1 and isinstance(inner[0], ast.If) and not inner[0].orelse:
        t2 = inner[0].test
        asg = nocomment(inner[0].body)
        if isinstance(t2, ast.Compare) and len(t2.ops) == 1 and isinstance(t2.ops[0], ast.In) and isinstance(t2.left, ast.Constant) \
                and isinstance(t2.left.value, str) and len(t2.left.value) == 1 and isinstance(t2.comparators[0], ast.Subscript) \
                and u(t2.comparators[0].value) == params and isinstance(t2.comparators[0].slice, ast.Constant) and len(asg) == 1:
            key, c = t2.comparators[0].slice.value, t2.left.value
            cell = '%s[%r]' % (params, key)
            # what precedes the first `c` (under `if c in v`): v[:v.find(c)], v.split(c)[0], v.split(c, 1)[0], v.partition(c)[0]
            if u(asg[0]) in ['%s = %s' % (cell, rhs) for rhs in ('%s[:%s.find(%r)]' % (cell, cell, c), '%s.split(%r)[0]' % (cell, c),
                                                               '%s.split(%r, 1)[0]' % (cell, c), '%s.partition(%r)[0]' % (cell, c))]:
                scope, cut = '(.onlyKey %s)' % text(key), ord(c)
    elif len(inner) == 1 and isinstance(inner[0], ast.For) and u(inner[0].iter) == params + '.items()' and isinstance(inner[0].target, ast.Tuple):
        n, v = [u(e) for e in inner[0].target.elts]
        fb = nocomment(inner[0].body)
        if len(fb) == 1 and isinstance(fb[0], ast.If) and not fb[0].orelse and isinstance(fb[0].test, ast.Compare) and isinstance(fb[0].test.left, ast.Constant) \
                and u(fb[0].test.comparators[0]) == v and len(fb[0].test.left.value) == 1:
            c = fb[0].test.left.value
            if [u(y) for y in nocomment(fb[0].body)] == ['%s[%s] = %s[:%s.find(%r)]' % (params, n, v, v, c)]:
                scope, cut = '.everyParam', ord(c)
    return '{ guardKey := %s, scope := %s, cut := %d }' % (text(gkey), scope, cut)


def generate(repo):
    c = ast.parse(open(os.path.join(repo, 'testtools', 'content.py')).read())
    ct = ast.parse(open(os.path.join(repo, 'testtools', 'content_type.py')).read())
    real = ast.parse(open(os.path.join(repo, 'testtools', 'testresult', 'real.py')).read())
    return '''import TTV.Model.ContentSkel
/-! GENERATED by harness/pycontent2lean.py from testtools/content.py, content_type.py and testresult/real.py on every run - do not edit.
`Content._iter_text`, `content_from_reader`, `content_from_stream` / `content_from_file`, `_iter_chunks`, `ContentType.__repr__` / `_quote` and the
charset work-around of `_make_content_type`, as data. -/
namespace TTV.Generated.ContentSrc
open TTV.ContentSkel

def iterText : List TextStep := %s

def asText : List AsTextStep := %s

def contentFromReader : List ReaderStep := %s

def contentFromStream : List MakeStep := %s

def contentFromFile : List MakeStep := %s

def iterChunks : ChunksSrc :=
    %s

def reprCT : ReprSrc :=
    %s

def charsetFix : FixSrc :=
    %s

end TTV.Generated.ContentSrc
''' % (iter_text(find(c, 'Content._iter_text')), as_text(find(c, 'Content.as_text')), content_from_reader(find(c, 'content_from_reader')),
       content_from_source(find(c, 'content_from_stream'), False), content_from_source(find(c, 'content_from_file'), True), iter_chunks(find(c, '_iter_chunks')),
       repr_fn(find(ct, 'ContentType')), charset_fix(find(real, '_make_content_type')))


if __name__ == '__main__':
    import sys
    print(generate(sys.argv[1] if len(sys.argv) > 1 else '/repo'))
