"""M-Run correspondence harness shared by C01, C02, C03, C05: builds real testtools.TestCase objects from a
`Program` tree, runs them against a recording result of the requested flavour, and canonicalises what
happened into the trace alphabet of lean/TTV/Drv/RunCodec.lean.

Program tree (see RunCodec.lean):
  (prog skipDeco xfailDeco setUp body tearDown ((cls reporter)...) nOnExc ((attr val)...) flavour)
  stage = (stage id (act...) term)
"""
import ast, os, re, sys, unittest
from harness.core import Prop, some, sx

BASE_NAMES = {0: 'traceback', 1: 'Failed expectation', 2: 'reason', 3: 'foo', 4: 'bar', 5: 'twisted-log', 6: 'béta', 7: ''}
NAME_BASE = {v: k for k, v in BASE_NAMES.items()}
MISMATCH_CLS = ['user', 900, 'failure']      # testtools.matchers.MismatchError (subclass of AssertionError)
SETUPERR_CLS = ['user', 901, 'exc']          # fixtures.fixture.SetupError
MULTI_CLS = ['user', 902, 'exc']             # a MultipleExceptions object itself


def render_name(n):
    return BASE_NAMES[n[0]] + ''.join('-%d' % k for k in n[1:])


def parse_name(s):
    """inverse of render_name: split trailing -<canonical decimal> groups off until a known base remains"""
    sufs = []
    while s not in NAME_BASE:
        m = re.match(r'^(.*)-(0|[1-9][0-9]*)$', s)
        if not m:
            return ['unknown-name'] + sufs
        s = m.group(1)
        sufs.insert(0, int(m.group(2)))
    return [NAME_BASE[s]] + sufs


class World:
    """lazily created classes bound to the testtools under test"""

    def __init__(self):
        import testtools
        from testtools.testcase import _ExpectedFailure, _UnexpectedSuccess
        from testtools.matchers import Mismatch, MismatchError
        from testtools import MultipleExceptions
        import fixtures
        self.tt = testtools
        self.fixtures = fixtures
        self.MultipleExceptions = MultipleExceptions
        self.MismatchError = MismatchError
        self.Mismatch = Mismatch

        class BaseX(BaseException):
            pass
        self.pycls = {'base': BaseX, 'exc': ValueError, 'skip': unittest.SkipTest, 'failure': AssertionError,
                      'xfail': _ExpectedFailure, 'uxs': _UnexpectedSuccess, 'ki': KeyboardInterrupt, 'sysexit': SystemExit}
        self.usercls = {}
        self.SetupError = fixtures.fixture.SetupError

    def cls(self, c):
        if isinstance(c, str):
            return self.pycls[c]
        key = sx(c)
        if key not in self.usercls:
            if c == MISMATCH_CLS:
                self.usercls[key] = self.MismatchError
            elif c == SETUPERR_CLS:
                self.usercls[key] = self.SetupError
            elif c == MULTI_CLS:
                self.usercls[key] = self.MultipleExceptions
            else:
                # every third user class makes falsy instances (an empty aggregate exception): nothing may depend on bool(exception)
                self.usercls[key] = type('U%d' % c[1], (self.cls(c[2]),), {'__bool__': lambda self: False} if c[1] % 3 == 0 else {})
        return self.usercls[key]

    #: realisation hint ['empty-reason', tag]: the reason carrying this tag is the empty string (falsy but valid)
    empty_reason_tag = None
    object_reason_tag = None

    def reason_text(self, tag):
        text = '' if tag == self.empty_reason_tag else 'reason-%d' % tag
        if tag == self.object_reason_tag:
            # realisation hint ['object-reason', tag]: the reason is not a str but something that can be cast to one
            # (the idiom `except ImportError as e: self.skipTest(e)`)
            return ImportError(text)
        return text

    def make_exc(self, e):
        cls, tag = e
        k = self.cls(cls)
        if cls == MULTI_CLS:
            # a member that is itself an (empty) MultipleExceptions: nothing to unpack, it is reported itself, as an error
            x = k()
            x.verif = [cls, tag]
            return x
        if k is unittest.SkipTest or (isinstance(k, type) and issubclass(k, unittest.SkipTest)):
            x = k(self.reason_text(tag))
        else:
            x = k('x%d' % tag)
        x.verif = [cls, tag]
        return x

    def canon_exc(self, x):
        v = getattr(x, 'verif', None)
        if v is not None:
            return v
        from testtools.testcase import _ExpectedFailure, _UnexpectedSuccess
        if type(x) is _ExpectedFailure:
            return ['xfail', 0]
        if type(x) is _UnexpectedSuccess:
            return ['uxs', 0]
        if type(x) is AssertionError:      # untagged: made by the framework (the forced failure), whatever its wording
            return ['failure', 0]
        return ['unknown-exception', type(x).__name__]


W = None


def world():
    global W
    if W is None:
        W = World()
    return W


def exc_info_of(x):
    try:
        raise x
    except BaseException:
        return sys.exc_info()


class Clock:
    def __init__(self):
        self.t = 0


def make_content(w, uc, clock):
    from testtools.content import Content
    from testtools.content_type import ContentType
    cid, lazy = uc
    if lazy:
        return Content(ContentType('application', 'x-verif-lazy'), lambda: [b'lazy %d ' % cid, b'%d' % clock.t])
    # non-UTF-8 bytes, empty chunk, several chunks
    return Content(ContentType('application', 'octet-stream'), lambda: [b'user %d' % cid, b'', b' \xff\xfe'])


def canon_content(w, c):
    """a Content object as read now -> Content tree"""
    try:
        data = b''.join(c.iter_bytes())
    except Exception as e:
        return ['unreadable', type(e).__name__]
    m = re.match(rb'^user (\d+) \xff\xfe$', data)
    if m:
        return ['user', int(m.group(1)), False]
    m = re.match(rb'^lazy (\d+) (\d+)$', data)
    if m:
        return ['frozen', int(m.group(1)), int(m.group(2))]
    text = data.decode('utf8', 'replace')
    m = re.match(r'^(?:reason-|x)(\d+)$', text)
    if m and c.content_type.type == 'text':
        return ['reason', int(m.group(1))]
    if text == '' and c.content_type.type == 'text' and w.empty_reason_tag is not None:
        return ['reason', w.empty_reason_tag]
    if c.content_type.type == 'text' and c.content_type.subtype == 'plain' and '\n' not in text.strip():   # framework-made texts carry tag 0, whatever their wording
        return ['reason', 0]
    lines = text.strip().splitlines()
    last = lines[-1] if lines else ''
    m = re.match(r'^MismatchError: mm(\d+)$', last)
    if m:
        # StacktraceContent of a failed expectation: its postfix carries no module prefix
        return ['expectation', int(m.group(1))]
    if c.content_type.subtype == 'x-traceback':
        m = re.match(r'^(?:[\w.<>]+\.)?(\w+)(?:: (.*))?$', last)
        if not m:
            return ['tb', ['unknown-traceback', 0]]
        cls = name_to_cls(w, m.group(1))
        msg = m.group(2) or ''
        t = re.search(r'setup-tag-(\d+)', msg) or re.match(r'^(?:x|reason-|mm)(\d+)$', msg)
        if t:
            tag = int(t.group(1))
        elif msg == '' and w.empty_reason_tag is not None and (cls == 'skip' or (isinstance(cls, list) and 'skip' in str(cls))):
            tag = w.empty_reason_tag                     # the skip whose reason is the empty string
        elif cls == 'failure' or cls == MULTI_CLS:      # an AssertionError without a harness tag: the forced failure, whatever its wording
            tag = 0
        else:
            return ['tb', [cls, 'unknown-tag']]
        return ['tb', [cls, tag]]
    return ['unknown-content', c.content_type.type + '/' + c.content_type.subtype]


def name_to_cls(w, name):
    for k, v in w.pycls.items():
        if v.__name__ == name:
            return k
    if name == 'MismatchError':
        return MISMATCH_CLS
    if name == 'SetupError':
        return SETUPERR_CLS
    if name == 'MultipleExceptions':
        return MULTI_CLS
    for key, v in w.usercls.items():
        if v.__name__ == name:
            from harness.core import parse_sx
            return fix_ints(parse_sx(key))
    return 'unknown-class-' + name


def fix_ints(t):
    if isinstance(t, list):
        return [fix_ints(x) for x in t]
    return int(t) if re.match(r'^\d+$', t) else t


def canon_details(w, details):
    out = []
    for name, c in details.items():
        n = parse_name(name)
        cc = canon_content(w, c)
        # StacktraceContent of a failed expectation has subtype x-traceback too
        out.append([n, cc])
    return out


# ------------------------------------------------------------------ recording results

def make_sink(w, flavour, log):
    tt = w.tt

    def out(kind):
        def f(self, test, *a, **kw):
            details = kw.get('details')
            if details is None and len(a) >= 2:
                details = a[1]
            reason = kw.get('reason')
            if kind == 'skip' and reason is None and a and isinstance(a[0], str):
                reason = a[0]
            if details is not None:
                d = canon_details(w, details)
            elif reason is not None:
                m = re.match(r'^(?:reason-|x)(\d+)$', reason)
                d = [[[2], ['reason', int(m.group(1))]]] if m else []   # anything else is the details-to-text rendering
                if reason == '' and w.empty_reason_tag is not None:
                    d = [[[2], ['reason', w.empty_reason_tag]]]
            else:
                d = []
            log.append(['outcome', kind, d])
        return f

    def ev(name):
        def f(self, *a, **kw):
            log.append(name)
        return f

    if flavour in ('ext', 'tt', 'none_'):
        if flavour == 'ext':
            base = object
        else:
            base = tt.TestResult
        ns = {}
        for kind, meth in (('success', 'addSuccess'), ('failure', 'addFailure'), ('error', 'addError'), ('skip', 'addSkip'),
                           ('xfail', 'addExpectedFailure'), ('uxs', 'addUnexpectedSuccess')):
            ns[meth] = out(kind)
        for name in ('startTest', 'stopTest', 'startTestRun', 'stopTestRun'):
            ns[name] = ev(name)
        if flavour != 'ext':
            # keep testtools.TestResult's own bookkeeping running underneath
            for meth in list(ns):
                rec, sup = ns[meth], getattr(base, meth)

                def both(self, *a, _rec=rec, _sup=sup, **kw):
                    _rec(self, *a, **kw)
                    return _sup(self, *a, **kw)
                ns[meth] = both
        return type('Sink_' + flavour, (base,), ns)()
    if flavour in ('py27', 'py26', 'twisted'):
        ns = {}

        def add(kind):
            def f(self, test, *a):
                d = []
                if kind == 'skip' and a and isinstance(a[0], str):
                    m = re.match(r'^(?:reason-|x)(\d+)$', a[0])
                    d = [[[2], ['reason', int(m.group(1))]]] if m else []   # anything else is the details-to-text rendering
                    if a[0] == '' and w.empty_reason_tag is not None:
                        d = [[[2], ['reason', w.empty_reason_tag]]]
                log.append(['outcome', kind, d])
            return f
        kinds = [('success', 'addSuccess'), ('failure', 'addFailure'), ('error', 'addError')]
        if flavour != 'py26':
            kinds += [('skip', 'addSkip'), ('xfail', 'addExpectedFailure'), ('uxs', 'addUnexpectedSuccess')]
        for kind, meth in kinds:
            ns[meth] = add(kind)
        ns['startTest'] = ev('startTest')
        ns['stopTest'] = ev('stopTest')
        if flavour == 'py27':
            ns['startTestRun'] = ev('startTestRun')
            ns['stopTestRun'] = ev('stopTestRun')
        if flavour == 'twisted':
            ns['done'] = lambda self: None
            ns['addExpectedFailure'] = lambda self, test, failure, todo=None: log.append(['outcome', 'xfail', []])
            ns['addUnexpectedSuccess'] = lambda self, test, todo=None: log.append(['outcome', 'uxs', []])
        return type('Sink_' + flavour, (object,), ns)()
    if flavour == 'stream':
        from testtools.testresult.real import ExtendedToStreamDecorator
        STATUS = {'success': 'success', 'fail': 'failure', 'skip': 'skip', 'xfail': 'xfail', 'uxsuccess': 'uxs'}

        class S(tt.StreamResult):
            def status(self, test_id=None, test_status=None, **kw):
                if test_status == 'inprogress':
                    log.append('startTest')
                elif test_status in STATUS:
                    log.append(['outcome', STATUS[test_status], []])
                elif test_status is not None:
                    log.append(['outcome', 'unknown-status-' + test_status, []])
        return ExtendedToStreamDecorator(S())
    raise ValueError(flavour)


# ------------------------------------------------------------------ building the TestCase

def build_case(w, prog, log, clock, scratch, sink_factory, hints=()):
    _, skip_deco, xfail_deco, su, bo, td, handlers, n_on_exc, attrs0, flavour = prog
    tt = w.tt

    class Mm(w.Mismatch):
        def __init__(self, mid, ds):
            self.mid, self.ds = mid, ds

        def describe(self):
            return 'mm%d' % self.mid

        def get_details(self):
            return {render_name(n): make_content(w, uc, clock) for n, uc in self.ds}

    class Never:
        def __init__(self, mid, ds):
            self.mid, self.ds = mid, ds

        def match(self, x):
            return Mm(self.mid, self.ds)

        def __str__(self):
            return 'Never(%d)' % self.mid

    def mk_fixture(fid, ds, cleanup_stage, case, fail=None):
        class Fx(w.fixtures.Fixture):
            def _setUp(self):
                for n, uc in ds:
                    self.addDetail(render_name(n), make_content(w, uc, clock))
                if fail is not None:
                    # cleanups registered before the failure that raise while fixtures unwinds the half-set-up fixture
                    # (they run last-registered first, so register them in reverse)
                    for ce in reversed(fail[2]):
                        self.addCleanup(lambda _e=ce: (_ for _ in ()).throw(w.make_exc(_e)))
                    raise w.make_exc(fail[0])
                if cleanup_stage is not None:
                    self.addCleanup(run_stage, case, cleanup_stage)

            def setUp(self):
                try:
                    super().setUp()
                except w.fixtures.MultipleExceptions as m:
                    if fail is not None:
                        se = m.args[-1][1]
                        se.verif = fail[1]
                        se.args = (se.args[0], 'setup-tag-%d' % fail[1][1])
                    raise
        return Fx()

    def mk_bad_details_fixture(case, cleanup_stage, e):
        class FxBad(w.fixtures.Fixture):
            def _setUp(self):
                self.addCleanup(run_stage, case, cleanup_stage)
                self._armed = True

            def getDetails(self):
                if getattr(self, '_armed', False):
                    self._armed = False
                    raise w.make_exc(e)
                return super().getDetails()
        return FxBad()

    def call_fn(fn=None):
        return fn()

    def call_kw(**kw):      # (a cleanup whose one keyword argument may have ANY name)
        (thunk,) = kw.values()
        return thunk()

    def run_stage(case, st, upcall=None):
        _, sid, acts, term = st
        clock.t += 1
        log.append(['stage', sid])
        # realisation hint ['late-upcall', sid]: setUp / tearDown do their own work first and upcall afterwards
        late = upcall is not None and ['late-upcall', sid] in hints
        if upcall is not None and not late:
            upcall()
        for idx, a in enumerate(acts):
            k = a[0]
            if k == 'cleanup' and sid in hints and idx == len(acts) - 1 and isinstance(term, list) and term[0] == 'raise1':
                # realisation hint: the same behaviour (register the cleanup, then raise) through useFixture() of a fixture
                # whose setUp succeeds and whose getDetails() raises when useFixture asks for it
                case.useFixture(mk_bad_details_fixture(case, a[1], term[1]))
                raise AssertionError('harness: useFixture should have raised')
            if k == 'cleanup' and ['kwfn', a[1][1]] in hints:
                # realisation hint ['kwfn', id of the cleanup stage]: the cleanup takes a keyword argument called fn
                case.addCleanup(call_fn, fn=(lambda _c=a[1]: run_stage(case, _c)))
            elif k == 'cleanup' and any(isinstance(h, list) and len(h) == 3 and h[:2] == ['kwfn', a[1][1]] for h in hints):
                # ['kwfn', id, name]: ... called `name`, one of the parameter names of the functions the keyword travels through
                # (harness/kwnames.py: addCleanup, _run_cleanups, _run_user, ... - a name collides unless that parameter is positional-only)
                name = [h[2] for h in hints if isinstance(h, list) and len(h) == 3 and h[:2] == ['kwfn', a[1][1]]][0]
                case.addCleanup(call_kw, **{name: (lambda _c=a[1]: run_stage(case, _c))})
            elif k == 'cleanup':
                case.addCleanup(run_stage, case, a[1])
            elif k == 'addDetail':
                case.addDetail(render_name(a[1]), make_content(w, a[2], clock))
            elif k == 'expect':
                case.expectThat(0, Never(a[1], a[2]))
            elif k == 'patch':
                case.patch(scratch, 'a%d' % a[1], attr_value(a[2]))
            elif k == 'useFixture':
                case.useFixture(mk_fixture(a[1], a[2], a[3], case))
        if late:
            upcall()
        if term == 'ret':
            # realisation hint ['retval', sid, k]: the stage returns a value instead of None - nothing may depend on it
            rv = next((h[2] for h in hints if isinstance(h, list) and h[0] == 'retval' and h[1] == sid), 0)
            return [None, EqualToEverything(), NoTruthEq(), 0, '', False, [], ()][rv]
        k = term[0]
        if k == 'raise1':
            if ['api', sid] in hints and term[1][0] in ('skip', 'failure'):
                # realisation hint: the same exception raised through the TestCase helper instead of a raise statement
                try:
                    if term[1][0] == 'skip':
                        case.skipTest(w.reason_text(term[1][1]))
                    else:
                        case.fail('x%d' % term[1][1])
                except (unittest.SkipTest, AssertionError) as x:
                    x.verif = list(term[1])
                    raise
                raise AssertionError('harness: helper did not raise')
            raise w.make_exc(term[1])
        if k == 'raiseMulti':
            infos = [exc_info_of(w.make_exc(e)) for e in term[1]]
            # realisation hint ['nest-multi', sid, k]: the same members, in the same order, grouped into nested
            # MultipleExceptions (a fixture that uses fixtures): 1 = all inside one inner one, 2 = the tail inside an inner
            # one, 3 = head and tail each inside an inner one, 4 = two levels around everything
            nest = next((h[2] for h in hints if isinstance(h, list) and h[0] == 'nest-multi' and h[1] == sid), 0)
            wrap = lambda xs: exc_info_of(w.MultipleExceptions(*xs))
            if infos and nest == 1:
                infos = [wrap(infos)]
            elif len(infos) > 1 and nest == 2:
                infos = infos[:1] + [wrap(infos[1:])]
            elif len(infos) > 1 and nest == 3:
                infos = [wrap(infos[:1]), wrap(infos[1:])]
            elif infos and nest == 4:
                infos = [wrap([wrap(infos)])]
            me = w.MultipleExceptions(*infos)
            me.verif = term[2]
            raise me
        if k == 'assertFail':
            try:
                case.assertThat(0, Never(term[1][1], term[2]))
            except w.MismatchError as e:
                e.verif = term[1]
                raise
        if k == 'expectFailure':
            _, r, eo, x = term
            if eo is not None:
                def pred():
                    raise w.make_exc(eo[1])
            else:
                def pred():
                    return None
            try:
                case.expectFailure(w.reason_text(r), pred)
            except Exception as e:
                e.verif = x
                raise
        if k == 'fixtureFail':
            case.useFixture(mk_fixture(0, term[1], None, case, fail=(term[2], term[4], term[3])))
        raise AssertionError('harness: bad terminal %r' % (term,))

    pending_handlers = []

    class T(tt.TestCase):
        def setUp(self):
            # realisation hint ['late-handlers']: the user's handlers are inserted by the test itself, as the first thing
            # setUp does (doc/for-framework-folk.rst: "self.exception_handlers.insert(...)"; the list "is able to be
            # modified at any time"), not on the instance before run()
            while pending_handlers:
                self.exception_handlers.insert(0, pending_handlers.pop(0))
            return run_stage(self, su, super().setUp)

        def tearDown(self):
            return run_stage(self, td, super().tearDown)

        def test(self):
            return run_stage(self, bo)

        def defaultTestResult(self):
            return sink_factory()
    if xfail_deco:
        T.test = unittest.expectedFailure(T.test)
    if skip_deco is not None:
        # realisation hint ['skip', k]: which of the equivalent skip decorators is used, on the method or on the class
        real = next((h[1] for h in hints if isinstance(h, list) and h[0] == 'skip'), 0)
        why = w.reason_text(skip_deco[1])
        import testtools.testcase as ttc
        deco = [unittest.skip(why), ttc.skip(why), ttc.skipIf(True, why), ttc.skipUnless(False, why)][real % 4]
        if real >= 4:
            T = deco(T)
        else:
            T.test = deco(T.test)
    # realisation hint ['runner', k]: the four equivalent ways of saying "run this test with testtools.RunTest"
    runner = next((h[1] for h in hints if isinstance(h, list) and h[0] == 'runner'), 0)
    if runner == 1:
        T.test = tt.run_test_with(tt.RunTest)(T.test)
    elif runner == 2:
        T.run_tests_with = tt.RunTest
    case = T('test', runTest=tt.RunTest) if runner == 3 else T('test')
    for (cls, rep) in reversed(handlers):
        o = rep[-1]
        meth = {'success': 'addSuccess', 'failure': 'addFailure', 'error': 'addError', 'skip': 'addSkip',
                'xfail': 'addExpectedFailure', 'uxs': 'addUnexpectedSuccess'}[o]
        if rep[0] == 'std':
            fn = {'skip': case._report_skip, 'failure': case._report_failure, 'xfail': case._report_expected_failure,
                  'uxs': case._report_unexpected_success, 'error': case._report_error}[o]
        else:
            def fn(c, result, e, _m=meth):
                getattr(result, _m)(c, details=c.getDetails())
        hcls = {'exc': Exception, 'base': BaseException}.get(cls) if isinstance(cls, str) else None
        hcls = hcls or w.cls(cls)
        # realisation hint ['tuple-handler', k]: the class slot of every user handler is a tuple of classes (legal for
        # isinstance(), and how one handler is registered for several classes): the class alone, or next to a class
        # that nothing ever raises
        tk = next((h[1] for h in hints if isinstance(h, list) and h[0] == 'tuple-handler'), 0)
        if tk:
            hcls = [(hcls,), (NeverRaised, hcls), (hcls, NeverRaised), ((hcls,), NeverRaised)][tk - 1]
        if ['late-handlers'] in hints:
            pending_handlers.append((hcls, fn))
        else:
            case.exception_handlers.insert(0, (hcls, fn))
    for h in range(n_on_exc):
        case.addOnException(lambda exc_info, _h=h: log.append(['onExc', _h, w.canon_exc(exc_info[1])]))
    if ['clone'] in hints:
        # realisation hint ['clone']: what is run is a copy made by clone_test_with_new_id (what testscenarios-style
        # multiplication does with constructed tests), not the instance that was constructed; same id, so that nothing
        # else changes
        import testtools.testcase as ttc
        case = ttc.clone_test_with_new_id(case, case.id())
    return case


class NeverRaised(Exception):
    """an exception class no test program raises (filler for tuple-valued handler classes)"""


class EqualToEverything:
    """a value whose == answers True to everything (unittest.mock.ANY style)"""
    def __eq__(self, other):
        return True

    def __ne__(self, other):
        return False

    __hash__ = object.__hash__


class NoTruthEq:
    """a value whose == gives something without a truth value (array style)"""
    def __eq__(self, other):
        class Ambiguous:
            def __bool__(self):
                raise ValueError('the truth value of a comparison with this object is ambiguous')
        return Ambiguous()

    __ne__ = __eq__
    __hash__ = object.__hash__


class Scratch:
    pass


def make_scratch(kind, attrs0):
    """the object whose attributes the test patches. Realisation hint ['scratch', k]: where the pre-test attributes live -
    0 the instance's __dict__, 1 class attributes of the instance's class, 2 a module, 3 slots inherited from a base class (the
    concrete class has a __dict__ too), 4 properties with getter and setter but no deleter"""
    vals = {'a%d' % a: attr_value(v) for a, v in attrs0}
    if kind == 1:
        return type('ScratchCls', (), dict(vals))()
    if kind == 2:
        import types
        m = types.ModuleType('verif_scratch_module')
        for k, v in vals.items():
            setattr(m, k, v)
        return m
    if kind == 3:
        base = type('ScratchSlots', (), {'__slots__': tuple('a%d' % i for i in range(10))})
        o = type('ScratchSlotsChild', (base,), {})()
        for k, v in vals.items():
            setattr(o, k, v)
        return o
    if kind == 4:
        def prop(k):
            return property(lambda self: self._store[k], lambda self, v: self._store.__setitem__(k, v))
        o = type('ScratchProps', (), {k: prop(k) for k in vals})()
        o._store = dict(vals)
        return o
    o = Scratch()
    for k, v in vals.items():
        setattr(o, k, v)
    return o


def read_scratch(o):
    return [[i, attr_canon(getattr(o, 'a%d' % i))] for i in range(10) if hasattr(o, 'a%d' % i)]


class AlwaysEq:
    """an attribute value that compares equal to everything (mock.ANY style)"""
    def __init__(self, v):
        self.v = v

    def __eq__(self, other):
        return True

    def __hash__(self):
        return 0


class NoTruth:
    """an attribute value whose == result has no truth value (numpy-array style)"""
    def __init__(self, v):
        self.v = v

    def __eq__(self, other):
        class R:
            def __bool__(self):
                raise ValueError('truth value of a comparison is ambiguous')
        return R()

    def __hash__(self):
        return 0


def attr_value(v):
    """attribute values are opaque naturals in the model; 100.. and 150.. stand for objects with unusual __eq__"""
    return AlwaysEq(v) if 100 <= v < 150 else NoTruth(v) if 150 <= v < 200 else v


def attr_canon(x):
    return x.v if isinstance(x, (AlwaysEq, NoTruth)) else x


def run_program(inp):
    """-> list of trace trees, one per run of the same instance"""
    w = world()
    prog, runs = inp[0], inp[1]
    hints = list(inp[2]) if len(inp) > 2 else []
    w.empty_reason_tag = next((h[1] for h in hints if isinstance(h, list) and h[0] == 'empty-reason'), None)
    w.object_reason_tag = next((h[1] for h in hints if isinstance(h, list) and h[0] == 'object-reason'), None)
    flavour = prog[-1]
    attrs0 = prog[8]
    log = []
    clock = Clock()
    scratch = make_scratch(next((h[1] for h in hints if isinstance(h, list) and h[0] == 'scratch'), 0), attrs0)
    sink_box = []

    def sink_factory():
        s = make_sink(w, flavour if flavour != 'none_' else 'none_', log)
        sink_box.append(s)
        return s
    case = build_case(w, prog, log, clock, scratch, sink_factory, hints)
    traces = []
    for _ in range(runs):
        del log[:]
        clock.t = 0
        raised = None
        try:
            if flavour == 'none_':
                case.run()
            else:
                case.run(make_sink(w, flavour, log))
        except BaseException as e:
            raised = w.canon_exc(e)
            if raised[0] == 'unknown-exception':
                raised = ['unknown-exception', type(e).__name__ + ':' + re.sub(r'[\s()]+', '_', str(e))[:80]]
        attrs = read_scratch(scratch)
        traces.append([list(log), some(raised), bool(getattr(case, 'force_failure', False)), len(case._cleanups), attrs])
    return traces


def extract_tables(repo):
    """tie 1: read exception_handlers and the no-traceback classes out of testcase.py"""
    src = open(os.path.join(repo, 'testtools', 'testcase.py')).read()
    tree = ast.parse(src)
    rows, notb = None, None
    CLS = {'self.skipException': 'skip', 'self.failureException': 'failure', '_ExpectedFailure': 'xfail',
           '_UnexpectedSuccess': 'uxs', 'Exception': 'exception'}
    REP = {'skip': 'self._report_skip', 'failure': 'self._report_failure', 'xfail': 'self._report_expected_failure',
           'uxs': 'self._report_unexpected_success', 'exception': 'self._report_error'}
    for node in ast.walk(tree):
        if isinstance(node, ast.Assign) and len(node.targets) == 1 and ast.unparse(node.targets[0]) == 'self.exception_handlers':
            rows = []
            for elt in node.value.elts:
                c, r = ast.unparse(elt.elts[0]), ast.unparse(elt.elts[1])
                if c not in CLS or REP[CLS[c]] != r:
                    raise ValueError('unexpected exception_handlers row (%s, %s)' % (c, r))
                rows.append(CLS[c])
        if isinstance(node, ast.FunctionDef) and node.name == 'onException':
            for sub in ast.walk(node):
                if isinstance(sub, ast.Compare) and isinstance(sub.ops[0], ast.NotIn) and ast.unparse(sub.left) == 'exc_info[0]':
                    notb = [CLS[ast.unparse(e)] for e in sub.comparators[0].elts]
    if rows is None or notb is None:
        raise ValueError('exception_handlers / onException exemption list not found in testcase.py')
    text = '''/-! GENERATED by harness/mrun.py (extract_tables) from testtools/testcase.py — do not edit.
`exception_handlers` as assigned in `TestCase.__init__` (order matters: first isinstance match wins) and the
classes that `TestCase.onException` exempts from traceback reporting. -/
namespace TTV.Generated.C01

inductive HandlerRow where
  | skip | failure | xfail | uxs | exception
deriving DecidableEq, Repr

def exceptionHandlers : List HandlerRow := [%s]

def noTracebackRows : List HandlerRow := [%s]

end TTV.Generated.C01
''' % (', '.join('.' + r for r in rows), ', '.join('.' + r for r in notb))
    from harness import pyskel
    return {'TTV/Generated/C01.lean': text, 'TTV/Generated/RunSkel.lean': pyskel.generate(repo)}


# ------------------------------------------------------------------ generator

RAISE_KINDS = [('failure', 14), ('exc', 14), ('skip', 10), ('xfail', 6), ('uxs', 6), ('ki', 9), ('sysexit', 7),
               (['user', 1, 'skip'], 4), (['user', 2, 'exc'], 6), (['user', 3, 'failure'], 4), (['user', 4, 'ki'], 3), ('base', 2)]
USER_NAMES = [[3], [3], [4], [5], [6], [3, 1], [0], [0, 1], [0, 1, 2], [0, 2], [1], [1, 1], [4, 2], [7], [7, 1]]   # base 7: the empty name
FLAVOURS = ['ext', 'ext', 'ext', 'tt', 'none_', 'py27', 'py26', 'twisted', 'stream']


class Gen:
    def __init__(self, rng, focus='all'):
        self.rng = rng
        self.focus = focus
        self.sid = 0
        self.tag = 0
        self.cid = 0
        self.mid = 0
        self.fid = 0
        self.kinds = RAISE_KINDS

    def pick(self, weighted):
        tot = sum(w for _, w in weighted)
        r = self.rng.random() * tot
        for v, w in weighted:
            r -= w
            if r <= 0:
                return v
        return weighted[-1][0]

    def exc(self, kinds=None):
        self.tag += 1
        return [self.pick(kinds or self.kinds), self.tag]

    def uc(self):
        self.cid += 1
        return [self.cid, self.rng.random() < 0.3]

    def name(self):
        return list(self.rng.choice(USER_NAMES))

    def nucs(self, lo=0, hi=2):
        out = []
        for _ in range(self.rng.randint(lo, hi)):
            n = self.name()
            if out and self.rng.random() < 0.3:
                n = out[0][0] + [1]                 # 'foo' and 'foo-1' in ONE dict: renaming must not collide with a sibling
            if n not in [x[0] for x in out]:      # a details dict cannot hold a name twice
                out.append([n, self.uc()])
        return out

    def stage(self, depth, body=False, deco=False, quiet=0.45):
        rng = self.rng
        self.sid += 1
        sid = self.sid
        acts = []
        for _ in range(rng.choice([0, 0, 1, 1, 2, 3])):
            r = rng.random()
            if r < 0.40 and depth < 2:
                acts.append(['cleanup', self.stage(depth + 1)])
            elif r < 0.58:
                n = self.name()
                if n[0] in (0, 1) and rng.random() < 0.7:     # names colliding with generated ones: keep them a minority
                    n = [rng.choice([3, 4, 5, 6])] + n[1:]     # (each such program falls in the lateCollision finding class)
                acts.append(['addDetail', n, self.uc()])
            elif r < 0.72:
                self.mid += 1
                acts.append(['expect', self.mid, self.nucs()])
            elif r < 0.86:
                acts.append(['patch', rng.randrange(3), rng.randrange(1, 9)])
            elif depth < 2:
                self.fid += 1
                acts.append(['useFixture', self.fid, self.nucs(), self.stage(depth + 1, quiet=0.7)])
        r = rng.random()
        if r < quiet:
            term = 'ret'
        elif r < quiet + (1 - quiet) * 0.62:
            term = ['raise1', self.exc()]
        elif r < quiet + (1 - quiet) * 0.78 and not deco:
            n = rng.choice([0, 1, 2, 2, 3])
            # a quarter of the members are themselves empty MultipleExceptions (sometimes all of them); like the outer object
            # they carry tag 0: an empty MultipleExceptions has no message to put a tag in
            pm = rng.choice([0.0, 0.0, 0.25, 1.0])
            term = ['raiseMulti', [[MULTI_CLS, 0] if rng.random() < pm else self.exc() for _ in range(n)], [MULTI_CLS, 0]]
        elif r < quiet + (1 - quiet) * 0.88:
            self.mid += 1
            self.tag += 1
            term = ['assertFail', [MISMATCH_CLS, self.mid], self.nucs()]
        elif r < quiet + (1 - quiet) * 0.95 and not deco:
            self.tag += 1
            if rng.random() < 0.75:
                term = ['expectFailure', self.tag, some(self.exc([('failure', 3), (['user', 3, 'failure'], 1)])), ['xfail', self.tag]]
            else:
                term = ['expectFailure', self.tag, None, ['uxs', self.tag]]
        elif not deco:
            self.tag += 1
            e = self.exc([('exc', 3), ('failure', 1), (['user', 2, 'exc'], 1)])
            ces = [self.exc([('exc', 3), ('failure', 1), ('skip', 1)]) for _ in range(rng.choice([0, 0, 1, 2]))]
            term = ['fixtureFail', self.nucs(), e, ces, [SETUPERR_CLS, self.tag]]
        else:
            term = 'ret'
        return ['stage', sid, acts, term]

    def program(self):
        rng = self.rng
        skip_deco = some(rng.randrange(1, 50)) if rng.random() < 0.04 else None
        xfail_deco = rng.random() < 0.08
        # handlers first: programs with user handlers raise the handled classes (and the benign kinds that could mask
        # them) much more often - otherwise handler precedence is hardly ever exercised together with several exceptions
        handlers = []
        if rng.random() < 0.3:
            all_unsuccessful = rng.random() < 0.7
            for cls in rng.sample([['user', 2, 'exc'], ['user', 1, 'skip'], ['user', 3, 'failure'], 'exc'], rng.randint(1, 2)):
                outs = ['failure', 'error', 'uxs'] if all_unsuccessful else ['failure', 'error', 'uxs', 'skip', 'xfail', 'success']
                if rng.random() < 0.75:
                    rep = ['user', len(handlers), rng.choice(outs)]
                else:
                    # the case's own skip reporter reads the reason off the exception: only for skip classes
                    stds = [o for o in outs if o != 'success' and (o != 'skip' or cls == ['user', 1, 'skip'])]
                    rep = ['std', rng.choice(stds)]
                handlers.append([cls, rep])
            handled = [h[0] for h in handlers]
            self.kinds = [(k, w * 6 if k in handled else (w * 2 if k in ('skip', 'xfail') else w)) for k, w in RAISE_KINDS]
        su = self.stage(0, quiet=0.8)
        bo = self.stage(0, body=True, deco=xfail_deco)
        td = self.stage(0, quiet=0.7)
        n_on_exc = rng.choice([0, 0, 1, 2])
        attrs0 = [[a, rng.choice([10, 10, 110, 160]) + a] for a in range(3) if rng.random() < 0.4]
        flavour = rng.choice(FLAVOURS)
        return ['prog', skip_deco, xfail_deco, su, bo, td, handlers, n_on_exc, attrs0, flavour]


def gen_input(rng, focus='all'):
    g = Gen(rng, focus)
    prog = g.program()
    if prog[2] and isinstance(prog[4][3], list) and prog[4][3][0] == 'raise1' and rng.random() < 0.35:
        # under the @expectedFailure decorator: more often an exception that is not an Exception (the wrapper must let it through)
        prog[4][3][1][0] = rng.choice(['ki', 'sysexit', 'base'])
    runs = rng.choice([1, 1, 2, 2, 3])
    hints = []
    if rng.random() < 0.15:
        # pick a stage, make it end with "register a cleanup, then raise" and ask for the fixture realisation of that
        st = rng.choice(list(all_stages(prog)))
        g.sid += 1
        cu = ['stage', g.sid, [], rng.choice(['ret', 'ret', ['raise1', g.exc([('exc', 3), ('failure', 2), ('skip', 1)])]])]
        st[2].append(['cleanup', cu])
        if not (isinstance(st[3], list) and st[3][0] == 'raise1' and st[3][1][0] in ('exc', 'failure', 'skip')):
            st[3] = ['raise1', g.exc([('exc', 3), ('failure', 2), ('skip', 1)])]
        if not (prog[2] and st is prog[4]):       # not under the expectedFailure decorator (it would wrap the exception)
            hints.append(st[1])
    for st in all_stages(prog):
        if isinstance(st[3], list) and st[3][0] == 'raise1' and st[3][1][0] in ('skip', 'failure') and rng.random() < 0.3:
            hints.append(['api', st[1]])
    for st in (prog[3], prog[5]):
        if st[2] and rng.random() < 0.25:
            hints.append(['late-upcall', st[1]])
    if rng.random() < 0.3:
        hints.append(['runner', rng.randrange(1, 4)])
    if any(a[0] == 'patch' for st in all_stages(prog) for a in st[2]) and rng.random() < 0.6:
        hints.append(['scratch', rng.randrange(1, 5)])
    for st in all_stages(prog):
        if st[3] == 'ret' and rng.random() < 0.12:
            hints.append(['retval', st[1], rng.randrange(1, 8)])
    for st in all_stages(prog):
        for a in st[2]:
            if a[0] == 'cleanup' and rng.random() < 0.15:
                from harness import kwnames
                name = rng.choice(['fn'] + kwnames.names())
                hints.append(['kwfn', a[1][1]] if name == 'fn' else ['kwfn', a[1][1], name])
    if rng.random() < 0.2:
        tags = [st[3][1][1] for st in all_stages(prog) if isinstance(st[3], list) and st[3][0] == 'raise1' and st[3][1][0] == 'skip']
        if prog[1] is not None:
            tags += [prog[1][1]] * 2
        if tags:
            hints.append(['object-reason', rng.choice(tags)])
    if rng.random() < 0.25:
        # one reason in the program is the empty string: a skip raised by a stage, the skip decorator's, or expectFailure's
        tags = [st[3][1][1] for st in all_stages(prog) if isinstance(st[3], list) and st[3][0] == 'raise1' and st[3][1][0] == 'skip']
        tags += [st[3][1] for st in all_stages(prog) if isinstance(st[3], list) and st[3][0] == 'expectFailure']
        if prog[1] is not None:
            tags += [prog[1][1]] * 3
        # not next to a user handler that reports a skip with whatever details there are: through a result without details
        # its reason is the empty string too, and the canonical form could not tell the two empty reasons apart
        own_skip = any(rep[0] != 'std' and rep[-1] == 'skip' for _, rep in prog[6])
        if tags and not own_skip:
            hints.append(['empty-reason', rng.choice(tags)])
    if prog[1] is not None:
        k = rng.randrange(8)
        if k:
            hints.append(['skip', k])
    if prog[6] and rng.random() < 0.4:
        hints.append(['late-handlers'])
    if rng.random() < 0.15:
        hints.append(['clone'])
    if prog[6] and rng.random() < 0.3:
        hints.append(['tuple-handler', rng.randrange(1, 5)])
    for st in all_stages(prog):
        if isinstance(st[3], list) and st[3][0] == 'raiseMulti' and st[3][1] and rng.random() < 0.5:
            hints.append(['nest-multi', st[1], rng.randrange(1, 5)])
    return [prog, runs, hints] if hints else [prog, runs]


# ------------------------------------------------------------------ program inspection (features, shrinking)

def stages_of(st):
    yield st
    for a in st[2]:
        if a[0] == 'cleanup':
            yield from stages_of(a[1])
        elif a[0] == 'useFixture':
            yield from stages_of(a[3])


def all_stages(prog):
    for st in (prog[3], prog[4], prog[5]):
        yield from stages_of(st)


def term_kind(t):
    return t if isinstance(t, str) else t[0]


def exc_kinds(prog):
    for st in all_stages(prog):
        t = st[3]
        if t == 'ret':
            continue
        if t[0] == 'raise1':
            yield sx(t[1][0])
        elif t[0] == 'raiseMulti':
            for e in t[1]:
                yield sx(e[0])


def features(inp, traces):
    prog, runs = inp[0], inp[1]
    f = ['flavour=' + prog[-1], 'runs=%d' % runs] + (['hint:fixture-getDetails-raises'] if len(inp) > 2 and any(isinstance(h, int) for h in inp[2]) else []) + ['hint:skip-decorator-%d' % h[1] for h in (inp[2] if len(inp) > 2 else []) if isinstance(h, list) and h[0] == 'skip'] + ['hint:%s' % h[0] for h in (inp[2] if len(inp) > 2 else []) if isinstance(h, list) and h[0] in ('late-upcall', 'runner', 'empty-reason', 'object-reason', 'kwfn', 'late-handlers', 'clone', 'nest-multi', 'tuple-handler')] + ['hint:retval-%d' % h[2] for h in (inp[2] if len(inp) > 2 else []) if isinstance(h, list) and h[0] == 'retval'] + ['hint:scratch-%d' % h[1] for h in (inp[2] if len(inp) > 2 else []) if isinstance(h, list) and h[0] == 'scratch'] + ['hint:helper-raises' for h in (inp[2] if len(inp) > 2 else []) if isinstance(h, list) and h[0] == 'api'][:1]
    sts = list(all_stages(prog))
    faulty = [s for s in sts if s[3] != 'ret']
    f.append('stages=%s' % (len(sts) if len(sts) < 8 else '8+'))
    f.append('faulty=%s' % (len(faulty) if len(faulty) < 4 else '4+'))
    for s in sts:
        f.append('term:' + term_kind(s[3]))
        for a in s[2]:
            f.append('act:' + a[0])
    for k in set(exc_kinds(prog)):
        f.append('raise:' + k)
    if prog[1] is not None:
        f.append('skipDeco')
    if prog[2]:
        f.append('xfailDeco')
    if prog[6]:
        f.append('userHandlers')
    if prog[7]:
        f.append('onExc')
    if isinstance(traces, list) and traces and isinstance(traces[0], list):
        for ev in traces[0][0]:
            if isinstance(ev, list) and ev[0] == 'outcome':
                f.append('outcome:' + str(ev[1]))
        if traces[0][1] is not None:
            f.append('propagated')
    return f


def nontrivial(inp, traces):
    prog = inp[0]
    sts = list(all_stages(prog))
    return len(sts) >= 4 or any(s[3] != 'ret' for s in sts)


def shrink_stage(st):
    _, sid, acts, term = st
    if term != 'ret':
        yield ['stage', sid, acts, 'ret']
    if isinstance(term, list) and term[0] == 'raiseMulti' and len(term[1]) > 1:
        for i in range(len(term[1])):
            yield ['stage', sid, acts, ['raiseMulti', term[1][:i] + term[1][i + 1:], term[2]]]
    for i, a in enumerate(acts):
        yield ['stage', sid, acts[:i] + acts[i + 1:], term]
        if a[0] == 'cleanup':
            for s in shrink_stage(a[1]):
                yield ['stage', sid, acts[:i] + [['cleanup', s]] + acts[i + 1:], term]
        elif a[0] == 'useFixture':
            for s in shrink_stage(a[3]):
                yield ['stage', sid, acts[:i] + [[a[0], a[1], a[2], s]] + acts[i + 1:], term]
            if a[2]:
                yield ['stage', sid, acts[:i] + [[a[0], a[1], a[2][1:], a[3]]] + acts[i + 1:], term]
        elif a[0] == 'expect' and a[2]:
            yield ['stage', sid, acts[:i] + [[a[0], a[1], a[2][1:]]] + acts[i + 1:], term]


def shrink(inp):
    if len(inp) > 2:
        yield [inp[0], inp[1]]                     # drop the realisation hints
        for cand in shrink([inp[0], inp[1]]):
            yield cand + [inp[2]]
        return
    prog, runs = inp
    if runs > 1:
        yield [prog, runs - 1]
    for idx in (3, 4, 5):
        for s in shrink_stage(prog[idx]):
            yield [prog[:idx] + [s] + prog[idx + 1:], runs]
    if prog[6]:
        for i in range(len(prog[6])):
            yield [prog[:6] + [prog[6][:i] + prog[6][i + 1:]] + prog[7:], runs]
    if prog[7]:
        yield [prog[:7] + [prog[7] - 1] + prog[8:], runs]
    if prog[8]:
        yield [prog[:8] + [[]] + prog[9:], runs]
    if prog[1] is not None:
        yield [prog[:1] + [None] + prog[2:], runs]
    if prog[2]:
        yield [prog[:2] + [False] + prog[3:], runs]
    if prog[-1] != 'ext':
        yield [prog[:-1] + ['ext'], runs]


class RunProp(Prop):
    """base of the four M-Run properties"""
    budgets = {'quick': 2500, 'thorough': 40000}
    time_limit = {'quick': 90, 'thorough': 900}
    focus = 'all'
    assumptions = [
        'CPython try/finally and isinstance semantics; fixtures.Fixture setUp/cleanUp/getDetails contract (modelled, exercised by the correspondence)',
        'traceback TEXT is abstracted to the identity of its exception (last line of the formatted traceback); TracebackContent formatting is not modelled',
        'detail names are split into (base, numeric suffixes) by the harness; base names are taken from a fixed alphabet',
        'exceptions raised by addOnException handlers themselves are outside the quantifier and not generated',
        'readings fixed by the specs (see DESIGN D.5): an outcome "makes the run unsuccessful" when it is a failure, an error or an unexpected success '
        '(testtools\' own classes; what a 2.7-style result makes of an unexpected success is that result\'s business); the no-downgrade clause is '
        'claimed for the stock reporters - a user-inserted handler decides the outcome of its own class; the skip reason is demanded on a skip outcome; '
        'the pre-test value of a patched attribute is what getattr on the patched object returned',
        'exception messages, skip reasons and mismatch texts are encodable text (no lone surrogates: the traceback / reason contents encode strictly as '
        'UTF-8) and exceptions can be formatted by the traceback module; exception classes and handler objects have honest __eq__ (values RETURNED by '
        'stages and values of patched attributes may be hostile: those are generated)',
        'addOnException handlers are registered before run() (handlers registered inside a stage accumulate over re-runs of the same instance: they are '
        'deliberately not reset, see seed C05-c); fixtures attach their details during setUp (with fixtures >= 4 getDetails() returns a copy, so details '
        'added to a fixture after useFixture() returned are not gathered)',
    ]

    def extract_tables(self, repo):
        return extract_tables(repo)

    def gen(self, rng, tier):
        return gen_input(rng, self.focus)

    def run_impl(self, inp):
        try:
            return run_program(inp)
        except Exception as e:
            import traceback
            self.last_error = traceback.format_exc()
            return ['harness-raised', type(e).__name__]

    def nontrivial(self, inp, trace):
        return nontrivial(inp, trace)

    def features(self, inp, trace):
        return features(inp, trace)

    def enumerate(self, tier):
        """bounded-exhaustive small scope: every combination of 8 terminal behaviours for setUp / test method / tearDown with
        0-2 cleanups (5 behaviours each) registered by the test method - i.e. all ordered pairs/triples/... of (kind, stage)"""
        kinds = ['ret', 'failure', 'exc', 'skip', 'xfail', 'uxs', 'ki', 'multi']
        ckinds = ['ret', 'failure', 'exc', 'skip', 'ki']
        tag = [0]

        def term(k):
            tag[0] += 1
            if k == 'ret':
                return 'ret'
            if isinstance(k, list):
                return ['raise1', [k, tag[0]]]
            if k == 'multi':
                tag[0] += 1
                return ['raiseMulti', [['failure', tag[0] - 1], ['skip', tag[0]]], [MULTI_CLS, 0]]
            return ['raise1', [k, tag[0]]]
        import itertools
        cleanup_sets = [()] + [(a,) for a in ckinds] + list(itertools.product(ckinds, ckinds))
        for a in kinds:
            for b in kinds:
                for c in kinds:
                    for cs in cleanup_sets:
                        tag[0] = 0
                        acts = [['cleanup', ['stage', 10 + i, [], term(k)]] for i, k in enumerate(cs)]
                        prog = ['prog', None, False, ['stage', 1, [], term(a)], ['stage', 2, acts, term(b)], ['stage', 3, [], term(c)],
                                [], 1, [], 'ext']
                        yield [prog, 1]
        # handler precedence: a user handler in front of the table x every triple of kinds incl. the handled class
        for hcls, rep in ((['user', 1, 'skip'], ['user', 0, 'error']), (['user', 3, 'failure'], ['user', 0, 'error']),
                          (['user', 2, 'exc'], ['std', 'failure']), (['user', 1, 'skip'], ['std', 'skip'])):
            ks = kinds + [hcls]
            for a in ks:
                for b in ks:
                    for c in ks:
                        tag[0] = 0
                        acts = [['cleanup', ['stage', 10, [], term(c)]]]
                        prog = ['prog', None, False, ['stage', 1, [], 'ret'], ['stage', 2, acts, term(a)], ['stage', 3, [], term(b)],
                                [[hcls, rep]], 0, [], 'ext']
                        yield [prog, 1]

    def shrink(self, inp):
        return shrink(inp)
