"""Python -> Lean translator for the stock matchers and the assertThat family (C06 / C07).

Run on every check of C06 and C07 (through `extract_tables`): the decision structure of the `match()` methods of
testtools/matchers/{_higherorder,_basic,_datastructures,_dict,_exception}.py, of `Mismatch` / `MismatchDecorator` /
`MismatchError.__str__` (_impl.py), of `Warnings.match` / `IsDeprecated` / `WarningMessage` (_warnings.py), of `TestCase._matchHelper / assertThat / expectThat / addDetailUniqueName` (testcase.py) and of
`assert_that` (assertions.py) is re-read from the tree under test and emitted as DATA of the types of `TTV/Model/MatchSkel.lean` into
`TTV/Generated/MatchSrc.lean`.  The interpreters there give the data its meaning over the verdicts of M-Match; `C06_src_*` / `C07_src_*`
(Props/C06.lean, Props/C07.lean) prove `generated = reference` and `interpreter reference = hand-written model`.

The function bodies are first normalised with harness/pynorm.py (docstrings, single-use temporaries, ...) and then by two definitional
rewrites of this module: `uncomp` (a comprehension with one `for` and no `if` that is assigned to a name is the loop that defines it) and
`polar` (ONE layout for every `if`: the branch that always leaves becomes a guard and the other branch follows it; when both or neither
leave, the test that is not negated comes first; an `else:` or a last statement that only does what falling off the end does - `return`,
`return None`, `continue` - is dropped; `bool(e)` is `e`, `not x is None` is `x is not None`).  So inverted if/else, guard clauses, explicit
`return None`, `else` after a returning branch all read alike, and the recognisers read that one layout.  For a test of a sub-result `r`
they know `r is None`, `r is not None`, `r`, `not r`; local and parameter names are taken from the source (renaming is harmless).  What a loop
does with a result is read arm by arm IN ORDER.  Anything else becomes `.unknown` / `false`, which no reference term contains, so the
proofs break.  Neither rewrite moves an effect: only the branch layout changes.

Not translated (recognised by shape only): the augmenting-path search inside `MatchesSetwise.match` (`pairing`): a nested function with a
work queue, a `reached_from` map and a re-pairing `while` loop is classified `.augmentingPaths`; a loop that takes the first accepting
matcher is `.firstAccepting`.  The message-building branches of MatchesSetwise, the texts of mismatch descriptions and `text_repr`
itself (C07 proves that one in Lean from its own model) are not part of the data.
Trusted: this recogniser and that `TTV.MatchSkel.*I` read these forms as Python does.
"""
import ast, copy, os
from harness import pynorm
from harness.pydeferred2lean import find


def u(x):
    return ast.unparse(x)


def body_of(fn):
    return polar(uncomp(pynorm.normal_body(fn)), 'fn')


def uncomp(stmts):
    """`d = {K: V for T in IT}`  ->  `d = {}` ; `for T in IT: d[K] = V`        `l = [E for T in IT]`  ->  `l = []` ; `for T in IT: l.append(E)`
    (the definition of a comprehension with one `for` and no `if`; same evaluations in the same order), for statements of the function body
    whose comprehension variables are used nowhere else in it."""
    out = []
    for s in stmts:
        v = s.value if isinstance(s, ast.Assign) and len(s.targets) == 1 and isinstance(s.targets[0], ast.Name) else None
        if isinstance(v, (ast.DictComp, ast.ListComp)) and len(v.generators) == 1 and not v.generators[0].ifs and not v.generators[0].is_async:
            g = v.generators[0]
            bound = {n.id for n in ast.walk(g.target) if isinstance(n, ast.Name)}
            others = {n.id for t in stmts if t is not s for n in ast.walk(t) if isinstance(n, ast.Name)}
            if not (bound & others) and s.targets[0].id not in bound:
                d = s.targets[0].id
                if isinstance(v, ast.DictComp):
                    init = ast.parse('%s = {}' % d).body[0]
                    step = ast.Assign(targets=[ast.Subscript(value=ast.Name(id=d, ctx=ast.Load()), slice=v.key, ctx=ast.Store())], value=v.value)
                else:
                    init = ast.parse('%s = []' % d).body[0]
                    step = ast.Expr(value=ast.Call(func=ast.Attribute(value=ast.Name(id=d, ctx=ast.Load()), attr='append', ctx=ast.Load()), args=[v.elt], keywords=[]))
                loop = ast.For(target=g.target, iter=g.iter, body=[step], orelse=[])
                out += [ast.fix_missing_locations(init), ast.fix_missing_locations(loop)]
                continue
        out.append(s)
    return out


def params(fn):
    return [a.arg for a in fn.args.args if a.arg != 'self']


# ---------------------------------------------------------------- one layout for every `if`
def _negative(t):
    if isinstance(t, ast.UnaryOp) and isinstance(t.op, ast.Not):
        return True
    return isinstance(t, ast.Compare) and len(t.ops) == 1 and isinstance(t.ops[0], (ast.IsNot, ast.NotIn))


def _neg(t):
    """the test with the opposite truth value, spelled canonically (`x is not None`, `a not in b`, `not e`, and `e` for `not e`)"""
    if isinstance(t, ast.UnaryOp) and isinstance(t.op, ast.Not):
        return t.operand
    if isinstance(t, ast.Compare) and len(t.ops) == 1 and isinstance(t.ops[0], (ast.Is, ast.IsNot, ast.In, ast.NotIn)):
        op = {ast.Is: ast.IsNot, ast.IsNot: ast.Is, ast.In: ast.NotIn, ast.NotIn: ast.In}[type(t.ops[0])]()
        return ast.Compare(left=t.left, ops=[op], comparators=t.comparators)
    return ast.UnaryOp(op=ast.Not(), operand=t)


def _spell(t):
    """`bool(e)` is `e` as a test; `not x is None` is `x is not None`; `not not e` is `e`"""
    if isinstance(t, ast.Call) and u(t.func) == 'bool' and len(t.args) == 1 and not t.keywords:
        return _spell(t.args[0])
    if isinstance(t, ast.UnaryOp) and isinstance(t.op, ast.Not):
        return _neg(_spell(t.operand))
    return t


def _exits(block):
    """does the block always leave the enclosing statement sequence (return / raise / continue / break) at its end?"""
    if not block:
        return False
    s = block[-1]
    if isinstance(s, (ast.Return, ast.Raise, ast.Continue, ast.Break)):
        return True
    if isinstance(s, ast.If) and s.orelse:
        return _exits(s.body) and _exits(s.orelse)
    return False


def _fall(ctx):
    return [ast.Return(value=None)] if ctx == 'fn' else [ast.Continue()]


def _is_fall(s, ctx):
    return (ctx == 'fn' and returns_none(s)) or (ctx == 'loop' and isinstance(s, ast.Continue))


def _nop(block):
    return all(isinstance(x, ast.Pass) for x in block)


def polar(stmts, ctx):
    """One layout for every `if c: X else: Y` - by the definition of if/else, with Y = the statements after the `if` when X always leaves
    (return / raise / continue / break), and Y = what falling off the end does (`return None` in a function, `continue` in a loop body)
    when the `if` is the last statement and has no else:
       exactly one of X, Y always leaves   ->  that one becomes a guard:  `if c: X` ; Y      or      `if not c: Y` ; X
       both leave                          ->  `if p: ..` ; ..   with the test p that is not negated (`not e`, `is not`, `not in` are negated)
       neither leaves                      ->  `if p: .. else: ..` with the test that is not negated
    A last statement that only does what falling off the end does is dropped; `bool(e)` as a test is `e`; `not x is None` is `x is not None`.
    `ctx` says what falling off the end of `stmts` means: 'fn', 'loop', or None (unknown: nothing is assumed).
    Effects and their order are untouched: only the branch layout changes."""
    out = []
    stmts = list(stmts)
    i = 0
    while i < len(stmts):
        s = stmts[i]
        last = i == len(stmts) - 1
        inner = ctx if last else None
        if isinstance(s, (ast.For, ast.While)):
            s = copy.copy(s)
            s.body = polar(s.body, 'loop')
            s.orelse = polar(s.orelse, None)
        elif isinstance(s, ast.Try):
            s = copy.copy(s)
            s.body = polar(s.body, None)
            s.handlers = [ast.ExceptHandler(type=h.type, name=h.name, body=polar(h.body, inner)) for h in s.handlers]
            s.orelse = polar(s.orelse, inner)
            s.finalbody = polar(s.finalbody, None)
        elif isinstance(s, ast.With):
            s = copy.copy(s)
            s.body = polar(s.body, inner)
        elif isinstance(s, ast.If):
            test, X, Y = _spell(s.test), [x for x in s.body if not isinstance(x, ast.Pass)], [x for x in s.orelse if not isinstance(x, ast.Pass)]
            absorbed = False
            if not Y and _exits(X) and not last:
                Y, absorbed = stmts[i + 1:], True
            elif not Y and last and ctx:
                Y = _fall(ctx)
            if absorbed or last:
                X, Y = polar(X, ctx), polar(Y, ctx)          # (a branch that only does what falling off the end does becomes empty)
                tail = True
            else:
                X, Y = polar(X, None), polar(Y, None)
                tail = False
            if not X and Y:
                test, X, Y = _neg(test), Y, X
            ex, ey = _exits(X), _exits(Y)
            if Y and ex and not ey:
                out.append(ast.If(test=test, body=X, orelse=[]))
                out.extend(Y)
            elif Y and ey and not ex:
                out.append(ast.If(test=_neg(test), body=Y, orelse=[]))
                out.extend(X)
            elif Y and ex and ey:
                if _negative(test):
                    test, X, Y = _neg(test), Y, X
                out.append(ast.If(test=test, body=X, orelse=[]))
                out.extend(Y)
            elif Y:
                if _negative(test):
                    test, X, Y = _neg(test), Y, X
                out.append(ast.If(test=test, body=X, orelse=Y))
            else:
                out.append(ast.If(test=test, body=X or [ast.Pass()], orelse=[]))
            if tail:
                break
            i += 1
            continue
        out.append(s)
        i += 1
    while out and ctx and _is_fall(out[-1], ctx):
        out.pop()
    return [ast.fix_missing_locations(x) for x in out]


class _Ren(ast.NodeTransformer):
    def __init__(self, m):
        self.m = m

    def visit_Name(self, n):
        return ast.copy_location(ast.Name(id=self.m.get(n.id, n.id), ctx=n.ctx), n)


def ren(node, m):
    return u(_Ren(m).visit(copy.deepcopy(node)))


def B(x):
    return 'true' if x else 'false'


def S(s):
    return '"' + s.replace('\\', '\\\\').replace('"', '\\"') + '"'


# ---------------------------------------------------------------- tests of a sub-result
NEG = {'.isNone': '.isNotNone', '.isNotNone': '.isNone', '.truthy': '.falsy', '.falsy': '.truthy', '.unknown': '.unknown'}


def is_none_const(e):
    return isinstance(e, ast.Constant) and e.value is None


def res_test(e, r):
    """how the expression `e` tests the value `r` (an expression given as source text)"""
    if isinstance(e, ast.UnaryOp) and isinstance(e.op, ast.Not):
        return NEG[res_test(e.operand, r)]
    if isinstance(e, ast.Compare) and len(e.ops) == 1 and u(e.left) == r and is_none_const(e.comparators[0]):
        if isinstance(e.ops[0], ast.Is):
            return '.isNone'
        if isinstance(e.ops[0], ast.IsNot):
            return '.isNotNone'
    if u(e) == r or u(e) == 'bool(%s)' % r:
        return '.truthy'
    return '.unknown'


def returns_none(s):
    return isinstance(s, ast.Return) and (s.value is None or is_none_const(s.value))


# ---------------------------------------------------------------- loops over sub-results
def act_of(block, r, acc):
    b = list(block)
    if len(b) == 1 and returns_none(b[0]):
        return '.returnNone'
    if len(b) == 1 and isinstance(b[0], ast.Return) and b[0].value is not None and u(b[0].value) == r:
        return '.returnIt'
    if len(b) == 1 and u(b[0]) == '%s.append(%s)' % (acc, r):
        return '.collect'
    if len(b) == 2 and isinstance(b[0], ast.If) and not b[0].orelse and u(b[0].test) == 'self.first_only' \
            and act_of(b[0].body, r, acc) == '.returnIt' and act_of(b[1:], r, acc) == '.collect':
        return '.returnItIfFirstOnlyElseCollect'
    if len(b) == 1 and isinstance(b[0], ast.If) and u(b[0].test) == 'self.first_only' \
            and act_of(b[0].body, r, acc) == '.returnIt' and act_of(b[0].orelse, r, acc) == '.collect':
        return '.returnItIfFirstOnlyElseCollect'
    return '.unknown'


def arms_of(stmts, r, acc):
    """the statements of a loop body after `r = <sub-match>` (in the layout of `polar`): arms in order"""
    arms = []
    i = 0
    while i < len(stmts):
        s = stmts[i]
        if isinstance(s, ast.If):
            t = res_test(s.test, r)
            if len(s.body) == 1 and isinstance(s.body[0], ast.Continue) and not s.orelse:
                arms.append((NEG[t], act_of(stmts[i + 1:], r, acc)))
                break
            arms.append((t, act_of(s.body, r, acc)))
            if s.orelse:
                arms.append((NEG[t], act_of(s.orelse, r, acc)))
                if stmts[i + 1:]:
                    arms.append(('.unknown', '.unknown'))
                break
            if _exits(s.body) and stmts[i + 1:]:
                arms.append((NEG[t], act_of(stmts[i + 1:], r, acc)))
                break
            i += 1
            continue
        arms.append(('.unknown', '.unknown'))
        break
    return arms


def end_of(tail, acc):
    t = [s for s in tail]
    if len(t) == 1 and isinstance(t[0], ast.Return) and t[0].value is not None and u(t[0].value) == 'MismatchesAll(%s)' % acc:
        return '.mismatchesAll'
    if t and isinstance(t[0], ast.If) and u(t[0].test) == acc and len(t[0].body) == 1 and u(t[0].body[0]) == 'return MismatchesAll(%s)' % acc:
        rest = list(t[0].orelse) + t[1:]
        if not rest or (len(rest) == 1 and returns_none(rest[0])):
            return '.mismatchesAllIfAny'
    return '.unknown'


def loop_lean(over, arms, end):
    return '{ over := %s, arms := [%s], atEnd := %s }' % (over, ', '.join('⟨%s, %s⟩' % a for a in arms), end)


BAD_LOOP = '{ over := .unknown, arms := [], atEnd := .unknown }'


def loop_from(stmts, ps):
    """`acc = []`, the `for` loop, the tail -> (over, arms, end); stmts must start at the binding of the accumulator"""
    if len(stmts) < 2 or not (isinstance(stmts[0], ast.Assign) and u(stmts[0].value) == '[]' and isinstance(stmts[0].targets[0], ast.Name)):
        return None
    acc, loop = stmts[0].targets[0].id, stmts[1]
    if not isinstance(loop, ast.For) or loop.orelse or not loop.body:
        return None
    first = loop.body[0]
    if not (isinstance(first, ast.Assign) and isinstance(first.targets[0], ast.Name)):
        return None
    r, call = first.targets[0].id, u(first.value)
    over = '.unknown'
    if isinstance(loop.target, ast.Name) and u(loop.iter) == 'self.matchers' and len(ps) == 1 and call == '%s.match(%s)' % (loop.target.id, ps[0]):
        over = '.matchersSameValue'
    elif isinstance(loop.target, ast.Name) and len(ps) == 1 and u(loop.iter) == ps[0] and call == 'self.matcher.match(%s)' % loop.target.id:
        over = '.valuesSameMatcher'
    elif isinstance(loop.target, ast.Tuple) and len(loop.target.elts) == 2 and len(ps) == 1 and u(loop.iter) == 'zip(self.matchers, %s)' % ps[0] \
            and call == '%s.match(%s)' % (u(loop.target.elts[0]), u(loop.target.elts[1])):
        over = '.zipMatchersValues'
    return over, arms_of(loop.body[1:], r, acc), end_of(stmts[2:], acc), acc


def loop_skel(fn):
    got = loop_from(body_of(fn), params(fn))
    return loop_lean(*got[:3]) if got else BAD_LOOP


# ---------------------------------------------------------------- wrappers
def wrap_ret(block, r, kinds):
    b = list(block)
    if not b or (len(b) == 1 and returns_none(b[0])):
        return '.none'
    if len(b) == 1 and isinstance(b[0], ast.Return) and isinstance(b[0].value, ast.Call):
        f = u(b[0].value.func)
        args = [u(a) for a in b[0].value.args]
        if f in kinds:
            return kinds[f](args, r)
    return '.unknown'


def wrap_skel(fn, kinds):
    b = body_of(fn)
    ps = params(fn)
    bad = '{ test := .unknown, hit := .unknown, miss := .unknown }'
    if len(ps) != 1 or len(b) < 2 or not (isinstance(b[0], ast.Assign) and isinstance(b[0].targets[0], ast.Name)
                                           and u(b[0].value) == 'self.matcher.match(%s)' % ps[0]) or not isinstance(b[1], ast.If):
        return bad
    r = b[0].targets[0].id
    t = res_test(b[1].test, r)
    hit = wrap_ret(b[1].body, r, kinds)
    miss = wrap_ret(list(b[1].orelse) + b[2:], r, kinds)
    if hit == '.none' and miss != '.none':          # said from the side of the branch that builds something
        t, hit, miss = NEG[t], miss, hit
    return '{ test := %s, hit := %s, miss := %s }' % (t, hit, miss)


def after_skel(fn):
    b = body_of(fn)
    ps = params(fn)
    pre = ann = ret = False
    if len(ps) == 1 and len(b) == 3 and isinstance(b[0], ast.Assign) and u(b[0].value) == 'self.preprocessor(%s)' % ps[0]:
        after = u(b[0].targets[0])
        pre = True
        s = b[1]
        if isinstance(s, ast.If) and u(s.test) == 'self.annotate' and len(s.body) == 1 and len(s.orelse) == 1 \
                and isinstance(s.body[0], ast.Assign) and isinstance(s.orelse[0], ast.Assign) and u(s.body[0].targets[0]) == u(s.orelse[0].targets[0]):
            m = u(s.body[0].targets[0])
            v = s.body[0].value
            ann = isinstance(v, ast.Call) and u(v.func) == 'Annotate' and len(v.args) == 2 and u(v.args[1]) == 'self.matcher' \
                and u(s.orelse[0].value) == 'self.matcher'
            ret = u(b[2]) == 'return %s.match(%s)' % (m, after)
    return '{ preprocessFirst := %s, annotateGuarded := %s, returnsInnerOnAfter := %s }' % (B(pre), B(ann), B(ret))


def pred_skel(fn, with_params):
    """layout of `polar`: `if not self.predicate(x): return Mismatch(<message>)`"""
    b = body_of(fn)
    ps = params(fn)
    neg = fmt = off = False
    if len(ps) == 1 and len(b) >= 1 and isinstance(b[0], ast.If) and not b[0].orelse:
        x = ps[0]
        call = 'self.predicate(%s, *self.args, **self.kwargs)' % x if with_params else 'self.predicate(%s)' % x
        neg = u(b[0].test) == 'not ' + call
        want = 'return Mismatch(self.message.format(*(%s,) + self.args, **self.kwargs))' % x if with_params else 'return Mismatch(self.message %% (%s,))' % x
        fmt = len(b[0].body) == 1 and u(b[0].body[0]) == want
        off = len(b) == 1
    return '{ negatedPredicate := %s, oneTupleFormat := %s, fallsOffToNone := %s }' % (B(neg), B(fmt), B(off))


# ---------------------------------------------------------------- _basic.py
OPS = {'operator.eq': '.eq', 'operator.ne': '.ne', 'operator.is_': '.is_', 'operator.__lt__': '.lt', 'operator.lt': '.lt',
       'operator.__gt__': '.gt', 'operator.gt': '.gt', 'operator.__le__': '.le', 'operator.le': '.le', 'operator.__ge__': '.ge',
       'operator.ge': '.ge', 'operator.__eq__': '.eq', 'operator.__ne__': '.ne'}


def bin_skel(tree):
    fn = find(tree, '_BinaryComparison.match')
    b = body_of(fn)
    ps = params(fn)
    o = t = e = False
    # layout of `polar`: `if not self.comparator(other, self.expected): return _BinaryMismatch(...)`, nothing after it
    if len(ps) == 1 and len(b) == 1 and isinstance(b[0], ast.If) and not b[0].orelse:
        test = b[0].test
        t = isinstance(test, ast.UnaryOp) and isinstance(test.op, ast.Not)          # a truthy answer falls off the end: None
        o = t and u(test.operand) == 'self.comparator(%s, self.expected)' % ps[0]
        e = [u(x) for x in b[0].body] == ['return _BinaryMismatch(%s, self.mismatch_string, self.expected)' % ps[0]]
    rows = []
    for c in tree.body:
        if isinstance(c, ast.ClassDef) and any(u(x) == '_BinaryComparison' for x in c.bases):
            op, ms = '.unknown', ''
            for s in c.body:
                if isinstance(s, ast.Assign) and u(s.targets[0]) == 'comparator':
                    op = OPS.get(u(s.value), '.unknown')
                if isinstance(s, ast.Assign) and u(s.targets[0]) == 'mismatch_string' and isinstance(s.value, ast.Constant):
                    ms = s.value.value
                if isinstance(s, ast.FunctionDef) and s.name in ('match', 'comparator'):
                    op = '.unknown'            # an override: not the table any more
            rows.append('⟨%s, %s, %s⟩' % (S(c.name), op, S(ms)))
    return '{ otherThenExpected := %s, truthyReturnsNone := %s, elseBinaryMismatch := %s,\n      rows := [%s] }' % (B(o), B(t), B(e), ', '.join(rows))


def contains_skel(fn):
    b = body_of(fn)
    ps = params(fn)
    notin = els = False
    caught = []
    if len(ps) == 1 and len(b) == 1 and isinstance(b[0], ast.Try) and not b[0].finalbody:
        t = b[0]
        m = ps[0]
        miss = 'return DoesNotContain(%s, self.needle)' % m
        if len(t.body) == 1 and isinstance(t.body[0], ast.If) and not t.body[0].orelse:
            c = u(t.body[0].test)
            notin = c in ('self.needle not in %s' % m, 'not self.needle in %s' % m) and [u(x) for x in t.body[0].body] == [miss]
        for h in t.handlers:
            if [u(x) for x in h.body] == [miss] and h.type is not None:
                caught += [u(x) for x in (h.type.elts if isinstance(h.type, ast.Tuple) else [h.type])]
            else:
                caught.append('?')
        els = not t.orelse or (len(t.orelse) == 1 and returns_none(t.orelse[0]))
    return '{ notInReturnsMismatch := %s, caught := [%s], elseNone := %s }' % (B(notin), ', '.join(S(c) for c in sorted(caught)), B(els))


def same_members_skel(fn):
    b = body_of(fn)
    ps = params(fn)
    a = c = e = False
    if len(ps) == 1 and len(b) >= 3 and all(isinstance(s, ast.Assign) for s in b[:2]):
        o = ps[0]
        x, y = u(b[0].targets[0]), u(b[1].targets[0])
        got = {u(b[0].value): x, u(b[1].value): y}
        eo, oe = got.get('list_subtract(self.expected, %s)' % o), got.get('list_subtract(%s, self.expected)' % o)
        a, c = eo is not None, oe is not None
        # layout of `polar`: `if not <both empty>: return <mismatch>`, nothing after it
        t = b[2].test if isinstance(b[2], ast.If) else None
        if a and c and len(b) == 3 and t is not None and not b[2].orelse and isinstance(t, ast.UnaryOp) and isinstance(t.op, ast.Not) \
                and isinstance(b[2].body[-1], ast.Return) and not returns_none(b[2].body[-1]):
            e = u(t.operand) in ('%s == %s == []' % (eo, oe), '%s == %s == []' % (oe, eo), '%s == [] and %s == []' % (eo, oe),
                                 '%s == [] and %s == []' % (oe, eo), 'not %s and (not %s)' % (eo, oe), 'not %s and (not %s)' % (oe, eo))
    return '{ expectedMinusObserved := %s, observedMinusExpected := %s, bothEmptyReturnsNone := %s }' % (B(a), B(c), B(e))


def call_skel(fn):
    """layout of `polar`: `if not <call>: ... return <mismatch>` and nothing after it (negated: the mismatch is built when the call's answer
    is falsy; otherwiseNone: a truthy answer falls off the end).  `if <call>: return <mismatch>` reads negated := false."""
    b = body_of(fn)
    ps = params(fn)
    bad = '{ call := "?", negated := false, otherwiseNone := false }'
    if len(ps) != 1 or not b or not isinstance(b[0], ast.If) or b[0].orelse:
        return bad
    t = b[0].test
    neg = isinstance(t, ast.UnaryOp) and isinstance(t.op, ast.Not)
    call = ren(t.operand if neg else t, {ps[0]: 'x0'})
    body = b[0].body
    builds = isinstance(body[-1], ast.Return) and not returns_none(body[-1]) and not any(isinstance(n, ast.Return) for x in body[:-1] for n in ast.walk(x))
    return '{ call := %s, negated := %s, otherwiseNone := %s }' % (S(call), B(neg), B(builds and len(b) == 1))


# ---------------------------------------------------------------- _datastructures.py
def listwise_skel(fn):
    b = [s for s in body_of(fn) if not isinstance(s, (ast.Import, ast.ImportFrom))]
    ps = params(fn)
    bad = '{ lengthFirst := false, lengthTest := .unknown, loop := %s }' % BAD_LOOP
    if len(ps) != 1 or len(b) < 4:
        return bad
    v = ps[0]
    # acc = [] ; lm = Annotate("Length mismatch", HasLength(len(self.matchers))).match(values) ; if lm: acc.append(lm) ; loop ; tail
    if not (isinstance(b[0], ast.Assign) and u(b[0].value) == '[]'):
        return bad
    acc = u(b[0].targets[0])
    first, test = False, '.unknown'
    if isinstance(b[1], ast.Assign) and u(b[1].value) == "Annotate('Length mismatch', HasLength(len(self.matchers))).match(%s)" % v:
        lm = u(b[1].targets[0])
        if isinstance(b[2], ast.If) and not b[2].orelse and [u(x) for x in b[2].body] == ['%s.append(%s)' % (acc, lm)]:
            first, test = True, res_test(b[2].test, lm)
    got = loop_from([b[0]] + b[3:], ps)
    return '{ lengthFirst := %s, lengthTest := %s, loop := %s }' % (B(first), test, loop_lean(*got[:3]) if got else BAD_LOOP)


def structure_skel(fn):
    b = body_of(fn)
    ps = params(fn)
    so = an = ga = de = False
    if len(ps) == 1:
        loops = [s for s in b if isinstance(s, ast.For)]
        if len(loops) == 1 and isinstance(loops[0].target, ast.Tuple) and len(loops[0].target.elts) == 2:
            lp = loops[0]
            attr, m = u(lp.target.elts[0]), u(lp.target.elts[1])
            so = u(lp.iter) == 'sorted(self.kws.items())'
            body = [u(x) for x in lp.body]
            names = [u(s.targets[0]) for s in b if isinstance(s, ast.Assign) and u(s.value) == '[]']
            if len(names) == 2 and len(body) == 2:
                for ms, vs in (names, names[::-1]):
                    if body == ['%s.append(Annotate(%s, %s))' % (ms, attr, m), '%s.append(getattr(%s, %s))' % (vs, ps[0], attr)]:
                        an = ga = True
                        de = u(b[-1]) == 'return MatchesListwise(%s).match(%s)' % (ms, vs)
    return '{ sortedItems := %s, annotatesWithAttr := %s, getattrInLoop := %s, delegatesToListwise := %s }' % (B(so), B(an), B(ga), B(de))


def setwise_skel(fn):
    raw = [s for s in fn.body if not (isinstance(s, ast.Expr) and isinstance(s.value, ast.Constant))]
    ps = params(fn)
    coll, listed, major, atest, pairing, left, iff = '.unknown', False, False, '.unknown', '.unknown', False, False
    if len(ps) == 1:
        o = ps[0]
        binds = {u(s.targets[0]): s.value for s in raw if isinstance(s, ast.Assign) and len(s.targets) == 1}
        ms = vs = None
        for name, val in binds.items():
            src = u(val)
            if src == 'list(self.matchers)':
                coll, ms = '.occurrences', name
            elif src == 'list(dict.fromkeys(self.matchers))':
                coll, ms = '.distinctObjects', name
            elif src == 'set(self.matchers)':
                coll, ms = '.hashSet', name
            elif src == 'list(%s)' % o:
                listed, vs = True, name
        acc = None
        for name, val in binds.items():
            if isinstance(val, ast.ListComp) and isinstance(val.elt, ast.ListComp) and ms and vs:
                outer, inner = val.generators, val.elt.generators
                if len(outer) == 1 and len(inner) == 1 and not outer[0].ifs and not inner[0].ifs and u(outer[0].iter) == vs and u(inner[0].iter) == ms:
                    vv, mm = u(outer[0].target), u(inner[0].target)
                    e = val.elt.elt
                    t = res_test(e, '%s.match(%s)' % (mm, vv))
                    if t != '.unknown':
                        major, atest, acc = True, t, name
        fns = [s for s in raw if isinstance(s, ast.FunctionDef)]
        if len(fns) == 1 and acc:
            f = fns[0]
            src = u(f)
            has_queue = any(isinstance(n, ast.For) and isinstance(n.iter, ast.Name) and ('%s.append(' % n.iter.id) in src for n in ast.walk(f))
            has_while = any(isinstance(n, ast.While) for n in ast.walk(f))
            reads_acc = ('%s[' % acc) in src
            two_maps = len({n.value.id for n in ast.walk(f) if isinstance(n, ast.Subscript) and isinstance(n.value, ast.Name)
                            and isinstance(n.ctx, ast.Store)}) >= 2
            if has_queue and has_while and reads_acc and two_maps:
                pairing = '.augmentingPaths'
            pname = f.name
            nm = rm = None
            for name, val in binds.items():
                if isinstance(val, ast.ListComp) and len(val.generators) == 1 and len(val.generators[0].ifs) == 1:
                    g = val.generators[0]
                    cond = u(g.ifs[0])
                    if u(g.iter) == 'enumerate(%s)' % vs and isinstance(g.target, ast.Tuple) and cond == 'not %s(%s)' % (pname, u(g.target.elts[0])) \
                            and u(val.elt) == u(g.target.elts[1]):
                        nm = name
                    if u(g.iter) == 'enumerate(%s)' % ms and isinstance(g.target, ast.Tuple) and cond.startswith('%s not in ' % u(g.target.elts[0])) \
                            and u(val.elt) == u(g.target.elts[1]):
                        rm = name
            left = nm is not None and rm is not None
            if left and isinstance(raw[-1], ast.If) and not raw[-1].orelse and u(raw[-1].test) in ('%s or %s' % (nm, rm), '%s or %s' % (rm, nm)):
                # every path through the body of that `if` ends in `return <something that is not None>`
                def all_return(block):
                    last = block[-1]
                    if isinstance(last, ast.Return):
                        return last.value is not None and not is_none_const(last.value)
                    if isinstance(last, ast.If) and last.orelse:
                        return all_return(last.body) and all_return(last.orelse)
                    return False
                iff = all_return(raw[-1].body)
        elif not fns:
            # the old shape: for value in observed: for matcher in remaining: if matcher.match(value) is None: remove; break
            if any(isinstance(s, ast.For) and any(isinstance(n, ast.Break) for n in ast.walk(s)) for s in raw):
                pairing = '.firstAccepting'
    return ('{ matchers := %s, valuesListed := %s, acceptValueMajor := %s, acceptTest := %s,\n      pairing := %s, leftoversFromPairing := %s, '
            'mismatchIffLeftover := %s }' % (coll, B(listed), B(major), atest, pairing, B(left), B(iff)))


def contains_all_skel(fn):
    b = [s for s in body_of(fn) if not isinstance(s, (ast.Import, ast.ImportFrom))]
    ps = [a.arg for a in fn.args.args]
    ok = len(ps) == 1 and len(b) == 1 and u(b[0]) in ('return MatchesAll(*map(Contains, %s), first_only=False)' % ps[0],
                                                       'return MatchesAll(*[Contains(item) for item in %s], first_only=False)' % ps[0],
                                                       'return MatchesAll(*map(Contains, %s))' % ps[0])
    return '{ allOfContains := %s }' % B(ok)


# ---------------------------------------------------------------- _dict.py
PARTS = {'_SubDictOf': '.extra', 'lambda m: _SuperDictOf(m, format_value=str)': '.missing', '_SuperDictOf': '.missing', '_MatchCommonKeys': '.differences'}


def dict_skel(tree):
    rows = []
    for name in ('MatchesDict', 'ContainsDict', 'ContainedByDict'):
        parts = []
        try:
            c = find(tree, name)
        except ValueError:
            c = None
        if c is not None:
            for s in c.body:
                if isinstance(s, ast.Assign) and u(s.targets[0]) == 'matcher_factories' and isinstance(s.value, ast.Dict):
                    for k, v in zip(s.value.keys, s.value.values):
                        src = pynorm.canon(v) if isinstance(v, ast.Lambda) else u(v)
                        part = PARTS.get(u(v), '.unknown')
                        if isinstance(v, ast.Lambda) and len(v.args.args) == 1 and u(v.body) == '_SuperDictOf(%s, format_value=str)' % v.args.args[0].arg:
                            part = '.missing'
                        parts.append('(%s, %s)' % (S(k.value if isinstance(k, ast.Constant) else '?'), part))
            if any(isinstance(s, ast.FunctionDef) and s.name == 'match' for s in c.body):
                parts.append('("match overridden", .unknown)')
        rows.append('⟨%s, [%s]⟩' % (S(name), ', '.join(parts)))

    def body(path):
        fn = find(tree, path)
        return body_of(fn), params(fn)
    b, ps = body('_CombinedMatcher.match')
    comb = False
    if len(ps) == 1 and len(b) == 3 and isinstance(b[0], ast.Assign) and u(b[0].value) == '{}' and isinstance(b[1], ast.For) \
            and isinstance(b[1].target, ast.Tuple) and len(b[1].target.elts) == 2:
        d, k, v = u(b[0].targets[0]), u(b[1].target.elts[0]), u(b[1].target.elts[1])
        comb = u(b[1].iter) == 'self.matcher_factories.items()' and [u(x) for x in b[1].body] == ['%s[%s] = %s(self._expected)' % (d, k, v)] \
            and u(b[2]) == 'return MatchesAllDict(%s).match(%s)' % (d, ps[0])
    b, ps = body('MatchesAllDict.match')
    alld = False
    if len(ps) == 1 and len(b) == 3 and isinstance(b[0], ast.Assign) and u(b[0].value) == '{}' and isinstance(b[1], ast.For) and isinstance(b[1].target, ast.Name):
        d, lab = u(b[0].targets[0]), b[1].target.id
        alld = u(b[1].iter) == 'self.matchers' and [u(x) for x in b[1].body] == ['%s[%s] = self.matchers[%s].match(%s)' % (d, lab, lab, ps[0])] \
            and u(b[2]) == 'return _dict_to_mismatch(%s, result_mismatch=LabelledMismatches)' % d
    fn = find(tree, '_dict_to_mismatch')
    b = body_of(fn)
    # `if to_mismatch: data = map_values(to_mismatch, data)` ; `m = filter_values(bool, data)` ; `if m: return result_mismatch(m)`
    # (values are turned into mismatches first and the falsy ones dropped afterwards, in this order)
    kept = False
    fps = [a.arg for a in fn.args.args]
    if len(b) == 3 and len(fps) == 3 and isinstance(b[1], ast.Assign) and isinstance(b[0], ast.If) and isinstance(b[2], ast.If):
        data, tm, rm = fps
        m = u(b[1].targets[0])
        kept = u(b[0].test) == tm and not b[0].orelse and [u(x) for x in b[0].body] == ['%s = map_values(%s, %s)' % (data, tm, data)] \
            and u(b[1].value) == 'filter_values(bool, %s)' % data \
            and not b[2].orelse and u(b[2].test) == m and [u(x) for x in b[2].body] == ['return %s(%s)' % (rm, m)]
    b, ps = body('_SubDictOf.match')
    extra = len(ps) == 1 and len(b) >= 1 and any(u(s).endswith('dict_subtract(%s, self.super_dict)' % ps[0]) or
                                                  'dict_subtract(%s, self.super_dict)' % ps[0] in u(s) for s in b) and u(b[-1]).startswith('return _dict_to_mismatch(')
    b, ps = body('_SuperDictOf.match')
    swaps = len(ps) == 1 and len(b) == 1 and u(b[0]) == 'return _SubDictOf(%s, self.format_value).match(self.sub_dict)' % ps[0]
    fn = find(tree, '_MatchCommonKeys._compare_dicts')
    b = body_of(fn)
    ps = params(fn)
    inter, ctest = False, '.unknown'
    if len(ps) == 2:
        e, o = ps
        # (`set(d)` instead of `set(d.keys())` is NOT the same: a list / str matchee has no .keys() and raises, but can be iterated)
        ck = [s for s in b if isinstance(s, ast.Assign) and u(s.value) in ('set(%s.keys()) & set(%s.keys())' % (e, o), 'set(%s.keys()) & set(%s.keys())' % (o, e))]
        loops = [s for s in b if isinstance(s, ast.For)]
        if len(ck) == 1 and len(loops) == 1 and u(loops[0].iter) == u(ck[0].targets[0]) and isinstance(loops[0].target, ast.Name):
            inter = True
            k = loops[0].target.id
            lb = loops[0].body
            if len(lb) == 2 and isinstance(lb[0], ast.Assign) and u(lb[0].value) == '%s[%s].match(%s[%s])' % (e, k, o, k) and isinstance(lb[1], ast.If) and not lb[1].orelse:
                r = u(lb[0].targets[0])
                if len(lb[1].body) == 1 and u(lb[1].body[0]).endswith('[%s] = %s' % (k, r)):
                    ctest = res_test(lb[1].test, r)
    fn = find(tree, 'KeysEqual.match')
    b = [s for s in body_of(fn) if not isinstance(s, (ast.Import, ast.ImportFrom))]
    ps = params(fn)
    ke = False
    if len(ps) == 1:
        m = ps[0]
        ifs = [s for s in b if isinstance(s, ast.If)]
        if len(ifs) == 1 and not ifs[0].orelse:
            t = u(ifs[0].test)
            keys = {u(s.targets[0]): u(s.value) for s in b if isinstance(s, ast.Assign)}
            for name, val in list(keys.items()) + [('list(%s.keys())' % m, ''), ('%s.keys()' % m, '')]:
                if val in ('list(%s.keys())' % m, '') and t in ('list_subtract(self.expected, %s) or list_subtract(%s, self.expected)' % (name, name),
                                                                  'list_subtract(%s, self.expected) or list_subtract(self.expected, %s)' % (name, name)):
                    ke = pynorm.terminates(ifs[0].body) and (b[-1] is ifs[0] or returns_none(b[-1]))
    return ('{ rows := [%s],\n      combinedBuildsAllDict := %s, allDictAsksEveryLabel := %s, keptIfTruthy := %s,\n      extraIsObservedMinusExpected := %s, '
            'missingSwapsRoles := %s, commonKeysIntersection := %s,\n      commonTest := %s, keysEqualBothSubtractions := %s }'
            % (',\n               '.join(rows), B(comb), B(alld), B(kept), B(extra), B(swaps), B(inter), ctest, B(ke)))


# ---------------------------------------------------------------- _exception.py
def exception_init_steps(fn):
    """MatchesException.__init__: `self.expected = exception`; a str value_re becomes `AfterPreprocessing(str, MatchesRegex(value_re), False)`;
    `self.value_re = value_re`; `self._is_instance` = type(expected) is not a SUBCLASS of type / tuple (written with issubclass over
    the two, with issubclass(T, (type, tuple)) or with isinstance(expected, (type, tuple)) - an exact comparison of the type is not it)"""
    b = body_of(fn)
    ps = params(fn)
    if len(ps) != 2:
        return ['.unknown']
    exc, vre = ps
    src = [u(x) for x in b]
    steps = []
    wrap = 'if isinstance(%s, str):\n    %s = AfterPreprocessing(str, MatchesRegex(%s), False)' % (vre, vre, vre)
    keeps = 'self.expected = %s' % exc in src and 'self.value_re = %s' % vre in src
    ok = keeps and wrap in src and src.index(wrap) < src.index('self.value_re = %s' % vre)
    steps.append('.strValueReIsRegexOnStr' if ok else '.unknown')
    alias = {u(x.targets[0]): u(x.value) for x in b if isinstance(x, ast.Assign) and len(x.targets) == 1 and isinstance(x.targets[0], ast.Name)}
    inst = [x for x in b if isinstance(x, ast.Assign) and u(x.targets[0]) == 'self._is_instance']
    good = False
    if len(inst) == 1 and keeps and src.index('self.expected = %s' % exc) < src.index(u(inst[0])):
        v = inst[0].value
        if isinstance(v, ast.UnaryOp) and isinstance(v.op, ast.Not):
            e = v.operand
            tys = ('type(self.expected)', 'type(%s)' % exc, 'self.expected.__class__', '%s.__class__' % exc)
            objs = ('self.expected', exc)
            pair = ('(type, tuple)', '(tuple, type)', '[type, tuple]', '[tuple, type]')
            t = lambda x: alias.get(x, x)
            if isinstance(e, ast.Call) and u(e.func) == 'any' and len(e.args) == 1 and isinstance(e.args[0], (ast.GeneratorExp, ast.ListComp)) \
                    and len(e.args[0].generators) == 1 and not e.args[0].generators[0].ifs:
                g = e.args[0].generators[0]
                el = e.args[0].elt
                good = isinstance(g.target, ast.Name) and u(g.iter) in pair and isinstance(el, ast.Call) and u(el.func) == 'issubclass' \
                    and len(el.args) == 2 and t(u(el.args[0])) in tys and u(el.args[1]) == g.target.id
            elif isinstance(e, ast.Call) and u(e.func) == 'issubclass' and len(e.args) == 2:
                good = t(u(e.args[0])) in tys and u(e.args[1]) in pair[:2]
            elif isinstance(e, ast.Call) and u(e.func) == 'isinstance' and len(e.args) == 2:
                good = u(e.args[0]) in objs and u(e.args[1]) in pair[:2]
            elif isinstance(e, ast.BoolOp) and isinstance(e.op, ast.Or) and len(e.values) == 2:
                got = sorted(u(x) for x in e.values)
                good = any(got == sorted('issubclass(%s, %s)' % (ty, c) for c in ('type', 'tuple')) for ty in tys + tuple(k for k, w in alias.items() if w in tys)) \
                    or any(got == sorted('isinstance(%s, %s)' % (o, c) for c in ('type', 'tuple')) for o in objs)
    steps.append('.instanceUnlessClassOrTuple' if good else '.unknown')
    return steps


def matches_exception_all(init, match):
    return '[%s]' % ', '.join(exception_init_steps(init) + matches_exception_steps(match)[1:-1].split(', '))


def matches_exception_steps(fn):
    b = body_of(fn)
    ps = params(fn)
    if len(ps) != 1:
        return '[.unknown]'
    o = ps[0]
    steps = []
    ec = 'expected_class'
    for s in b:
        if isinstance(s, ast.Assign) and u(s.value) == 'self.expected':
            ec = u(s.targets[0])
            continue
        if isinstance(s, ast.If) and u(s.test) == 'self._is_instance' and not s.orelse and len(s.body) == 1 and u(s.body[0]) in (
                '%s = %s.__class__' % (ec, ec), '%s = self.expected.__class__' % ec, '%s = type(%s)' % (ec, ec)):
            continue
        if isinstance(s, ast.If) and u(s.test) == 'not isinstance(%s, tuple)' % o and pynorm.terminates(s.body) and u(s.body[-1]).startswith('return Mismatch('):
            steps.append('.notTupleMismatch')
            continue
        if isinstance(s, ast.If) and u(s.test) == 'not issubclass(%s[0], %s)' % (o, ec) and pynorm.terminates(s.body) and u(s.body[-1]).startswith('return Mismatch('):
            steps.append('.notSubclassMismatch')
            continue
        if isinstance(s, ast.If) and u(s.test) == 'self._is_instance':
            inner = s.body
            if len(inner) == 1 and isinstance(inner[0], ast.If) and not inner[0].orelse and u(inner[0].test) in (
                    '%s[1].args != self.expected.args' % o, 'self.expected.args != %s[1].args' % o) and u(inner[0].body[-1]).startswith('return Mismatch('):
                steps.append('.instanceArgsDifferMismatch')
            else:
                steps.append('.unknown')
            e = s.orelse
            if len(e) == 1 and isinstance(e[0], ast.If) and not e[0].orelse and res_test(e[0].test, 'self.value_re') == '.isNotNone' \
                    and [u(x) for x in e[0].body] == ['return self.value_re.match(%s[1])' % o]:
                steps.append('.valueMatcherIfNotNone')
            elif e:
                steps.append('.unknown')
            continue
        if returns_none(s):
            continue
        steps.append('.unknown')
    return '[%s]' % ', '.join(steps)


def raises_skel(fn):
    b = body_of(fn)
    ps = params(fn)
    c = r = cb = p = o = False
    guard = inner = '.unknown'
    if len(ps) == 1 and len(b) == 1 and isinstance(b[0], ast.Try) and len(b[0].handlers) == 1 and not b[0].finalbody:
        t, m = b[0], ps[0]
        tb = list(t.body) + list(t.orelse)
        if len(tb) == 2 and isinstance(tb[0], ast.Assign) and u(tb[0].value) == '%s()' % m:
            c = True
            r = u(tb[1]).startswith('return Mismatch(')
        h = t.handlers[0]
        cb = h.type is not None and u(h.type) == 'BaseException'
        hb = [s for s in h.body if not isinstance(s, ast.Delete)]
        ei = None
        for s in hb:
            if isinstance(s, ast.Assign) and u(s.value) == 'sys.exc_info()':
                ei = u(s.targets[0])
        ifs = [s for s in hb if isinstance(s, ast.If)]
        if ei and len(ifs) == 2:
            g = ifs[0]
            guard = res_test(g.test, 'self.exception_matcher')
            if len(g.body) == 2 and isinstance(g.body[0], ast.Assign) and u(g.body[0].value) == 'self.exception_matcher.match(%s)' % ei and isinstance(g.body[1], ast.If):
                mm = u(g.body[0].targets[0])
                ib = [s for s in g.body[1].body if not isinstance(s, ast.Delete)]
                if len(ib) == 1 and returns_none(ib[0]) and not g.body[1].orelse:
                    inner = res_test(g.body[1].test, mm)
                if len(g.orelse) == 1 and u(g.orelse[0]) == '%s = None' % mm:
                    o = u(hb[-1]) == 'return %s' % mm
            pr = ifs[1]
            exc = [u(s.targets[0]) for s in hb if isinstance(s, ast.Assign) and u(s.value) == '%s[1]' % ei]
            e = exc[0] if exc else '%s[1]' % ei
            pb = [s for s in pr.body if not isinstance(s, ast.Delete)]
            p = u(pr.test) == '_is_exception(%s) and (not _is_user_exception(%s))' % (e, e) and len(pb) == 1 and isinstance(pb[0], ast.Raise) and pb[0].exc is None
    return ('{ callsMatcheeInTry := %s, returnedIsMismatch := %s, catchesBaseException := %s, matcherGuard := %s,\n      innerTest := %s, '
            'propagatesNonUser := %s, otherwiseReturnsMismatch := %s }' % (B(c), B(r), B(cb), guard, inner, B(p), B(o)))


# ---------------------------------------------------------------- _warnings.py
def warnings_skel(tree):
    fn = find(tree, 'Warnings.match')
    b = body_of(fn)
    ps = params(fn)
    rec = calls = got = other = False
    before, guard = [], '.unknown'
    if len(ps) == 1 and len(b) == 1 and isinstance(b[0], ast.With) and len(b[0].items) == 1:
        it = b[0].items[0]
        w = u(it.optional_vars) if it.optional_vars is not None else None
        rec = w is not None and u(it.context_expr) == 'warnings.catch_warnings(record=True)'
        body = list(b[0].body)
        call = '%s()' % ps[0]
        idx = [i for i, x in enumerate(body) if u(x) == call]
        if rec and len(idx) == 1:
            before = [u(x) for x in body[:idx[0]]]
            rest = body[idx[0] + 1:]
            calls = True
            # layout of `polar`: `if self.warnings_matcher is not None: return self.warnings_matcher.match(w)` ; `if not w: return Mismatch(..)`
            if len(rest) == 2 and all(isinstance(x, ast.If) and not x.orelse for x in rest):
                guard = res_test(rest[0].test, 'self.warnings_matcher')
                got = [u(x) for x in rest[0].body] == ['return self.warnings_matcher.match(%s)' % w]
                other = u(rest[1].test) == 'not %s' % w and len(rest[1].body) == 1 and u(rest[1].body[0]).startswith('return Mismatch(')
    d = body_of(find(tree, 'IsDeprecated'))
    dps = [a.arg for a in find(tree, 'IsDeprecated').args.args]
    one = len(dps) == 1 and [u(x) for x in d] in (
        ['return Warnings(MatchesListwise([WarningMessage(category_type=DeprecationWarning, message=%s)]))' % dps[0]],
        ['return Warnings(MatchesListwise([WarningMessage(DeprecationWarning, message=%s)]))' % dps[0]],
        ['return Warnings(MatchesListwise([WarningMessage(DeprecationWarning, %s)]))' % dps[0]])
    wm = find(tree, 'WarningMessage')
    wb = body_of(wm)
    wps = [a.arg for a in wm.args.args]
    src = ' ; '.join(u(x) for x in wb)
    alias = {u(x.targets[0]): u(x.value) for x in wb if isinstance(x, ast.Assign) and len(x.targets) == 1}
    ident = False
    if wps and wb and isinstance(wb[-1], ast.Return) and isinstance(wb[-1].value, ast.Call) and u(wb[-1].value.func) == 'MatchesStructure':
        kw = {k.arg: k.value for k in wb[-1].value.keywords}
        def inner(x):      # Annotate('…', M) -> M
            return x.args[1] if isinstance(x, ast.Call) and u(x.func) == 'Annotate' and len(x.args) == 2 else x
        cat = inner(kw.get('category')) if 'category' in kw else None
        msg = inner(kw.get('message')) if 'message' in kw else None
        cat_ok = cat is not None and alias.get(u(cat), u(cat)) == 'Is(%s)' % wps[0]
        msg_ok = isinstance(msg, ast.Call) and u(msg.func) == 'AfterPreprocessing' and len(msg.args) == 2 and u(msg.args[0]) == 'str'
        ident = cat_ok and msg_ok and set(kw) == {'category', 'message', 'filename', 'lineno', 'line'}
    return ('{ recordsInCatchWarnings := %s, beforeCall := [%s], callsMatcheeInside := %s,\n      matcherGuard := %s, matcherGetsRecorded := %s, '
            'otherwiseMismatchIfNone := %s,\n      isDeprecatedIsListwiseOfOne := %s, categoryByIdentity := %s }'
            % (B(rec), ', '.join(S(x) for x in before), B(calls), guard, B(got), B(other), B(one), B(ident)))


# ---------------------------------------------------------------- _impl.py
def truth_overrides(repo):
    out = []
    d = os.path.join(repo, 'testtools', 'matchers')
    for name in sorted(os.listdir(d)):
        if name.endswith('.py'):
            for c in ast.walk(ast.parse(open(os.path.join(d, name)).read())):
                if isinstance(c, ast.ClassDef) and any(isinstance(f, ast.FunctionDef) and f.name in ('__bool__', '__len__') for f in c.body):
                    out.append(c.name)
    return out


def mismatch_src(tree, overrides):
    init = find(tree, 'Mismatch.__init__')
    b = body_of(init)
    kept, dd = '.unknown', False
    for s in b:
        if isinstance(s, ast.If) and not s.orelse and [u(x) for x in s.body] == ['self._description = description']:
            kept = res_test(s.test, 'description')
        if isinstance(s, ast.If) and not s.orelse and u(s.test) == 'details is None' and [u(x) for x in s.body] == ['details = {}']:
            dd = True
    dd = dd and any(u(s) == 'self._details = details' for s in b)
    d = body_of(find(tree, 'Mismatch.describe'))
    dr = dn = False
    if len(d) == 1 and isinstance(d[0], ast.Try) and len(d[0].handlers) == 1:
        dr = [u(x) for x in d[0].body] == ['return self._description']
        h = d[0].handlers[0]
        dn = h.type is not None and u(h.type) == 'AttributeError' and len(h.body) == 1 and isinstance(h.body[0], ast.Raise) \
            and u(h.body[0].exc).startswith('NotImplementedError(')
    g = body_of(find(tree, 'Mismatch.get_details'))
    gd = len(g) == 1 and u(g[0]) in ("return getattr(self, '_details', {})", 'return self._details')
    fd = [u(x) for x in body_of(find(tree, 'MismatchDecorator.describe'))] == ['return self.original.describe()']
    fg = [u(x) for x in body_of(find(tree, 'MismatchDecorator.get_details'))] == ['return self.original.get_details()']
    return ('{ descriptionKeptIf := %s, detailsDefaultEmptyDict := %s, describeReturnsDescription := %s,\n      describeMissingIsNotImplemented := %s, '
            'getDetailsReturnsDetails := %s, decoratorForwardsDescribe := %s,\n      decoratorForwardsDetails := %s, truthOverrides := [%s] }'
            % (kept, B(dd), B(dr), B(dn), B(gd), B(fd), B(fg), ', '.join(S(x) for x in overrides)))


def err_str_src(fn):
    b = body_of(fn)
    first = vg = ml = orr = terse = False
    types, order = [], []
    if len(b) >= 2 and isinstance(b[0], ast.Assign) and u(b[0].value) == 'self.mismatch.describe()':
        first = True
        diff = u(b[0].targets[0])
        s = b[1]
        if isinstance(s, ast.If) and u(s.test) == 'self.verbose':
            vg = True
            vb = s.body
            rest = list(s.orelse) + b[2:]
            terse = [u(x) for x in rest] == ['return %s' % diff]
            if len(vb) == 2 and isinstance(vb[0], ast.If) and isinstance(vb[0].test, ast.Call) and u(vb[0].test.func) == 'isinstance' \
                    and u(vb[0].test.args[0]) == 'self.matchee' and len(vb[0].body) == 1 and len(vb[0].orelse) == 1:
                t = vb[0].test.args[1]
                types = sorted(u(x) for x in (t.elts if isinstance(t, ast.Tuple) else [t]))
                a1, a2 = vb[0].body[0], vb[0].orelse[0]
                if isinstance(a1, ast.Assign) and isinstance(a2, ast.Assign) and u(a1.targets[0]) == u(a2.targets[0]):
                    mname = u(a1.targets[0])
                    ml = u(a1.value) == 'text_repr(self.matchee, multiline=False)'
                    orr = u(a2.value) == 'repr(self.matchee)'
                    r = vb[1]
                    if isinstance(r, ast.Return) and isinstance(r.value, ast.BinOp) and isinstance(r.value.op, ast.Mod) and isinstance(r.value.right, ast.Tuple) \
                            and isinstance(r.value.left, ast.Constant) and r.value.left.value == 'Match failed. Matchee: %s\nMatcher: %s\nDifference: %s\n':
                        order = ['matchee' if u(x) == mname else 'difference' if u(x) == diff else u(x) for x in r.value.right.elts]
    return ('{ describesFirst := %s, verboseGuard := %s, textReprFor := [%s], multilineFalse := %s,\n      otherwiseRepr := %s, formatOrder := [%s], '
            'terseReturnsDifference := %s }' % (B(first), B(vg), ', '.join(S(x) for x in sorted(types, reverse=True)), B(ml), B(orr), ', '.join(S(x) for x in order), B(terse)))


# ---------------------------------------------------------------- testcase.py / assertions.py
def helper_parts(b, ps, with_details):
    """`matcher = Annotate.if_message(message, matcher)`, `mismatch = matcher.match(matchee)`, then (layout of `polar`)
    `if <test of mismatch>: [details loop] <last>` with nothing after it.  Returns the test under which None is returned."""
    ann, test, det = False, '.unknown', False
    rest = list(b)
    if len(ps) >= 3 and rest and u(rest[0]) == '%s = Annotate.if_message(%s, %s)' % (ps[1], ps[2], ps[1]):
        ann = True
        rest = rest[1:]
    mm = None
    if rest and isinstance(rest[0], ast.Assign) and u(rest[0].value) == '%s.match(%s)' % (ps[1], ps[0]):
        mm = u(rest[0].targets[0])
        rest = rest[1:]
    if mm and len(rest) == 1 and isinstance(rest[0], ast.If) and not rest[0].orelse:
        test = NEG[res_test(rest[0].test, mm)]
        rest = list(rest[0].body)
    else:
        rest = []
    if with_details and mm and rest and isinstance(rest[0], ast.For) and isinstance(rest[0].target, ast.Tuple) and len(rest[0].target.elts) == 2:
        n, v = u(rest[0].target.elts[0]), u(rest[0].target.elts[1])
        det = u(rest[0].iter) == '%s.get_details().items()' % mm and [u(x) for x in rest[0].body] == ['self.addDetailUniqueName(%s, %s)' % (n, v)]
        rest = rest[1:]
    return ann, test, det, mm, rest


def assert_src(tc, asr):
    h = find(tc, 'TestCase._matchHelper')
    ps = params(h)
    ann, test, det, mm, rest = helper_parts(body_of(h), ps, True)
    ret = bool(mm) and len(rest) == 1 and len(ps) == 4 and u(rest[0]) == 'return MismatchError(%s, %s, %s, %s)' % (ps[0], ps[1], mm, ps[3])
    a = find(tc, 'TestCase.assertThat')
    ab = body_of(a)
    aps = params(a)
    araise = '.unknown'
    call = 'self._matchHelper(%s)' % ', '.join(aps)
    if len(ab) == 2 and isinstance(ab[0], ast.Assign) and u(ab[0].value) == call and isinstance(ab[1], ast.If) and not ab[1].orelse:
        e = u(ab[0].targets[0])
        if [u(x) for x in ab[1].body] == ['raise %s' % e]:
            araise = res_test(ab[1].test, e)
    x = find(tc, 'TestCase.expectThat')
    xb = body_of(x)
    xps = params(x)
    xtest, xdet, xff = '.unknown', False, False
    never = not any(isinstance(n, ast.Raise) for n in ast.walk(x))
    if len(xb) == 2 and isinstance(xb[0], ast.Assign) and u(xb[0].value) == 'self._matchHelper(%s)' % ', '.join(xps) and isinstance(xb[1], ast.If) and not xb[1].orelse:
        e = u(xb[0].targets[0])
        xtest = res_test(xb[1].test, e)
        body = xb[1].body
        if len(body) == 2 and isinstance(body[0], ast.Expr) and isinstance(body[0].value, ast.Call) and u(body[0].value.func) == 'self.addDetailUniqueName' \
                and body[0].value.args and isinstance(body[0].value.args[0], ast.Constant) and body[0].value.args[0].value == 'Failed expectation':
            xdet = True
            xff = u(body[1]) == 'self.force_failure = True'
    q = find(tc, 'TestCase.addDetailUniqueName')
    qb = body_of(q)
    qps = params(q)
    wt, start, fmt, inc, add = False, 0, '?', False, False
    if len(qps) == 2:
        name, obj = qps
        existing = [u(s.targets[0]) for s in qb if isinstance(s, ast.Assign) and u(s.value) == 'self.getDetails()']
        ex = existing[0] if existing else 'self.getDetails()'
        full = [u(s.targets[0]) for s in qb if isinstance(s, ast.Assign) and u(s.value) == name]
        sfx = [(u(s.targets[0]), s.value.value) for s in qb if isinstance(s, ast.Assign) and isinstance(s.value, ast.Constant) and isinstance(s.value.value, int)]
        wh = [s for s in qb if isinstance(s, ast.While)]
        if len(full) == 1 and len(sfx) == 1 and len(wh) == 1 and not wh[0].orelse:
            fn_, (sx, start) = full[0], sfx[0]
            wt = u(wh[0].test) == '%s in %s' % (fn_, ex)
            wb = wh[0].body
            if len(wb) == 2 and isinstance(wb[0], ast.Assign) and u(wb[0].targets[0]) == fn_ and isinstance(wb[0].value, ast.BinOp) and isinstance(wb[0].value.op, ast.Mod) \
                    and isinstance(wb[0].value.left, ast.Constant) and u(wb[0].value.right) == '(%s, %s)' % (name, sx):
                fmt = wb[0].value.left.value
                inc = u(wb[1]) in ('%s += 1' % sx, '%s = %s + 1' % (sx, sx))
            add = u(qb[-1]) == 'self.addDetail(%s, %s)' % (fn_, obj)
    f = find(asr, 'assert_that')
    fps = [a_.arg for a_ in f.args.args]
    fann, ftest, _, fmm, frest = helper_parts(body_of(f), fps, False)
    fraise = bool(fmm) and len(frest) == 1 and len(fps) == 4 and u(frest[0]) == 'raise MismatchError(%s, %s, %s, %s)' % (fps[0], fps[1], fmm, fps[3])
    fdet = 'addDetail' in u(f)
    return ('{ helperAnnotates := %s, helperTest := %s, helperDetailsUnique := %s, helperReturnsError := %s,\n      assertRaisesIf := %s, expectTest := %s, '
            'expectDetailUnique := %s, expectForcesFailure := %s,\n      expectNeverRaises := %s, uniqWhileTaken := %s, uniqSuffixFrom := %d, uniqFormat := %s, '
            'uniqIncrements := %s,\n      uniqAddsDetail := %s, fnAnnotates := %s, fnTest := %s, fnRaisesError := %s, fnAttachesDetails := %s }'
            % (B(ann), test, B(det), B(ret), araise, xtest, B(xdet), B(xff), B(never), B(wt), start, S(fmt), B(inc), B(add), B(fann), ftest, B(fraise), B(fdet)))


# ---------------------------------------------------------------- the generated module
def generate(repo):
    base = os.path.join(repo, 'testtools')
    P = lambda *a: ast.parse(open(os.path.join(base, *a)).read())
    ho, ba, ds, di, ex, im = (P('matchers', n) for n in ('_higherorder.py', '_basic.py', '_datastructures.py', '_dict.py', '_exception.py', '_impl.py'))
    tc, asr = P('testcase.py'), P('assertions.py')
    NOT = {'MatchedUnexpectedly': lambda a, r: '.newMismatch'}
    ANN = {'AnnotatedMismatch': lambda a, r: '.wrappedMismatch' if len(a) == 2 and a[0] == 'self.annotation' and a[1] == r else '.unknown',
           'PostfixedMismatch': lambda a, r: '.wrappedMismatch' if len(a) == 2 and a[0] == 'self.annotation' and a[1] == r else '.unknown'}

    def safe(f, *a):
        try:
            return f(*a)
        except ValueError:              # a function / class the tree no longer has
            return None
    defs = [
        ('matchesAny', 'LoopSkel', lambda: loop_skel(find(ho, 'MatchesAny.match'))),
        ('matchesAll', 'LoopSkel', lambda: loop_skel(find(ho, 'MatchesAll.match'))),
        ('allMatch', 'LoopSkel', lambda: loop_skel(find(ho, 'AllMatch.match'))),
        ('anyMatch', 'LoopSkel', lambda: loop_skel(find(ho, 'AnyMatch.match'))),
        ('notM', 'WrapSkel', lambda: wrap_skel(find(ho, 'Not.match'), NOT)),
        ('annotate', 'WrapSkel', lambda: wrap_skel(find(ho, 'Annotate.match'), ANN)),
        ('afterPreprocessing', 'AfterSkel', lambda: after_skel(find(ho, 'AfterPreprocessing.match'))),
        ('matchesPredicate', 'PredSkel', lambda: pred_skel(find(ho, 'MatchesPredicate.match'), False)),
        ('matchesPredicateWithParams', 'PredSkel', lambda: pred_skel(find(ho, '_MatchesPredicateWithParams.match'), True)),
        ('binaryComparison', 'BinSkel', lambda: bin_skel(ba)),
        ('containsM', 'ContainsSkel', lambda: contains_skel(find(ba, 'Contains.match'))),
        ('sameMembers', 'SameMembersSkel', lambda: same_members_skel(find(ba, 'SameMembers.match'))),
        ('startsWith', 'CallSkel', lambda: call_skel(find(ba, 'StartsWith.match'))),
        ('endsWith', 'CallSkel', lambda: call_skel(find(ba, 'EndsWith.match'))),
        ('matchesRegex', 'CallSkel', lambda: call_skel(find(ba, 'MatchesRegex.match'))),
        ('isInstanceM', 'CallSkel', lambda: call_skel(find(ba, 'IsInstance.match'))),
        ('matchesListwise', 'ListwiseSkel', lambda: listwise_skel(find(ds, 'MatchesListwise.match'))),
        ('matchesStructure', 'StructureSkel', lambda: structure_skel(find(ds, 'MatchesStructure.match'))),
        ('matchesSetwise', 'SetwiseSkel', lambda: setwise_skel(find(ds, 'MatchesSetwise.match'))),
        ('containsAll', 'ContainsAllSkel', lambda: contains_all_skel(find(ds, 'ContainsAll'))),
        ('dictMatchers', 'DictSkel', lambda: dict_skel(di)),
        ('matchesException', 'List ExcStep', lambda: matches_exception_all(find(ex, 'MatchesException.__init__'), find(ex, 'MatchesException.match'))),
        ('raisesM', 'RaisesSkel', lambda: raises_skel(find(ex, 'Raises.match'))),
        ('warningsM', 'WarningsSkel', lambda: warnings_skel(P('matchers', '_warnings.py'))),
        ('mismatch', 'MismatchSrc', lambda: mismatch_src(im, truth_overrides(repo))),
        ('mismatchErrorStr', 'ErrStrSrc', lambda: err_str_src(find(im, 'MismatchError.__str__'))),
        ('assertFamily', 'AssertSrc', lambda: assert_src(tc, asr)),
    ]
    out = ['import TTV.Model.MatchSkel',
           '/-! GENERATED by harness/pymatch2lean.py from testtools/matchers/*.py, testtools/testcase.py and testtools/assertions.py on every run - do not edit.',
           'The decision structure of the stock matchers\' `match()` methods and of the assertThat family, as data (types and meaning: TTV/Model/MatchSkel.lean). -/',
           'namespace TTV.Generated.MatchSrc', 'open TTV.MatchSkel', '']
    for name, typ, f in defs:
        try:
            val = f()
        except Exception as e:       # a missing function, an unexpected shape the recogniser trips over: no tie
            val = None
        if val is None:
            out.append('-- %s: not found in the tree / not recognisable' % name)
            out.append('def %s : Option Unit := none     -- wrong type on purpose: the obligations that mention it no longer elaborate' % name)
        else:
            out.append('def %s : %s :=\n    %s' % (name, typ, val))
        out.append('')
    out.append('end TTV.Generated.MatchSrc')
    return '\n'.join(out) + '\n'


if __name__ == '__main__':
    import sys
    print(generate(sys.argv[1] if len(sys.argv) > 1 else '/repo'))
