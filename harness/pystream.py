"""Python -> Lean translators for the decision logic of the stream classes of testtools/testresult/real.py
(the stream family's *translator ties*, DESIGN.md Addendum D.2a).  Run on every check of C18 / C10 / C11 (through the
plug-ins' `extract_tables`): the functions are re-read from the tree under test and emitted as Lean DATA into
`TTV/Generated/RouterSrc.lean`, `ConsumerSrc.lean`, `DecoSrc.lean`.  `TTV/Model/*Src.lean` give the data a meaning over the
hand-written models' state; theorems `Cxx_src_*` prove that the model functions ARE the interpretation of what was found in
the source (`decide` against a reference term + a once-and-for-all lemma `interp ref = model`).

Two translation styles are used.
* **Symbolic execution to a term** (`Sym`): for straight-line code with `if/elif/else` whose result is "which value ends up
  where" (`StreamResultRouter.status`, `StreamToQueue.route_code`, `TimestampingStreamResult.status`).  Local variables are
  bound to terms and substituted away; an `if` executes both arms and merges every variable that differs into `ite c a b`;
  conditions are normalised (`x is None` = `not (x is not None)`, `ite (not c) a b` = `ite c b a`, `ite c x x` = `x`).
  Hence renamed locals, reordered independent assignments, an `if` turned around with its arms swapped, or an extra pure
  binding do NOT change the term; a changed guard, lookup, slice, precedence or forwarded value does.
* **Statement skeletons**: for code whose order of effects matters (`startTestRun`/`stopTestRun`, `add_rule` and the policy
  methods, `_StreamToTestRecord.status` / `stopTestRun` / `_ensure_key`, `CopyStreamResult`): each statement must match one
  of a few exact shapes (after `ast.unparse`, so layout and comments are irrelevant), in source order.

Whatever is not recognised becomes `.other` (`.undef` for a variable read before assignment), which no reference term
contains: the theorem then fails to build, check.py reports the broken obligation and goes on to search for a failing input.
Trusted: this translator (a bug could make a changed source look unchanged - it refuses what it does not know, and the
differential correspondence runs regardless) and the Lean interpreters' reading of `if`, `and`, `not`, `is None`,
truthiness of str/bytes/set values, dict lookup and `for x in list` as Python's.
"""
import ast, os


def find(tree, cls, name):
    for node in ast.walk(tree):
        if isinstance(node, ast.ClassDef) and node.name == cls:
            for f in node.body:
                if isinstance(f, ast.FunctionDef) and f.name == name:
                    return f
    raise ValueError('%s.%s not found' % (cls, name))


def find_class(tree, cls):
    for node in ast.walk(tree):
        if isinstance(node, ast.ClassDef) and node.name == cls:
            return node
    raise ValueError('class %s not found' % cls)


def body_of(fn):
    """statements without the docstring"""
    b = list(fn.body)
    if b and isinstance(b[0], ast.Expr) and isinstance(b[0].value, ast.Constant) and isinstance(b[0].value.value, str):
        b = b[1:]
    return b


def lean(t):
    """term (nested tuples / str / bool / list) -> Lean source"""
    if isinstance(t, bool):
        return 'true' if t else 'false'
    if isinstance(t, str):
        return t
    if isinstance(t, list):
        return '[' + ', '.join(lean(x) for x in t) + ']'
    if len(t) == 1:
        return '.' + t[0]
    return '(.' + t[0] + ' ' + ' '.join(lean(x) for x in t[1:]) + ')'


OTHER = ('other',)
UNDEF = ('undef',)


# ------------------------------------------------------------------------------------------------ symbolic execution
TRUE, FALSE, NONE = ('true',), ('false',), ('none',)      # the two constants never survive into an emitted term
INPUTS = ('kwRoute', 'kwTestId', 'kwTimestamp', 'arg', 'old', 'code')      # terms that stand for a fixed input value


def subst(t, x, v):
    """replace every occurrence of the subterm x in t by v"""
    if t == x:
        return v
    if isinstance(t, tuple):
        return tuple(subst(y, x, v) if isinstance(y, tuple) else y for y in t)
    return t


def fold(t):
    """constant folding, bottom-up: notNone/truthy of None, not/and/ite on constants"""
    if not isinstance(t, tuple) or len(t) == 1:
        return t
    t = tuple(fold(y) if isinstance(y, tuple) else y for y in t)
    h = t[0]
    if h in ('notNone', 'truthy') and t[1] == NONE:
        return FALSE
    if h == 'not':
        return FALSE if t[1] == TRUE else TRUE if t[1] == FALSE else mk_not(t[1])
    if h == 'and':
        if FALSE in (t[1], t[2]):
            return FALSE
        return t[2] if t[1] == TRUE else t[1] if t[2] == TRUE else t
    if h == 'ite':
        return mk_ite(t[1], t[2], t[3])
    return t


def mk_not(c):
    return c[1] if c[0] == 'not' else ('not', c)


def assume(t, c, value):
    """t simplified under the knowledge that the (pure) condition c is `value`: c itself becomes a constant, and where
    `x is not None` is false for an input x, x is None"""
    t = subst(t, c, TRUE if value else FALSE)
    if not value and c[0] == 'notNone' and c[1][0] in INPUTS:
        t = subst(t, c[1], NONE)
    return fold(t)


def mk_ite(c, a, b):
    if c == TRUE:
        return a
    if c == FALSE:
        return b
    if c[0] == 'not':
        return mk_ite(c[1], b, a)
    a, b = assume(a, c, True), assume(b, c, False)      # path-sensitive: each arm is read knowing the outcome of the test
    if a == b:
        return a
    if c == ('notNone', a) and b == NONE:               # `x if x is not None else None` is x
        return a
    return ('ite', c, a, b)


def flat(t):
    yield t
    if isinstance(t, tuple):
        for y in t[1:]:
            if isinstance(y, tuple):
                yield from flat(y)


class Sym:
    """symbolic executor; a subclass supplies `atom(node)` (domain expressions) and the initial environment"""

    def __init__(self, env):
        self.env = dict(env)
        self.bad = False

    # -- expressions
    def atom(self, e):
        return None

    def expr(self, e):
        if isinstance(e, ast.Constant) and e.value is None:
            return ('none',)
        if isinstance(e, ast.Name) and e.id in self.env:
            return self.env[e.id]
        if isinstance(e, ast.Name):
            a = self.atom(e)
            return a if a is not None else UNDEF
        a = self.atom(e)
        if a is not None:
            return a
        if isinstance(e, ast.BoolOp) and isinstance(e.op, ast.Or) and len(e.values) == 2:
            a = self.expr(e.values[0])                       # `a or b` as a value: a if a else b
            return mk_ite(('truthy', a), a, self.expr(e.values[1]))
        if isinstance(e, ast.Compare) or (isinstance(e, ast.BoolOp) and isinstance(e.op, ast.And)) \
                or (isinstance(e, ast.UnaryOp) and isinstance(e.op, ast.Not)):
            return self.cond(e)
        if isinstance(e, ast.IfExp):
            return mk_ite(self.cond(e.test), self.expr(e.body), self.expr(e.orelse))
        return OTHER

    def cond(self, t):
        if isinstance(t, ast.UnaryOp) and isinstance(t.op, ast.Not):
            return mk_not(self.cond(t.operand))
        if isinstance(t, ast.BoolOp) and isinstance(t.op, ast.And):
            r = self.cond(t.values[0])
            for v in t.values[1:]:
                r = ('and', r, self.cond(v))
            return r
        if isinstance(t, ast.Compare) and len(t.ops) == 1:
            op, a, b = t.ops[0], t.left, t.comparators[0]
            none = lambda x: isinstance(x, ast.Constant) and x.value is None
            # `== None` / `!= None` read as `is None` / `is not None`: the values here are str / bytes / set / datetime / None,
            # none of which compares equal to None
            if isinstance(op, (ast.IsNot, ast.NotEq)) and none(b):
                return fold(('notNone', self.expr(a)))
            if isinstance(op, (ast.Is, ast.Eq)) and none(b):
                return fold(mk_not(('notNone', self.expr(a))))
            c = self.compare(op, a, b)
            if c is not None:
                return c
            return OTHER
        a = self.cond_atom(t)
        if a is not None:
            return a
        if isinstance(t, ast.BoolOp):
            return OTHER                                     # `or` in a condition: not in the language
        return ('truthy', self.expr(t))

    def compare(self, op, a, b):
        return None

    def cond_atom(self, t):
        return None

    # -- statements
    def assign(self, target, value_term):
        """bind a target; returns False if the target form is not supported"""
        if isinstance(target, ast.Name):
            self.env[target.id] = value_term
            return True
        return False

    def stmt(self, s):
        if isinstance(s, ast.Pass):
            return
        if isinstance(s, ast.Expr) and isinstance(s.value, ast.Constant):
            return
        if isinstance(s, ast.Assign) and len(s.targets) == 1:
            if self.special_assign(s):
                return
            if self.assign(s.targets[0], self.expr(s.value)):
                return
        if isinstance(s, ast.If):
            c = self.cond(s.test)
            a, b = self.fork(), self.fork()
            a.block(s.body)
            b.block(s.orelse)
            self.bad = self.bad or a.bad or b.bad
            for k in sorted(set(a.env) | set(b.env)):
                self.env[k] = mk_ite(c, a.env.get(k, UNDEF), b.env.get(k, UNDEF))
            return
        if self.effect(s):
            return
        self.bad = True

    def special_assign(self, s):
        return False

    def effect(self, s):
        return False

    def fork(self):
        f = self.__class__.__new__(self.__class__)
        f.__dict__.update(self.__dict__)
        f.env = dict(self.env)
        f.bad = False
        return f

    def block(self, stmts):
        for i, s in enumerate(stmts):
            if isinstance(s, ast.If) and not s.orelse and s.body and isinstance(s.body[-1], ast.Return) and stmts[i + 1:]:
                # `if c: …; return x` followed by more statements: the rest is the else arm
                self.stmt(ast.If(test=s.test, body=s.body, orelse=stmts[i + 1:]))
                return
            self.stmt(s)

    def out(self, key):
        t = OTHER if self.bad else fold(self.env.get(key, UNDEF))
        return OTHER if (TRUE in flat(t) or FALSE in flat(t)) else t


# ------------------------------------------------------------------------------------------------ C18: StreamResultRouter
class RouterStatus(Sym):
    """`StreamResultRouter.status(self, **kwargs)`: who gets the event, and with which route code"""

    def __init__(self):
        Sym.__init__(self, {'kw:route_code': ('kwRoute',), 'kw:test_id': ('kwTestId',)})

    def kw(self, e):
        """kwargs.get("k"[, None]) / kwargs["k"] -> key"""
        if isinstance(e, ast.Call) and ast.unparse(e.func) == 'kwargs.get' and 1 <= len(e.args) <= 2 and not e.keywords \
                and isinstance(e.args[0], ast.Constant) and (len(e.args) == 1 or ast.unparse(e.args[1]) == 'None'):
            return e.args[0].value
        if isinstance(e, ast.Subscript) and ast.unparse(e.value) == 'kwargs' and isinstance(e.slice, ast.Constant):
            return e.slice.value
        return None

    def atom(self, e):
        k = self.kw(e)
        if k is not None:
            return self.env.get('kw:' + k, OTHER)
        src = ast.unparse(e)
        if src == 'self.fallback':
            return ('fallback',)
        # X.split("/")[0]
        if isinstance(e, ast.Subscript) and isinstance(e.slice, ast.Constant) and e.slice.value == 0 and isinstance(e.value, ast.Call) \
                and isinstance(e.value.func, ast.Attribute) and e.value.func.attr == 'split' and len(e.value.args) == 1 \
                and isinstance(e.value.args[0], ast.Constant) and e.value.args[0].value == '/':
            return ('firstSeg', self.expr(e.value.func.value))
        # X[len(Y) + 1:]
        if isinstance(e, ast.Subscript) and isinstance(e.slice, ast.Slice) and e.slice.upper is None and e.slice.step is None \
                and isinstance(e.slice.lower, ast.BinOp) and isinstance(e.slice.lower.op, ast.Add):
            lo = e.slice.lower
            for a, b in ((lo.left, lo.right), (lo.right, lo.left)):
                if isinstance(b, ast.Constant) and b.value == 1 and isinstance(a, ast.Call) and ast.unparse(a.func) == 'len' and len(a.args) == 1:
                    return ('dropSeg', self.expr(e.value), self.expr(a.args[0]))
        if isinstance(e, ast.Subscript) and ast.unparse(e.value) == 'self._test_ids':
            return ('idSink', self.expr(e.slice))
        return None

    def compare(self, op, a, b):
        if isinstance(op, ast.In) and ast.unparse(b) == 'self._route_code_prefixes':
            return ('inPrefixes', self.expr(a))
        if isinstance(op, ast.In) and ast.unparse(b) == 'self._test_ids':
            return ('inIds', self.expr(a))
        return None

    def special_assign(self, s):
        t = s.targets[0]
        # target, consume_route = self._route_code_prefixes[prefix]
        if isinstance(t, ast.Tuple) and len(t.elts) == 2 and all(isinstance(x, ast.Name) for x in t.elts) \
                and isinstance(s.value, ast.Subscript) and ast.unparse(s.value.value) == 'self._route_code_prefixes':
            k = self.expr(s.value.slice)
            self.env[t.elts[0].id] = ('pfxSink', k)
            self.env[t.elts[1].id] = ('pfxConsume', k)
            return True
        # kwargs["route_code"] = X
        if isinstance(t, ast.Subscript) and ast.unparse(t.value) == 'kwargs' and isinstance(t.slice, ast.Constant):
            if t.slice.value != 'route_code':
                self.bad = True            # the router forwards every other field as it came
            self.env['kw:' + str(t.slice.value)] = self.expr(s.value)
            return True
        return False

    def effect(self, s):
        # <target>.status(**kwargs): the one forwarding call, last statement
        if isinstance(s, ast.Expr) and isinstance(s.value, ast.Call) and isinstance(s.value.func, ast.Attribute) and s.value.func.attr == 'status' \
                and not s.value.args and len(s.value.keywords) == 1 and s.value.keywords[0].arg is None and ast.unparse(s.value.keywords[0].value) == 'kwargs' \
                and '__target__' not in self.env:
            self.env['__target__'] = self.expr(s.value.func.value)
            self.env['__route__'] = self.env['kw:route_code']
            if self.env['kw:test_id'] != ('kwTestId',):
                self.bad = True
            return True
        return False


def ctl_stmts(fn, method):
    """`startTestRun` / `stopTestRun` of the router -> [CtlStmt]"""
    out = []
    for s in body_of(fn):
        src = ast.unparse(s)
        if src == 'super().%s()' % method:
            out.append(('superCall',))
        elif src == 'for sink in self._sinks:\n    sink.%s()' % method:
            out.append(('forSinksCall', method == 'startTestRun'))
        elif src in ('self._in_run = True', 'self._in_run = False'):
            out.append(('setInRun', src.endswith('True')))
        else:
            out.append(OTHER)
    return out


def add_rule_stmts(stmts, names):
    """`add_rule` -> AStmt (continuation style)"""
    if not stmts:
        return ('done',)
    s, rest = stmts[0], stmts[1:]
    k = lambda: add_rule_stmts(rest, names)
    src = ast.unparse(s)
    if isinstance(s, ast.Assign) and len(s.targets) == 1 and isinstance(s.targets[0], ast.Name) and \
            ast.unparse(s.value) in ('StreamResultRouter._policies.get(policy, None)', 'StreamResultRouter._policies.get(policy)',
                                     'self._policies.get(policy, None)', 'self._policies.get(policy)'):
        names['pm'] = s.targets[0].id
        return ('lookupPolicy', k())
    pm = names.get('pm', '?')
    if isinstance(s, ast.If) and not s.orelse and ast.unparse(s.test) in ('not ' + pm, pm + ' is None') and len(s.body) == 1 \
            and isinstance(s.body[0], ast.Raise) and ast.unparse(s.body[0].exc).startswith('ValueError('):
        return ('raiseUnlessPolicy', k())
    if src == '%s(self, sink, **policy_args)' % pm:
        return ('callPolicy', k())
    if isinstance(s, ast.If) and not s.orelse and ast.unparse(s.test) == 'do_start_stop_run':
        return ('ifFlag', add_rule_stmts(s.body, names), k())
    if isinstance(s, ast.If) and not s.orelse and ast.unparse(s.test) == 'self._in_run':
        return ('ifInRun', add_rule_stmts(s.body, names), k())
    if src == 'self._sinks.append(sink)':
        return ('appendSink', k())
    if src == 'sink.startTestRun()':
        return ('startSink', k())
    return ('other', k())


def policy_stmts(fn):
    params = [a.arg for a in fn.args.args]
    out = []
    for s in body_of(fn):
        src = ast.unparse(s)
        if isinstance(s, ast.If) and not s.orelse and ast.unparse(s.test) == "'/' in route_prefix" and len(s.body) == 1 \
                and isinstance(s.body[0], ast.Raise) and ast.unparse(s.body[0].exc).startswith('TypeError(') and params[:4] == ['self', 'sink', 'route_prefix', 'consume_route']:
            out.append(('raiseIfSlash',))
        elif src == 'self._route_code_prefixes[route_prefix] = (sink, consume_route)' and params == ['self', 'sink', 'route_prefix', 'consume_route'] \
                and [ast.unparse(d) for d in fn.args.defaults] == ['False']:
            out.append(('setPrefix',))
        elif src == 'self._test_ids[test_id] = sink' and params == ['self', 'sink', 'test_id'] and not fn.args.defaults:
            out.append(('setId',))
        else:
            out.append(OTHER)
    return out


def policy_table(cls):
    """the class-level `_policies["name"] = _method` registrations -> [(name, [PStmt])]"""
    methods = {f.name: f for f in cls.body if isinstance(f, ast.FunctionDef)}
    table = []
    for s in cls.body:
        if isinstance(s, ast.Assign) and len(s.targets) == 1 and isinstance(s.targets[0], ast.Subscript) \
                and ast.unparse(s.targets[0].value) == '_policies' and isinstance(s.targets[0].slice, ast.Constant) \
                and isinstance(s.value, ast.Name) and s.value.id in methods:
            table.append('("%s", %s)' % (s.targets[0].slice.value, lean(policy_stmts(methods[s.value.id]))))
    return '[' + ', '.join(table) + ']'


def router_src(tree):
    st = RouterStatus()
    fn = find(tree, 'StreamResultRouter', 'status')
    if [a.arg for a in fn.args.args] != ['self'] or fn.args.kwarg is None or fn.args.kwarg.arg != 'kwargs' or fn.args.vararg is not None:
        st.bad = True
    st.block(body_of(fn))
    add = find(tree, 'StreamResultRouter', 'add_rule')
    add_ok = [a.arg for a in add.args.args] == ['self', 'sink', 'policy', 'do_start_stop_run'] and add.args.kwarg is not None and add.args.kwarg.arg == 'policy_args'
    add_term = add_rule_stmts(body_of(add), {}) if add_ok else ('other', ('done',))
    return '''import TTV.Model.RouterSrc
/-! GENERATED by harness/pystream.py from testtools/testresult/real.py on every run - do not edit.
`StreamResultRouter`: the routing decision of `status` (symbolically executed to terms), the statement lists of
`startTestRun` / `stopTestRun`, the skeleton of `add_rule` and the registered policy methods. -/
namespace TTV.Generated.RouterSrc
open TTV.RouterSrc

def statusTarget : RExpr :=
  %s

def statusRoute : RExpr :=
  %s

def startTestRun : List CtlStmt := %s

def stopTestRun : List CtlStmt := %s

def addRule : AStmt :=
  %s

def policies : List (String × List PStmt) := %s

end TTV.Generated.RouterSrc
''' % (lean(st.out('__target__')), lean(st.out('__route__')),
       lean(ctl_stmts(find(tree, 'StreamResultRouter', 'startTestRun'), 'startTestRun')),
       lean(ctl_stmts(find(tree, 'StreamResultRouter', 'stopTestRun'), 'stopTestRun')),
       lean(add_term), policy_table(find_class(tree, 'StreamResultRouter')))


# ------------------------------------------------------------------------------------------------ C10: _StreamToTestRecord
UARGS = {'test_status': 'testStatus', 'test_tags': 'testTags', 'file_name': 'fileName', 'file_bytes': 'fileBytes',
         'mime_type': 'mimeType', 'timestamp': 'timestamp'}


class UpdateCase(Sym):
    """`_StreamToTestRecord._update_case(self, case, test_status, test_tags, file_name, file_bytes, mime_type, timestamp)`:
    the record's four fields after the call, as terms over the arguments and the record's old fields"""

    def __init__(self, rec, params):
        env = {'f:status': ('old', '.status'), 'f:ts1': ('old', '.ts1'), 'f:details': ('old', '.details'), 'f:tags': ('old', '.tags')}
        for p in params:
            if p in UARGS:
                env[p] = ('arg', '.' + UARGS[p])
        Sym.__init__(self, env)
        self.rec = rec
        self.returned = False

    def special_assign(self, s):
        t, v = s.targets[0], s.value
        if not (isinstance(t, ast.Name) and t.id == self.rec and isinstance(v, ast.Call) and isinstance(v.func, ast.Attribute)
                and isinstance(v.func.value, ast.Name) and v.func.value.id == self.rec):
            return False
        m, args, kws = v.func.attr, v.args, {k.arg: k.value for k in v.keywords}
        if m == 'set':
            field = None
            if len(args) == 2 and not kws and isinstance(args[0], ast.Constant):
                field, val = args[0].value, args[1]
            elif not args and len(kws) == 1:
                field, val = list(kws.items())[0]
            if field in ('status', 'tags'):
                self.env['f:' + field] = self.expr(val)
                return True
        if m == 'got_timestamp' and len(args) == 1 and not kws:
            self.env['f:ts1'] = self.expr(args[0])
            return True
        if m == 'got_file' and (len(args), sorted(kws)) in ((3, []), (2, ['mime_type'])):
            mime = args[2] if len(args) == 3 else kws['mime_type']
            self.env['f:details'] = ('gotFile', self.env['f:details'], self.expr(args[0]), self.expr(args[1]), self.expr(mime))
            return True
        self.bad = True
        return True

    def effect(self, s):
        if isinstance(s, ast.Return) and isinstance(s.value, ast.Name) and s.value.id == self.rec and not self.returned:
            self.returned = True
            for f in ('status', 'ts1', 'details', 'tags'):
                self.env['out:' + f] = self.env['f:' + f]
            return True
        return False


def update_case_terms(fn):
    params = [a.arg for a in fn.args.args]
    u = UpdateCase(params[1] if len(params) > 1 else 'case', params[2:])
    if params[:1] != ['self'] or sorted(params[2:]) != sorted(UARGS) or fn.args.vararg or fn.args.kwarg:
        u.bad = True
    body = body_of(fn)
    if not body or not isinstance(body[-1], ast.Return):
        u.bad = True
    u.block(body)
    return [lean(u.out('out:' + f)) for f in ('status', 'ts1', 'details', 'tags')], params


def record_status_stmts(fn, upd_params):
    """`_StreamToTestRecord.status` -> [SStmt]"""
    params = [a.arg for a in fn.args.args]
    out = []
    for s in body_of(fn):
        src = ast.unparse(s)
        if isinstance(s, ast.Expr) and isinstance(s.value, ast.Call) and ast.unparse(s.value.func) == 'super().status':
            out.append(('superCall',))
        elif src == 'key = self._ensure_key(test_id, route_code, timestamp)':
            out.append(('ensureKey',))
        elif src in ('if not key:\n    return', 'if key is None:\n    return'):
            out.append(('returnUnlessKey',))
        elif isinstance(s, ast.Assign) and len(s.targets) == 1 and ast.unparse(s.targets[0]) == 'self._inprogress[key]' \
                and isinstance(s.value, ast.Call) and ast.unparse(s.value.func) == 'self._update_case' and not s.value.keywords \
                and [ast.unparse(a) for a in s.value.args] == ['self._inprogress[key]'] + upd_params[2:]:
            out.append(('updateCase',))      # every argument is handed to the parameter of the same name
        elif isinstance(s, ast.If) and not s.orelse and ast.unparse(s.test) == 'test_status not in INTERIM_STATES':
            body = []
            for b in s.body:
                bs = ast.unparse(b)
                body.append({'self.on_test(self._inprogress.pop(key))': ('handOverPop',),
                             'self.on_test(self._inprogress[key])': ('handOverKeep',),
                             'del self._inprogress[key]': ('delKey',), 'self._inprogress.pop(key)': ('delKey',)}.get(bs, OTHER))
            out.append(('ifFinal', body))
        else:
            out.append(OTHER)
    if params[:3] != ['self', 'test_id', 'test_status']:
        out.append(OTHER)
    return out


def ensure_key_stmts(fn):
    out = []
    if [a.arg for a in fn.args.args] != ['self', 'test_id', 'route_code', 'timestamp']:
        out.append(OTHER)
    for s in body_of(fn):
        src = ast.unparse(s)
        out.append({'if test_id is None:\n    return': ('returnIfNoId',),
                    'if test_id is None:\n    return None': ('returnIfNoId',),
                    'key = (test_id, route_code)': ('makeKey',),
                    'if key not in self._inprogress:\n    self._inprogress[key] = _TestRecord.create(test_id, timestamp)': ('createIfAbsent',),
                    'return key': ('returnKey',)}.get(src, OTHER))
    return out


def record_stop_stmts(fn):
    out = []
    for s in body_of(fn):
        src = ast.unparse(s)
        if src == 'super().stopTestRun()':
            out.append(('superCall',))
        elif isinstance(s, ast.While) and not s.orelse and ast.unparse(s.test) == 'self._inprogress':
            body = [ast.unparse(b) for b in s.body]
            if len(body) == 2 and isinstance(s.body[0], ast.Assign) and isinstance(s.body[0].targets[0], ast.Name) \
                    and ast.unparse(s.body[0].value) == 'self._inprogress.popitem()[1]' \
                    and body[1] == 'self.on_test(%s.got_timestamp(None))' % s.body[0].targets[0].id:
                out.append(('drainPopitem',))
            else:
                out.append(OTHER)
        else:
            out.append(OTHER)
    return out


def forward_stmts(fn, method, hook):
    """wrappers that hand a call on to their `_StreamToTestRecord` (`StreamToDict`, `StreamToExtendedDecorator`) -> [FStmt]"""
    out = []
    for s in body_of(fn):
        src = ast.unparse(s)
        if src in ('super().%s(*args, **kwargs)' % method, 'super().%s()' % method):
            out.append(('superCall',))
        elif src in ("if test_status == 'exists':\n    return", "if test_status == 'exists':\n    return None"):
            out.append(('returnIfExists',))
        elif src in ('self.%s.%s(*args, **kwargs)' % (hook, method), 'self.%s.%s()' % (hook, method),
                     'self.%s.status(*args, test_id=test_id, test_status=test_status, **kwargs)' % hook):
            out.append(('hookCall',))
        elif src in ('self.decorated.%s()' % method,):
            out.append(('decoratedCall',))
        else:
            out.append(OTHER)
    return out


def handle_stmts(fn):
    """`StreamToExtendedDecorator._handle_tests` / `StreamToDict._handle_test` -> [GStmt]"""
    out = []
    p = [a.arg for a in fn.args.args]
    rec = p[1] if len(p) == 2 else '?'
    for s in body_of(fn):
        src = ast.unparse(s)
        out.append({'case = %s.to_test_case()' % rec: ('toTestCase',), 'case.run(self.decorated)': ('runCase',),
                    '%s.to_test_case().run(self.decorated)' % rec: ('toTestCaseRun',),
                    'self.on_test(%s.to_dict())' % rec: ('onTestDict',)}.get(src, OTHER))
    return out


def consumer_src(tree):
    terms, upd_params = update_case_terms(find(tree, '_StreamToTestRecord', '_update_case'))
    return '''import TTV.Model.ConsumerSrc
/-! GENERATED by harness/pystream.py from testtools/testresult/real.py on every run - do not edit.
`_StreamToTestRecord`: the four fields of the record after `_update_case` (symbolically executed to terms), the statement
lists of `status`, `_ensure_key`, `stopTestRun`; the forwarding wrappers `StreamToDict` and `StreamToExtendedDecorator`. -/
namespace TTV.Generated.ConsumerSrc
open TTV.ConsumerSrc

def updStatus : UExpr :=
  %s
def updTs1 : UExpr :=
  %s
def updDetails : UExpr :=
  %s
def updTags : UExpr :=
  %s

def recordStatus : List SStmt := %s
def ensureKey : List EStmt := %s
def recordStop : List DStmt := %s

def dictStatus : List FStmt := %s
def dictStart : List FStmt := %s
def dictStop : List FStmt := %s
def dictHandle : List GStmt := %s

def extStatus : List FStmt := %s
def extStart : List FStmt := %s
def extStop : List FStmt := %s
def extHandle : List GStmt := %s

end TTV.Generated.ConsumerSrc
''' % (terms[0], terms[1], terms[2], terms[3],
       lean(record_status_stmts(find(tree, '_StreamToTestRecord', 'status'), upd_params)),
       lean(ensure_key_stmts(find(tree, '_StreamToTestRecord', '_ensure_key'))),
       lean(record_stop_stmts(find(tree, '_StreamToTestRecord', 'stopTestRun'))),
       lean(forward_stmts(find(tree, 'StreamToDict', 'status'), 'status', '_hook')),
       lean(forward_stmts(find(tree, 'StreamToDict', 'startTestRun'), 'startTestRun', '_hook')),
       lean(forward_stmts(find(tree, 'StreamToDict', 'stopTestRun'), 'stopTestRun', '_hook')),
       lean(handle_stmts(find(tree, 'StreamToDict', '_handle_test'))),
       lean(forward_stmts(find(tree, 'StreamToExtendedDecorator', 'status'), 'status', 'hook')),
       lean(forward_stmts(find(tree, 'StreamToExtendedDecorator', 'startTestRun'), 'startTestRun', 'hook')),
       lean(forward_stmts(find(tree, 'StreamToExtendedDecorator', 'stopTestRun'), 'stopTestRun', 'hook')),
       lean(handle_stmts(find(tree, 'StreamToExtendedDecorator', '_handle_tests'))))


def generate_consumer(repo):
    return {'TTV/Generated/ConsumerSrc.lean': consumer_src(parse(repo))}


# ------------------------------------------------------------------------------------------------ C11: decorators
FIELDS = ['test_id', 'test_status', 'test_tags', 'runnable', 'file_name', 'file_bytes', 'eof', 'mime_type', 'route_code', 'timestamp']
LEAN_FIELD = {'test_id': 'testId', 'test_status': 'status', 'test_tags': 'tags', 'runnable': 'runnable', 'file_name': 'fileName',
              'file_bytes': 'fileBytes', 'eof': 'eof', 'mime_type': 'mime', 'route_code': 'route', 'timestamp': 'timestamp'}


class Stamp(Sym):
    """`TimestampingStreamResult.status(self, *args, **kwargs)`: the timestamp handed on"""

    def __init__(self):
        Sym.__init__(self, {})

    def atom(self, e):
        src = ast.unparse(e)
        if src in ("kwargs.pop('timestamp', None)", "kwargs.get('timestamp', None)", "kwargs.get('timestamp')"):
            if src.startswith('kwargs.pop'):
                self.env['__popped__'] = ('none',)
            return ('kwTimestamp',)
        if src in ('datetime.datetime.now(utc)', 'datetime.datetime.now(datetime.timezone.utc)'):
            return ('now',)
        return None

    def effect(self, s):
        # super().status(*args, timestamp=<t>, **kwargs) with `timestamp` popped from kwargs before
        if isinstance(s, ast.Expr) and isinstance(s.value, ast.Call) and ast.unparse(s.value.func) == 'super().status' and '__out__' not in self.env:
            c = s.value
            kws = [(k.arg, k.value) for k in c.keywords]
            if [ast.unparse(a) for a in c.args] == ['*args'] and [k for k, _ in kws] == ['timestamp', None] and ast.unparse(kws[1][1]) == 'kwargs' \
                    and '__popped__' in self.env:
                self.env['__out__'] = self.expr(kws[0][1])
                return True
        return False


class QueueRoute(Sym):
    """`StreamToQueue.route_code(self, route_code)`: the route code put on the queue"""

    def __init__(self):
        Sym.__init__(self, {'route_code': ('kwRoute',)})

    def atom(self, e):
        src = ast.unparse(e)
        if src == 'self.routing_code':
            return ('code',)
        if src in ("self.routing_code + '/' + route_code",) and self.env.get('route_code') == ('kwRoute',):
            return ('join', ('code',), ('kwRoute',))
        return None

    def effect(self, s):
        if isinstance(s, ast.Return) and s.value is not None and '__out__' not in self.env:
            self.env['__out__'] = self.expr(s.value)
            return True
        return False


def status_params(fn):
    """parameter names of a `status` method after self, as Lean field names (`other` for anything else) -> list, or None for *args/**kwargs"""
    if fn.args.vararg or fn.args.kwarg:
        return None
    return [('.' + LEAN_FIELD[a.arg]) if a.arg in LEAN_FIELD else '.other' for a in fn.args.args[1:]]


def queue_dict(fn):
    """the `dict(event="status", k=v, …)` put on the queue by `StreamToQueue.status` -> [(field, QArg)] in canonical field order"""
    body = body_of(fn)
    if len(body) != 1 or not (isinstance(body[0], ast.Expr) and isinstance(body[0].value, ast.Call) and ast.unparse(body[0].value.func) == 'self.queue.put'
                              and len(body[0].value.args) == 1 and isinstance(body[0].value.args[0], ast.Call) and ast.unparse(body[0].value.args[0].func) == 'dict'
                              and not body[0].value.args[0].args):
        return None
    kws = {k.arg: k.value for k in body[0].value.args[0].keywords}
    if len(kws) != len(body[0].value.args[0].keywords) or ast.unparse(kws.pop('event', ast.Constant(value=None))) != "'status'":
        return None
    out = []
    for f in FIELDS:                         # a dict: the order of the keywords is irrelevant
        v = kws.pop(f, None)
        if v is None:
            out.append('(.%s, .missing)' % LEAN_FIELD[f])
        elif isinstance(v, ast.Name) and v.id in LEAN_FIELD:
            out.append('(.%s, .param .%s)' % (LEAN_FIELD[f], LEAN_FIELD[v.id]))
        elif ast.unparse(v) == 'self.route_code(route_code)':
            out.append('(.%s, .routed)' % LEAN_FIELD[f])
        else:
            out.append('(.%s, .other)' % LEAN_FIELD[f])
    if kws:
        out.append('(.other, .other)')
    return out


def copy_stmts(fn, method):
    out = []
    for s in body_of(fn):
        src = ast.unparse(s)
        if src in ('super().%s()' % method, 'super().%s(*args, **kwargs)' % method):
            out.append(('superCall',))
        elif src in ("_strict_map(methodcaller('%s'), self.targets)" % method, "_strict_map(methodcaller('%s', *args, **kwargs), self.targets)" % method):
            out.append(('mapTargets',))
        else:
            out.append(OTHER)
    if method == 'status' and not (fn.args.vararg and fn.args.kwarg and [a.arg for a in fn.args.args] == ['self']):
        out.append(OTHER)
    return out


def failfast_stmts(fn):
    out = []
    for s in body_of(fn):
        if isinstance(s, ast.If) and not s.orelse and isinstance(s.test, ast.Compare) and len(s.test.ops) == 1 and isinstance(s.test.ops[0], ast.In) \
                and ast.unparse(s.test.left) == 'test_status' and isinstance(s.test.comparators[0], (ast.Tuple, ast.List, ast.Set)) \
                and all(isinstance(x, ast.Constant) and x.value in STATUS_LEAN for x in s.test.comparators[0].elts) \
                and [ast.unparse(b) for b in s.body] == ['self.on_error()']:
            sts = sorted({x.value for x in s.test.comparators[0].elts}, key=list(STATUS_LEAN).index)
            out.append('(.ifStatusInThenOnError [%s])' % ', '.join('.' + STATUS_LEAN[x] for x in sts))
        else:
            out.append('.other')
    return '[' + ', '.join(out) + ']'


STATUS_LEAN = {'inprogress': 'inprogress', 'exists': 'exist', 'xfail': 'xfail', 'uxsuccess': 'uxsuccess', 'success': 'success',
               'fail': 'fail', 'skip': 'skip', 'unknown': 'unknown'}


def deco_src(tree):
    st = Stamp()
    fn = find(tree, 'TimestampingStreamResult', 'status')
    if not (fn.args.vararg and fn.args.kwarg and [a.arg for a in fn.args.args] == ['self']):
        st.bad = True
    st.block(body_of(fn))
    qr = QueueRoute()
    fn = find(tree, 'StreamToQueue', 'route_code')
    if [a.arg for a in fn.args.args] != ['self', 'route_code']:
        qr.bad = True
    qr.block(body_of(fn))
    orders = []
    for cls in ('StreamResult', 'StreamFailFast', '_StreamToTestRecord', 'StreamToQueue'):
        p = status_params(find(tree, cls, 'status'))
        orders.append('("%s", %s)' % (cls, '[.other]' if p is None else '[' + ', '.join(p) + ']'))
    qd = queue_dict(find(tree, 'StreamToQueue', 'status'))
    return '''import TTV.Model.DecoSrc
/-! GENERATED by harness/pystream.py from testtools/testresult/real.py on every run - do not edit.
The field-owning decorators: the timestamp `TimestampingStreamResult.status` hands on and the route code
`StreamToQueue.route_code` computes (symbolically executed to terms); the parameter order of the explicit `status`
signatures; which parameter feeds which key of the dict `StreamToQueue.status` enqueues; the statement lists of
`CopyStreamResult` and `StreamFailFast.status`. -/
namespace TTV.Generated.DecoSrc
open TTV.DecoSrc TTV.Stream

def stampTimestamp : DExpr :=
  %s

def queueRoute : DExpr :=
  %s

def statusParams : List (String × List Field) := [%s]

def queueDict : List (Field × QArg) := [%s]

def copyStart : List CStmt := %s
def copyStop : List CStmt := %s
def copyStatus : List CStmt := %s

def failFastStatus : List FFStmt := %s

end TTV.Generated.DecoSrc
''' % (lean(st.out('__out__')), lean(qr.out('__out__')), ', '.join(orders),
       '(.other, .other)' if qd is None else ', '.join(qd),
       lean(copy_stmts(find(tree, 'CopyStreamResult', 'startTestRun'), 'startTestRun')),
       lean(copy_stmts(find(tree, 'CopyStreamResult', 'stopTestRun'), 'stopTestRun')),
       lean(copy_stmts(find(tree, 'CopyStreamResult', 'status'), 'status')),
       failfast_stmts(find(tree, 'StreamFailFast', 'status')))


def generate_deco(repo):
    return {'TTV/Generated/DecoSrc.lean': deco_src(parse(repo))}


# ------------------------------------------------------------------------------------------------ C09: _convert
def status_call(s):
    """`self.status(k=v, …)` -> {k: source of v} (keyword order irrelevant), else None"""
    if isinstance(s, ast.Expr) and isinstance(s.value, ast.Call) and ast.unparse(s.value.func) == 'self.status' and not s.value.args \
            and all(k.arg for k in s.value.keywords):
        d = {k.arg: ast.unparse(k.value) for k in s.value.keywords}
        return d if len(d) == len(s.value.keywords) else None
    return None


FILE_EVENT = {'file_name': 'name', 'file_bytes': 'file_bytes', 'mime_type': 'mime_type', 'test_id': 'test_id', 'timestamp': 'now'}


def chunk_body(stmts):
    out = []
    for s in stmts:
        src = ast.unparse(s)
        if isinstance(s, ast.If) and not s.orelse and ast.unparse(s.test) == 'file_bytes is not None' and len(s.body) == 1 \
                and status_call(s.body[0]) == FILE_EVENT:
            out.append(('ifPendingEmit',))
        elif src == 'file_bytes = next_bytes':
            out.append(('setPending',))
        else:
            out.append(OTHER)
    return out


def detail_body(stmts):
    out = []
    for s in stmts:
        src = ast.unparse(s)
        if src == 'mime_type = repr(content.content_type)':
            out.append(('bindMime',))
        elif src == 'file_bytes = None':
            out.append(('initPending',))
        elif isinstance(s, ast.For) and not s.orelse and ast.unparse(s.target) == 'next_bytes' and ast.unparse(s.iter) == 'content.iter_bytes()':
            out.append(('forChunks', chunk_body(s.body)))
        elif src in ("if file_bytes is None:\n    file_bytes = _b('')", "if file_bytes is None:\n    file_bytes = b''"):
            out.append(('defaultEmpty',))
        elif status_call(s) == dict(FILE_EVENT, eof='True'):
            out.append(('emitLast',))
        else:
            out.append(OTHER)
    return out


def convert_stmts(fn):
    out = []
    if [a.arg for a in fn.args.args] != ['self', 'test', 'err', 'details', 'status', 'reason']:
        out.append(OTHER)
    for s in body_of(fn):
        src = ast.unparse(s)
        c = status_call(s)
        if src == 'if not self._started:\n    self.startTestRun()':
            out.append(('ensureStarted',))
        elif src == 'test_id = test.id()':
            out.append(('bindTestId',))
        elif src == 'now = self._now()':
            out.append(('bindNow',))
        elif src == "if err is not None:\n    if details is None:\n        details = {}\n    details['traceback'] = TracebackContent(err, test)":
            out.append(('ifErrTraceback',))
        elif isinstance(s, ast.If) and not s.orelse and ast.unparse(s.test) == 'details is not None' and len(s.body) == 1 \
                and isinstance(s.body[0], ast.For) and not s.body[0].orelse and ast.unparse(s.body[0].target) == '(name, content)' \
                and ast.unparse(s.body[0].iter) == 'details.items()':
            out.append(('ifDetailsFor', detail_body(s.body[0].body)))
        elif isinstance(s, ast.If) and not s.orelse and ast.unparse(s.test) == 'reason is not None' and len(s.body) == 1 \
                and status_call(s.body[0]) == {'file_name': "'reason'", 'file_bytes': "reason.encode('utf8')", 'eof': 'True',
                                               'mime_type': "'text/plain; charset=utf8'", 'test_id': 'test_id', 'timestamp': 'now'}:
            out.append(('ifReasonEmit',))
        elif c == {'test_id': 'test_id', 'test_status': 'status', 'test_tags': 'self.current_tags', 'timestamp': 'now'}:
            out.append(('emitFinal',))
        else:
            out.append(OTHER)
    return out


def e2s_start_stmts(fn):
    """`ExtendedToStreamDecorator.startTestRun` -> [XStmt]"""
    out = []
    for st in body_of(fn):
        out.append({'super().startTestRun()': ('superCall',), 'self._tags = TagContext()': ('resetTags',),
                    'self.shouldStop = False': ('clearStop',), 'self.__now = None': ('resetClock',),
                    'self._started = True': ('setStarted',)}.get(ast.unparse(st), OTHER))
    return out


def convert_src(tree):
    return '''import TTV.Model.ConvertSrc
/-! GENERATED by harness/pystream.py from testtools/testresult/real.py on every run - do not edit.
The statement skeleton of `ExtendedToStreamDecorator._convert` (with the chunk loop and its one-chunk look-ahead) and the
statement list of `ExtendedToStreamDecorator.startTestRun` (what a new run resets). -/
namespace TTV.Generated.ConvertSrc
open TTV.ConvertSrc

def convert : List VStmt :=
  %s

def startTestRun : List XStmt := %s

end TTV.Generated.ConvertSrc
''' % (lean(convert_stmts(find(tree, 'ExtendedToStreamDecorator', '_convert'))),
       lean(e2s_start_stmts(find(tree, 'ExtendedToStreamDecorator', 'startTestRun'))))


def generate_convert(repo):
    return {'TTV/Generated/ConvertSrc.lean': convert_src(parse(repo))}


def parse(repo):
    return ast.parse(open(os.path.join(repo, 'testtools', 'testresult', 'real.py')).read())


def generate_router(repo):
    return {'TTV/Generated/RouterSrc.lean': router_src(parse(repo))}


if __name__ == '__main__':
    import sys
    repo = sys.argv[1] if len(sys.argv) > 1 else '/repo'
    for g in (generate_router, generate_consumer, generate_deco, generate_convert):
        for k, v in g(repo).items():
            print(v)
