"""Python -> Lean translators for the decision logic of the stream classes of testtools/testresult/real.py
(the stream family's *translator ties*, DESIGN.md Addendum D.2a).  Run on every check of C18 / C10 / C11 (through the
plug-ins' `extract_tables`): the functions are re-read from the tree under test and emitted as Lean DATA into
`TTV/Generated/RouterSrc.lean`, `ConsumerSrc.lean`, `DecoSrc.lean`.  `TTV/Model/*Src.lean` give the data a meaning over the
hand-written models' state; theorems `Cxx_src_*` prove that the model functions ARE the interpretation of what was found in
the source (`decide` against a reference term + a once-and-for-all lemma `interp ref = model`).

Two translation styles are used.
* **Symbolic execution to a term** (`Sym`): for straight-line code with `if/elif/else` whose result is "which value ends up
  where" (`StreamResultRouter.status`, `StreamToQueue.route_code`, `TimestampingStreamResult.status`).  Local variables are
  bound to terms and substituted away; an `if` executes both arms and merges every variable that differs into `ite c a b`;
  conditions are normalised (`x is None` = `not (x is not None)`, `ite (not c) a b` = `ite c b a`, `ite c x x` = `x`).
  Hence renamed locals, reordered independent assignments, an `if` turned around with its arms swapped, or an extra pure
  binding do NOT change the term; a changed guard, lookup, slice, precedence or forwarded value does.
* **Statement skeletons**: for code whose order of effects matters (`startTestRun`/`stopTestRun`, `add_rule` and the policy
  methods, `_StreamToTestRecord.status` / `stopTestRun` / `_ensure_key`, `CopyStreamResult`): each statement must match one
  of a few exact shapes (after `ast.unparse`, so layout and comments are irrelevant), in source order.

Whatever is not recognised becomes `.other` (`.undef` for a variable read before assignment), which no reference term
contains: the theorem then fails to build, check.py reports the broken obligation and goes on to search for a failing input.
Trusted: this translator (a bug could make a changed source look unchanged - it refuses what it does not know, and the
differential correspondence runs regardless) and the Lean interpreters' reading of `if`, `and`, `not`, `is None`,
truthiness of str/bytes/set values, dict lookup and `for x in list` as Python's.
"""
import ast, os


def find(tree, cls, name):
    for node in ast.walk(tree):
        if isinstance(node, ast.ClassDef) and node.name == cls:
            for f in node.body:
                if isinstance(f, ast.FunctionDef) and f.name == name:
                    return f
    raise ValueError('%s.%s not found' % (cls, name))


def find_class(tree, cls):
    for node in ast.walk(tree):
        if isinstance(node, ast.ClassDef) and node.name == cls:
            return node
    raise ValueError('class %s not found' % cls)


def body_of(fn):
    """statements without the docstring"""
    b = list(fn.body)
    if b and isinstance(b[0], ast.Expr) and isinstance(b[0].value, ast.Constant) and isinstance(b[0].value.value, str):
        b = b[1:]
    return b


def lean(t):
    """term (nested tuples / str / bool / list) -> Lean source"""
    if isinstance(t, bool):
        return 'true' if t else 'false'
    if isinstance(t, str):
        return t
    if isinstance(t, list):
        return '[' + ', '.join(lean(x) for x in t) + ']'
    if len(t) == 1:
        return '.' + t[0]
    return '(.' + t[0] + ' ' + ' '.join(lean(x) for x in t[1:]) + ')'


OTHER = ('other',)
UNDEF = ('undef',)


# ------------------------------------------------------------------------------------------------ symbolic execution
TRUE, FALSE, NONE = ('true',), ('false',), ('none',)      # the two constants never survive into an emitted term
INPUTS = ('kwRoute', 'kwTestId', 'kwTimestamp', 'arg', 'old', 'code')      # terms that stand for a fixed input value


def subst(t, x, v):
    """replace every occurrence of the subterm x in t by v"""
    if t == x:
        return v
    if isinstance(t, tuple):
        return tuple(subst(y, x, v) if isinstance(y, tuple) else y for y in t)
    return t


def fold(t):
    """constant folding, bottom-up: notNone/truthy of None, not/and/ite on constants"""
    if not isinstance(t, tuple) or len(t) == 1:
        return t
    t = tuple(fold(y) if isinstance(y, tuple) else y for y in t)
    h = t[0]
    if h in ('notNone', 'truthy') and t[1] == NONE:
        return FALSE
    if h == 'not':
        return FALSE if t[1] == TRUE else TRUE if t[1] == FALSE else mk_not(t[1])
    if h == 'and':
        return mk_and(t[1], t[2])
    if h == 'ite':
        return mk_ite(t[1], t[2], t[3])
    return t


def mk_not(c):
    return c[1] if c[0] == 'not' else ('not', c)


LOOKUPS = ('pfxSink', 'pfxConsume', 'idSink')


def total(t, facts=()):
    """a condition / value that always evaluates, without effect: tests of inputs, constants, dict membership, reads of locals that
    hold the result of a lookup (the lookup itself happened where the local was bound - `RouterStatus` admits it only on a path
    that has tested the key), a slice / split of something known not to be None"""
    if not isinstance(t, tuple):
        return False
    h = t[0]
    if h in INPUTS or t == NONE:
        return True
    if h in ('notNone', 'truthy', 'not', 'inPrefixes', 'inIds') + LOOKUPS:
        return all(total(x, facts) for x in t[1:])
    if h == 'and':
        return total(t[1], facts) and total(t[2], facts + (t[1],))
    if h == 'ite':
        return total(t[1], facts) and total(t[2], facts + (t[1],)) and total(t[3], facts)
    if h in ('firstSeg', 'dropSeg'):
        return ('notNone', t[1]) in facts and all(total(x, facts) for x in t[1:])
    return False


def has_lookup(t):
    return any(isinstance(x, tuple) and x[0] in LOOKUPS for x in flat(t))


def conjuncts(t):
    return conjuncts(t[1]) + conjuncts(t[2]) if t[0] == 'and' else [t]


def mk_and(a, b):
    """`a and b`, right-nested.  When every conjunct always evaluates (see `total`) their order is immaterial and they are put in a
    canonical order: tests that read a looked-up value after those that do not (so a membership test stays in front of the reads
    it guards), then alphabetically.  Otherwise the order is kept - with short-circuit evaluation a later operand may only be
    defined when the earlier ones hold."""
    cs = [c for c in conjuncts(a) + conjuncts(b) if c != TRUE]
    if FALSE in cs:
        return FALSE
    if not cs:
        return TRUE
    if all(total(c) for c in cs):
        cs = sorted(set(cs), key=lambda c: (has_lookup(c), repr(c)))
    r = cs[-1]
    for c in reversed(cs[:-1]):
        r = ('and', c, r)
    return r


def assume(t, c, value):
    """t simplified under the knowledge that the (pure) condition c is `value`: c itself becomes a constant, and where
    `x is not None` is false for an input x, x is None"""
    t = subst(t, c, TRUE if value else FALSE)
    if not value and c[0] == 'notNone' and c[1][0] in INPUTS:
        t = subst(t, c[1], NONE)
    return fold(t)


def mk_ite(c, a, b):
    if c == TRUE:
        return a
    if c == FALSE:
        return b
    if c[0] == 'not':
        return mk_ite(c[1], b, a)
    if a == b:                                          # not touched by either arm
        return a
    a, b = assume(a, c, True), assume(b, c, False)      # path-sensitive: each arm is read knowing the outcome of the test
    if a == b:
        return a
    if c == ('notNone', a) and b == NONE:               # `x if x is not None else None` is x
        return a
    if a[0] == 'ite' and a[3] == b:                     # `if c: (if d: x else: y) else: y` is `if c and d: x else: y`
        return mk_ite(mk_and(c, a[1]), a[2], b)
    return ('ite', c, a, b)


def flat(t):
    yield t
    if isinstance(t, tuple):
        for y in t[1:]:
            if isinstance(y, tuple):
                yield from flat(y)


class Sym:
    """symbolic executor; a subclass supplies `atom(node)` (domain expressions) and the initial environment"""

    def __init__(self, env):
        self.env = dict(env)
        self.bad = False
        self.path = []              # (condition, value) of the enclosing ifs

    def holds(self, c):
        """is the condition known to hold on this path (syntactically: one of the enclosing tests, or a conjunct of one)"""
        def facts(t, v):
            if t[0] == 'not':
                return facts(t[1], not v)
            if t[0] == 'and' and v:
                return facts(t[1], True) + facts(t[2], True)
            return [(t, v)]
        return any((c, True) in facts(t, v) for t, v in self.path)

    def norm(self, c):
        """domain-specific reading of a condition"""
        return c

    # -- expressions
    def atom(self, e):
        return None

    def expr(self, e):
        if isinstance(e, ast.Constant) and e.value is None:
            return ('none',)
        if isinstance(e, ast.Name) and e.id in self.env:
            return self.env[e.id]
        if isinstance(e, ast.Name):
            a = self.atom(e)
            return a if a is not None else UNDEF
        a = self.atom(e)
        if a is not None:
            return a
        if isinstance(e, ast.BoolOp) and isinstance(e.op, ast.Or) and len(e.values) == 2:
            a = self.expr(e.values[0])                       # `a or b` as a value: a if a else b
            return mk_ite(fold(self.norm(('truthy', a))), a, self.expr(e.values[1]))
        if isinstance(e, ast.Compare) or (isinstance(e, ast.BoolOp) and isinstance(e.op, ast.And)) \
                or (isinstance(e, ast.UnaryOp) and isinstance(e.op, ast.Not)):
            return self.cond(e)
        if isinstance(e, ast.IfExp):
            return mk_ite(self.cond(e.test), self.expr(e.body), self.expr(e.orelse))
        return OTHER

    def cond(self, t):
        if isinstance(t, ast.UnaryOp) and isinstance(t.op, ast.Not):
            return mk_not(self.cond(t.operand))
        if isinstance(t, ast.BoolOp) and isinstance(t.op, ast.And):
            r = self.cond(t.values[0])
            for v in t.values[1:]:
                r = mk_and(r, self.cond(v))
            return r
        if isinstance(t, ast.Compare) and len(t.ops) == 1:
            op, a, b = t.ops[0], t.left, t.comparators[0]
            none = lambda x: isinstance(x, ast.Constant) and x.value is None
            # `== None` / `!= None` read as `is None` / `is not None`: the values here are str / bytes / set / datetime / None,
            # none of which compares equal to None
            if isinstance(op, (ast.IsNot, ast.NotEq)) and none(b):
                return fold(self.norm(('notNone', self.expr(a))))
            if isinstance(op, (ast.Is, ast.Eq)) and none(b):
                return fold(mk_not(self.norm(('notNone', self.expr(a)))))
            c = self.compare(op, a, b)
            if c is not None:
                return c
            return OTHER
        a = self.cond_atom(t)
        if a is not None:
            return a
        if isinstance(t, ast.BoolOp):
            return OTHER                                     # `or` in a condition: not in the language
        return fold(self.norm(('truthy', self.expr(t))))

    def compare(self, op, a, b):
        return None

    def cond_atom(self, t):
        return None

    # -- statements
    def assign(self, target, value_term):
        """bind a target; returns False if the target form is not supported"""
        if isinstance(target, ast.Name):
            self.env[target.id] = value_term
            return True
        return False

    def stmt(self, s):
        if '__returned__' in self.env:
            self.bad = True                          # a statement reached although some path before it has returned
        if isinstance(s, ast.Pass):
            return
        if isinstance(s, ast.Expr) and isinstance(s.value, ast.Constant):
            return
        if isinstance(s, ast.Assign) and len(s.targets) == 1:
            if self.special_assign(s):
                return
            if self.assign(s.targets[0], self.expr(s.value)):
                return
        if isinstance(s, ast.If):
            if not s.orelse and len(s.body) == 1 and isinstance(s.body[0], ast.If) and not s.body[0].orelse:
                # `if c: if d: B` (no else anywhere) is `if c and d: B`
                return self.stmt(ast.If(test=ast.BoolOp(op=ast.And(), values=[s.test, s.body[0].test]), body=s.body[0].body, orelse=[]))
            c = self.cond(s.test)
            a, b = self.fork(), self.fork()
            a.path = self.path + [(c, True)]
            b.path = self.path + [(c, False)]
            a.block(s.body)
            b.block(s.orelse)
            self.bad = self.bad or a.bad or b.bad
            for k in sorted(set(a.env) | set(b.env)):
                self.env[k] = mk_ite(c, a.env.get(k, UNDEF), b.env.get(k, UNDEF))
            return
        if self.effect(s):
            return
        if isinstance(s, ast.Return) and (s.value is None or ast.unparse(s.value) == 'None') and self.returns_none:
            self.env['__returned__'] = NONE        # end of this path (only as the last statement of a block, see `block`)
            return
        self.bad = True

    returns_none = False

    def special_assign(self, s):
        return False

    def effect(self, s):
        return False

    def fork(self):
        f = self.__class__.__new__(self.__class__)
        f.__dict__.update(self.__dict__)
        f.env = dict(self.env)
        f.path = list(self.path)
        f.bad = False
        return f

    def block(self, stmts):
        for i, s in enumerate(stmts):
            if isinstance(s, ast.If) and not s.orelse and s.body and isinstance(s.body[-1], ast.Return) and stmts[i + 1:]:
                # `if c: …; return x` followed by more statements: the rest is the else arm
                self.stmt(ast.If(test=s.test, body=s.body, orelse=stmts[i + 1:]))
                return
            if isinstance(s, ast.Return) and stmts[i + 1:]:
                self.bad = True                      # dead code after a return
            self.stmt(s)

    def out(self, key):
        t = OTHER if self.bad else fold(self.env.get(key, UNDEF))
        return OTHER if (TRUE in flat(t) or FALSE in flat(t)) else t


# ------------------------------------------------------------------------------------------------ C18: StreamResultRouter
class RouterStatus(Sym):
    """`StreamResultRouter.status(self, **kwargs)`: who gets the event, and with which route code"""

    returns_none = True

    def __init__(self):
        Sym.__init__(self, {'kw:route_code': ('kwRoute',), 'kw:test_id': ('kwTestId',)})
        self.alias = {}

    def table(self, e):
        """`self._route_code_prefixes` / `self._test_ids`, or a local bound to one of them (the dicts are only read here)"""
        src = ast.unparse(e)
        if isinstance(e, ast.Name) and e.id in self.alias:
            return self.alias[e.id]
        return {'self._route_code_prefixes': 'prefixes', 'self._test_ids': 'ids'}.get(src)

    def kw(self, e):
        """kwargs.get("k"[, None]) / kwargs["k"] -> key"""
        if isinstance(e, ast.Call) and ast.unparse(e.func) == 'kwargs.get' and 1 <= len(e.args) <= 2 and not e.keywords \
                and isinstance(e.args[0], ast.Constant) and (len(e.args) == 1 or ast.unparse(e.args[1]) == 'None'):
            return e.args[0].value
        if isinstance(e, ast.Subscript) and ast.unparse(e.value) == 'kwargs' and isinstance(e.slice, ast.Constant):
            return e.slice.value
        return None

    def atom(self, e):
        k = self.kw(e)
        if k is not None:
            return self.env.get('kw:' + k, OTHER)
        src = ast.unparse(e)
        if src == 'self.fallback':
            return ('fallback',)
        # X.split("/")[0]; also X.split("/", n)[0] for a literal n >= 1 and X.partition("/")[0]: the same first segment
        if isinstance(e, ast.Subscript) and isinstance(e.slice, ast.Constant) and e.slice.value == 0 and isinstance(e.value, ast.Call) \
                and isinstance(e.value.func, ast.Attribute) and not e.value.keywords and e.value.args \
                and isinstance(e.value.args[0], ast.Constant) and e.value.args[0].value == '/':
            m, extra = e.value.func.attr, e.value.args[1:]
            if (m == 'split' and (not extra or (len(extra) == 1 and isinstance(extra[0], ast.Constant) and type(extra[0].value) is int and extra[0].value >= 1))) \
                    or (m == 'partition' and not extra):
                return ('firstSeg', self.expr(e.value.func.value))
        # X[len(Y) + 1:]
        if isinstance(e, ast.Subscript) and isinstance(e.slice, ast.Slice) and e.slice.upper is None and e.slice.step is None \
                and isinstance(e.slice.lower, ast.BinOp) and isinstance(e.slice.lower.op, ast.Add):
            lo = e.slice.lower
            for a, b in ((lo.left, lo.right), (lo.right, lo.left)):
                if isinstance(b, ast.Constant) and b.value == 1 and isinstance(a, ast.Call) and ast.unparse(a.func) == 'len' and len(a.args) == 1:
                    return ('dropSeg', self.expr(e.value), self.expr(a.args[0]))
        if isinstance(e, ast.Subscript) and self.table(e.value) == 'ids':
            k = self.expr(e.slice)
            if not self.holds(('inIds', k)):
                self.bad = True                      # a lookup on a path that has not tested the key: may raise KeyError
            return ('idSink', k)
        # entry[0] / entry[1] of a looked-up (sink, consume_route) pair
        if isinstance(e, ast.Subscript) and isinstance(e.slice, ast.Constant) and e.slice.value in (0, 1) and isinstance(e.value, ast.Name) \
                and self.env.get(e.value.id, OTHER)[0] == 'pfxEntry':
            k = self.env[e.value.id][1]
            if not self.holds(('inPrefixes', k)):
                self.bad = True
            return (('pfxSink', 'pfxConsume')[e.slice.value], k)
        return None

    def norm(self, c):
        # `entry = self._route_code_prefixes.get(k)`: the values of that dict are 2-tuples, so `entry is not None` / `entry` is `k in …`
        if c[0] in ('notNone', 'truthy') and c[1][0] == 'pfxEntry':
            return ('inPrefixes', c[1][1])
        return c

    def compare(self, op, a, b):
        if isinstance(op, ast.In) and self.table(b) == 'prefixes':
            return ('inPrefixes', self.expr(a))
        if isinstance(op, ast.In) and self.table(b) == 'ids':
            return ('inIds', self.expr(a))
        if isinstance(op, ast.NotIn) and self.table(b) in ('prefixes', 'ids'):
            return mk_not(self.compare(ast.In(), a, b))
        return None

    def special_assign(self, s):
        t = s.targets[0]
        if isinstance(t, ast.Name) and ast.unparse(s.value) in ('self._route_code_prefixes', 'self._test_ids'):
            self.alias[t.id] = self.table(s.value)
            return True
        # entry = self._route_code_prefixes.get(prefix[, None])
        v = s.value
        if isinstance(t, ast.Name) and isinstance(v, ast.Call) and isinstance(v.func, ast.Attribute) and v.func.attr == 'get' \
                and self.table(v.func.value) == 'prefixes' and not v.keywords and 1 <= len(v.args) <= 2 \
                and (len(v.args) == 1 or ast.unparse(v.args[1]) == 'None'):
            self.env[t.id] = ('pfxEntry', self.expr(v.args[0]))
            return True
        # target, consume_route = self._route_code_prefixes[prefix]   /   … = entry
        if isinstance(t, ast.Tuple) and len(t.elts) == 2 and all(isinstance(x, ast.Name) for x in t.elts):
            k = None
            if isinstance(v, ast.Subscript) and self.table(v.value) == 'prefixes':
                k = self.expr(v.slice)
            elif isinstance(v, ast.Name) and self.env.get(v.id, OTHER)[0] == 'pfxEntry':
                k = self.env[v.id][1]
            if k is not None:
                if not self.holds(('inPrefixes', k)):
                    self.bad = True                  # a lookup on a path that has not tested the key: may raise KeyError
                self.env[t.elts[0].id] = ('pfxSink', k)
                self.env[t.elts[1].id] = ('pfxConsume', k)
                return True
        # kwargs["route_code"] = X
        if isinstance(t, ast.Subscript) and ast.unparse(t.value) == 'kwargs' and isinstance(t.slice, ast.Constant):
            if t.slice.value != 'route_code':
                self.bad = True            # the router forwards every other field as it came
            self.env['kw:' + str(t.slice.value)] = self.expr(s.value)
            return True
        return False

    def effect(self, s):
        # <target>.status(**kwargs): the forwarding call - exactly one on every path
        if isinstance(s, ast.Expr) and isinstance(s.value, ast.Call) and isinstance(s.value.func, ast.Attribute) and s.value.func.attr == 'status' \
                and not s.value.args and len(s.value.keywords) == 1 and s.value.keywords[0].arg is None and ast.unparse(s.value.keywords[0].value) == 'kwargs' \
                and '__target__' not in self.env:
            self.env['__target__'] = self.expr(s.value.func.value)
            self.env['__route__'] = self.env['kw:route_code']
            if self.env['kw:test_id'] != ('kwTestId',):
                self.bad = True
            return True
        return False


def ctl_stmts(fn, method):
    """`startTestRun` / `stopTestRun` of the router -> [CtlStmt]"""
    out = []
    for s in body_of(fn):
        src = ast.unparse(s)
        if src in ('super().%s()' % method, 'super(StreamResultRouter, self).%s()' % method):
            out.append(('superCall',))
        elif isinstance(s, ast.For) and not s.orelse and isinstance(s.target, ast.Name) and ast.unparse(s.iter) == 'self._sinks' \
                and [ast.unparse(b) for b in s.body] == ['%s.%s()' % (s.target.id, method)]:
            out.append(('forSinksCall', method == 'startTestRun'))        # the name of the loop variable is immaterial
        elif src in ('self._in_run = True', 'self._in_run = False'):
            out.append(('setInRun', src.endswith('True')))
        else:
            out.append(OTHER)
    return out


def add_rule_pre(stmts):
    """control-flow spellings of `add_rule` brought to one form (the flag `do_start_stop_run` is a parameter that is never
    assigned - an assignment is not a statement of the language - so tests of it may be split, merged and turned around;
    `self._in_run` is state that a sink can change and is left exactly where it is tested)"""
    flag = 'do_start_stop_run'
    out = []
    for i, s in enumerate(stmts):
        if isinstance(s, ast.If) and not s.orelse and ast.unparse(s.test) == 'not ' + flag and len(s.body) == 1 \
                and isinstance(s.body[0], ast.Return) and (s.body[0].value is None or ast.unparse(s.body[0].value) == 'None') and stmts[i + 1:]:
            s = ast.If(test=ast.Name(id=flag, ctx=ast.Load()), body=stmts[i + 1:], orelse=[])       # `if not flag: return` + rest
            stmts = stmts[:i + 1]
        if isinstance(s, ast.If) and not s.orelse and isinstance(s.test, ast.BoolOp) and isinstance(s.test.op, ast.And):
            vs = s.test.values                                                                       # `if a and b: B` is `if a: if b: B`
            inner = ast.If(test=vs[1] if len(vs) == 2 else ast.BoolOp(op=ast.And(), values=vs[1:]), body=s.body, orelse=[])
            s = ast.If(test=vs[0], body=[inner], orelse=[])
        if isinstance(s, ast.If) and not s.orelse:
            s = ast.If(test=s.test, body=add_rule_pre(s.body), orelse=[])
            if out and isinstance(out[-1], ast.If) and not out[-1].orelse and ast.unparse(out[-1].test) == flag == ast.unparse(s.test):
                out[-1] = ast.If(test=s.test, body=add_rule_pre(out[-1].body + s.body), orelse=[])   # `if flag: A` `if flag: B`
                continue
        out.append(s)
        if len(stmts) == i + 1:
            break
    return out


def add_rule_stmts(stmts, names, pre=True):
    """`add_rule` -> AStmt (continuation style)"""
    if pre:
        stmts = add_rule_pre(stmts)
    if not stmts:
        return ('done',)
    s, rest = stmts[0], stmts[1:]
    k = lambda: add_rule_stmts(rest, names, False)
    src = ast.unparse(s)
    if isinstance(s, ast.Assign) and len(s.targets) == 1 and isinstance(s.targets[0], ast.Name) and \
            ast.unparse(s.value) in ('StreamResultRouter._policies.get(policy, None)', 'StreamResultRouter._policies.get(policy)',
                                     'self._policies.get(policy, None)', 'self._policies.get(policy)'):
        names['pm'] = s.targets[0].id
        return ('lookupPolicy', k())
    pm = names.get('pm', '?')
    if isinstance(s, ast.If) and not s.orelse and ast.unparse(s.test) in ('not ' + pm, pm + ' is None') and len(s.body) == 1 \
            and isinstance(s.body[0], ast.Raise) and ast.unparse(s.body[0].exc).startswith('ValueError('):
        return ('raiseUnlessPolicy', k())
    if src == '%s(self, sink, **policy_args)' % pm:
        return ('callPolicy', k())
    if isinstance(s, ast.If) and not s.orelse and ast.unparse(s.test) == 'do_start_stop_run':
        return ('ifFlag', add_rule_stmts(s.body, names, False), k())
    if isinstance(s, ast.If) and not s.orelse and ast.unparse(s.test) == 'self._in_run':
        return ('ifInRun', add_rule_stmts(s.body, names, False), k())
    # if not any(s is sink for s in self._sinks): the sink OBJECT is not registered yet (identity, not equality)
    t = s.test if isinstance(s, ast.If) and not s.orelse else None
    if isinstance(t, ast.UnaryOp) and isinstance(t.op, ast.Not) and isinstance(t.operand, ast.Call) and ast.unparse(t.operand.func) == 'any' \
            and len(t.operand.args) == 1 and not t.operand.keywords and isinstance(t.operand.args[0], ast.GeneratorExp):
        g = t.operand.args[0]
        if len(g.generators) == 1 and not g.generators[0].ifs and isinstance(g.generators[0].target, ast.Name) \
                and ast.unparse(g.generators[0].iter) == 'self._sinks' and g.generators[0].target.id not in ('sink', 'self') \
                and ast.unparse(g.elt) in ('%s is sink' % g.generators[0].target.id, 'sink is %s' % g.generators[0].target.id):
            return ('ifNotRegistered', add_rule_stmts(s.body, names, False), k())
    if src == 'self._sinks.append(sink)':
        return ('appendSink', k())
    if src == 'sink.startTestRun()':
        return ('startSink', k())
    return ('other', k())


def policy_stmts(fn):
    params = [a.arg for a in fn.args.args]
    out = []
    for s in body_of(fn):
        src = ast.unparse(s)
        if isinstance(s, ast.If) and not s.orelse and ast.unparse(s.test) == "'/' in route_prefix" and len(s.body) == 1 \
                and isinstance(s.body[0], ast.Raise) and ast.unparse(s.body[0].exc).startswith('TypeError(') and params[:4] == ['self', 'sink', 'route_prefix', 'consume_route']:
            out.append(('raiseIfSlash',))
        elif src == 'self._route_code_prefixes[route_prefix] = (sink, consume_route)' and params == ['self', 'sink', 'route_prefix', 'consume_route'] \
                and [ast.unparse(d) for d in fn.args.defaults] == ['False']:
            out.append(('setPrefix',))
        elif src == 'self._test_ids[test_id] = sink' and params == ['self', 'sink', 'test_id'] and not fn.args.defaults:
            out.append(('setId',))
        else:
            out.append(OTHER)
    return out


def policy_table(cls):
    """the class-level `_policies["name"] = _method` registrations -> [(name, [PStmt])]"""
    methods = {f.name: f for f in cls.body if isinstance(f, ast.FunctionDef)}
    table = []
    for s in cls.body:
        if isinstance(s, ast.Assign) and len(s.targets) == 1 and isinstance(s.targets[0], ast.Subscript) \
                and ast.unparse(s.targets[0].value) == '_policies' and isinstance(s.targets[0].slice, ast.Constant) \
                and isinstance(s.value, ast.Name) and s.value.id in methods:
            table.append('("%s", %s)' % (s.targets[0].slice.value, lean(policy_stmts(methods[s.value.id]))))
    return '[' + ', '.join(table) + ']'


def router_init_stmts(fn):
    """`StreamResultRouter.__init__` -> [IStmt]"""
    out = []
    if [a.arg for a in fn.args.args] != ['self', 'fallback', 'do_start_stop_run'] or [ast.unparse(d) for d in fn.args.defaults] != ['None', 'True']:
        out.append(OTHER)
    for s in body_of(fn):
        src = ast.unparse(s)
        simple = {'self.fallback = fallback': ('setFallback',), 'self._route_code_prefixes = {}': ('noPrefixes',), 'self._test_ids = {}': ('noIds',),
                  'self._sinks = []': ('noSinks',), 'self._in_run = False': ('notInRun',)}
        if src in simple:
            out.append(simple[src])
        elif isinstance(s, ast.If) and not s.orelse and [ast.unparse(b) for b in s.body] == ['self._sinks.append(fallback)']:
            # whether the fallback is registered must not depend on the truth value of the sink object
            t = ast.unparse(s.test)
            if t in ('do_start_stop_run and fallback is not None', 'fallback is not None and do_start_stop_run'):
                out.append(('registerFallbackIfFlagAndPresent',))
            elif t in ('do_start_stop_run and fallback', 'fallback and do_start_stop_run'):
                out.append(('registerFallbackIfFlagAndTruthy',))
            else:
                out.append(OTHER)
        else:
            out.append(OTHER)
    return out


def router_src(tree):
    st = RouterStatus()
    fn = find(tree, 'StreamResultRouter', 'status')
    if [a.arg for a in fn.args.args] != ['self'] or fn.args.kwarg is None or fn.args.kwarg.arg != 'kwargs' or fn.args.vararg is not None:
        st.bad = True
    st.block(body_of(fn))
    add = find(tree, 'StreamResultRouter', 'add_rule')
    add_ok = [a.arg for a in add.args.args] == ['self', 'sink', 'policy', 'do_start_stop_run'] and add.args.kwarg is not None and add.args.kwarg.arg == 'policy_args'
    add_term = add_rule_stmts(body_of(add), {}) if add_ok else ('other', ('done',))
    return '''import TTV.Model.RouterSrc
/-! GENERATED by harness/pystream.py from testtools/testresult/real.py on every run - do not edit.
`StreamResultRouter`: the routing decision of `status` (symbolically executed to terms), the statement lists of
`startTestRun` / `stopTestRun`, the skeleton of `add_rule` and the registered policy methods. -/
namespace TTV.Generated.RouterSrc
open TTV.RouterSrc

def statusTarget : RExpr :=
  %s

def statusRoute : RExpr :=
  %s

def startTestRun : List CtlStmt := %s

def stopTestRun : List CtlStmt := %s

def addRule : AStmt :=
  %s

def policies : List (String × List PStmt) := %s

def init : List IStmt := %s

end TTV.Generated.RouterSrc
''' % (lean(st.out('__target__')), lean(st.out('__route__')),
       lean(ctl_stmts(find(tree, 'StreamResultRouter', 'startTestRun'), 'startTestRun')),
       lean(ctl_stmts(find(tree, 'StreamResultRouter', 'stopTestRun'), 'stopTestRun')),
       lean(add_term), policy_table(find_class(tree, 'StreamResultRouter')),
       lean(router_init_stmts(find(tree, 'StreamResultRouter', '__init__'))))


# ------------------------------------------------------------------------------------------------ C10: _StreamToTestRecord
UARGS = {'test_status': 'testStatus', 'test_tags': 'testTags', 'file_name': 'fileName', 'file_bytes': 'fileBytes',
         'mime_type': 'mimeType', 'timestamp': 'timestamp'}


class UpdateCase(Sym):
    """`_StreamToTestRecord._update_case(self, case, test_status, test_tags, file_name, file_bytes, mime_type, timestamp)`:
    the record's four fields after the call, as terms over the arguments and the record's old fields"""

    def __init__(self, rec, params):
        env = {'f:status': ('old', '.status'), 'f:ts1': ('old', '.ts1'), 'f:details': ('old', '.details'), 'f:tags': ('old', '.tags')}
        for p in params:
            if p in UARGS:
                env[p] = ('arg', '.' + UARGS[p])
        Sym.__init__(self, env)
        self.rec = rec

    def special_assign(self, s):
        t, v = s.targets[0], s.value
        if not (isinstance(t, ast.Name) and t.id == self.rec and isinstance(v, ast.Call) and isinstance(v.func, ast.Attribute)
                and isinstance(v.func.value, ast.Name) and v.func.value.id == self.rec):
            return False
        m, args, kws = v.func.attr, v.args, {k.arg: k.value for k in v.keywords}
        if m == 'set':
            field = None
            if len(args) == 2 and not kws and isinstance(args[0], ast.Constant):
                field, val = args[0].value, args[1]
            elif not args and len(kws) == 1:
                field, val = list(kws.items())[0]
            if field in ('status', 'tags'):
                self.env['f:' + field] = self.expr(val)
                return True
        if m == 'got_timestamp' and len(args) == 1 and not kws:
            self.env['f:ts1'] = self.expr(args[0])
            return True
        if m == 'got_file' and (len(args), sorted(kws)) in ((3, []), (2, ['mime_type'])):
            mime = args[2] if len(args) == 3 else kws['mime_type']
            self.env['f:details'] = ('gotFile', self.env['f:details'], self.expr(args[0]), self.expr(args[1]), self.expr(mime))
            return True
        self.bad = True
        return True

    def effect(self, s):
        if isinstance(s, ast.Return) and s.value is not None and 'out:status' not in self.env:      # one return on every path
            if not (isinstance(s.value, ast.Name) and s.value.id == self.rec):
                # `return case.set(…)`: the last update and the return in one
                if not self.special_assign(ast.Assign(targets=[ast.Name(id=self.rec, ctx=ast.Store())], value=s.value)):
                    return False
            for f in ('status', 'ts1', 'details', 'tags'):
                self.env['out:' + f] = self.env['f:' + f]
            return True
        return False


def update_case_terms(fn):
    params = [a.arg for a in fn.args.args]
    u = UpdateCase(params[1] if len(params) > 1 else 'case', params[2:])
    if params[:1] != ['self'] or sorted(params[2:]) != sorted(UARGS) or fn.args.vararg or fn.args.kwarg:
        u.bad = True
    body = body_of(fn)
    if not body or not isinstance(body[-1], ast.Return):
        u.bad = True
    u.block(body)
    return [lean(u.out('out:' + f)) for f in ('status', 'ts1', 'details', 'tags')], params


def record_status_stmts(fn, upd_params):
    """`_StreamToTestRecord.status` -> [SStmt]"""
    params = [a.arg for a in fn.args.args]
    out = []
    body = body_of(fn)
    for i, s in enumerate(body):
        # `if test_status in INTERIM_STATES: return` + rest  is  `if test_status not in INTERIM_STATES: rest`
        if ast.unparse(s) in ('if test_status in INTERIM_STATES:\n    return', 'if test_status in INTERIM_STATES:\n    return None') and body[i + 1:]:
            body = body[:i] + [ast.If(test=ast.parse('test_status not in INTERIM_STATES', mode='eval').body, body=body[i + 1:], orelse=[])]
            break
    for s in body:
        src = ast.unparse(s)
        if isinstance(s, ast.Expr) and isinstance(s.value, ast.Call) and ast.unparse(s.value.func) == 'super().status':
            out.append(('superCall',))
        elif src == 'key = self._ensure_key(test_id, route_code, timestamp)':
            out.append(('ensureKey',))
        elif src in ('if not key:\n    return', 'if key is None:\n    return'):
            out.append(('returnUnlessKey',))
        elif isinstance(s, ast.Assign) and len(s.targets) == 1 and ast.unparse(s.targets[0]) == 'self._inprogress[key]' \
                and isinstance(s.value, ast.Call) and ast.unparse(s.value.func) == 'self._update_case' and not s.value.keywords \
                and [ast.unparse(a) for a in s.value.args] == ['self._inprogress[key]'] + upd_params[2:]:
            out.append(('updateCase',))      # every argument is handed to the parameter of the same name
        elif isinstance(s, ast.If) and not s.orelse and ast.unparse(s.test) == 'test_status not in INTERIM_STATES':
            body = []
            stmts = list(s.body)
            for j, b in enumerate(stmts[:-1]):
                # `record = self._inprogress.pop(key)` `self.on_test(record)`: the popped record handed over, via a local
                if isinstance(b, ast.Assign) and len(b.targets) == 1 and isinstance(b.targets[0], ast.Name) and b.targets[0].id not in params + ['key'] \
                        and ast.unparse(b.value) == 'self._inprogress.pop(key)' and ast.unparse(stmts[j + 1]) == 'self.on_test(%s)' % b.targets[0].id:
                    stmts[j:j + 2] = [ast.parse('self.on_test(self._inprogress.pop(key))').body[0]]
                    break
            for b in stmts:
                bs = ast.unparse(b)
                body.append({'self.on_test(self._inprogress.pop(key))': ('handOverPop',),
                             'self.on_test(self._inprogress[key])': ('handOverKeep',),
                             'del self._inprogress[key]': ('delKey',), 'self._inprogress.pop(key)': ('delKey',)}.get(bs, OTHER))
            out.append(('ifFinal', body))
        else:
            out.append(OTHER)
    if params[:3] != ['self', 'test_id', 'test_status']:
        out.append(OTHER)
    return out


class Rename(ast.NodeTransformer):
    def __init__(self, mapping):
        self.mapping = mapping

    def visit_Name(self, n):
        return ast.Name(id=self.mapping.get(n.id, n.id), ctx=n.ctx)


def rename_local(node, old, new):
    """alpha-renaming of a local (the caller makes sure `new` is not otherwise in use)"""
    import copy
    return ast.fix_missing_locations(Rename({old: new}).visit(copy.deepcopy(node)))


def names_in(nodes):
    return {n.id for x in nodes for n in ast.walk(x) if isinstance(n, ast.Name)}


def ensure_key_stmts(fn):
    out = []
    if [a.arg for a in fn.args.args] != ['self', 'test_id', 'route_code', 'timestamp']:
        out.append(OTHER)
    body = body_of(fn)
    # `if test_id is not None: B; return key` [`return None`]  is  `if test_id is None: return` B `return key`
    if body and isinstance(body[0], ast.If) and not body[0].orelse and ast.unparse(body[0].test) == 'test_id is not None' and body[0].body \
            and isinstance(body[0].body[-1], ast.Return) and [ast.unparse(x) for x in body[1:]] in ([], ['return'], ['return None']):
        body = [ast.parse('if test_id is None:\n    return').body[0]] + body[0].body
    # the local that holds the key, whatever it is called
    for s in body:
        if isinstance(s, ast.Assign) and len(s.targets) == 1 and isinstance(s.targets[0], ast.Name) and ast.unparse(s.value) == '(test_id, route_code)' \
                and s.targets[0].id not in ('self', 'test_id', 'route_code', 'timestamp', 'key') and 'key' not in names_in(body):
            body = [rename_local(x, s.targets[0].id, 'key') for x in body]
            break
    for s in body:
        src = ast.unparse(s)
        out.append({'if test_id is None:\n    return': ('returnIfNoId',),
                    'if test_id is None:\n    return None': ('returnIfNoId',),
                    'key = (test_id, route_code)': ('makeKey',),
                    'if key not in self._inprogress:\n    self._inprogress[key] = _TestRecord.create(test_id, timestamp)': ('createIfAbsent',),
                    'return key': ('returnKey',)}.get(src, OTHER))
    return out


def record_stop_stmts(fn):
    out = []
    for s in body_of(fn):
        src = ast.unparse(s)
        if src == 'super().stopTestRun()':
            out.append(('superCall',))
        elif isinstance(s, ast.While) and not s.orelse and ast.unparse(s.test) == 'self._inprogress':
            b = s.body
            rec = None
            # case = self._inprogress.popitem()[1]   /   _, case = self._inprogress.popitem()
            if b and isinstance(b[0], ast.Assign) and len(b[0].targets) == 1:
                t, v = b[0].targets[0], ast.unparse(b[0].value)
                if isinstance(t, ast.Name) and v == 'self._inprogress.popitem()[1]':
                    rec = t.id
                elif isinstance(t, ast.Tuple) and len(t.elts) == 2 and all(isinstance(x, ast.Name) for x in t.elts) and t.elts[0].id != t.elts[1].id \
                        and v == 'self._inprogress.popitem()':
                    rec = t.elts[1].id
            rest = [ast.unparse(x) for x in b[1:]]
            # self.on_test(case.got_timestamp(None))   /   x = case.got_timestamp(None); self.on_test(x)
            if rec is not None and (rest == ['self.on_test(%s.got_timestamp(None))' % rec] or (
                    len(rest) == 2 and isinstance(b[1], ast.Assign) and len(b[1].targets) == 1 and isinstance(b[1].targets[0], ast.Name)
                    and rest[0] == '%s = %s.got_timestamp(None)' % (b[1].targets[0].id, rec) and rest[1] == 'self.on_test(%s)' % b[1].targets[0].id)):
                out.append(('drainPopitem',))
            else:
                out.append(OTHER)
        else:
            out.append(OTHER)
    return out


def forward_stmts(fn, method, hook):
    """wrappers that hand a call on to their `_StreamToTestRecord` (`StreamToDict`, `StreamToExtendedDecorator`) -> [FStmt]"""
    out = []
    body = body_of(fn)
    # `if test_status != "exists": B` as the last statement  is  `if test_status == "exists": return` B
    if body and isinstance(body[-1], ast.If) and not body[-1].orelse and ast.unparse(body[-1].test) == "test_status != 'exists'":
        body = body[:-1] + [ast.parse("if test_status == 'exists':\n    return").body[0]] + body[-1].body
    for s in body:
        src = ast.unparse(s)
        if src in ('super().%s(*args, **kwargs)' % method, 'super().%s()' % method):
            out.append(('superCall',))
        elif src in ("if test_status == 'exists':\n    return", "if test_status == 'exists':\n    return None"):
            out.append(('returnIfExists',))
        elif src in ('self.%s.%s(*args, **kwargs)' % (hook, method), 'self.%s.%s()' % (hook, method),
                     'self.%s.status(*args, test_id=test_id, test_status=test_status, **kwargs)' % hook):
            out.append(('hookCall',))
        elif src in ('self.decorated.%s()' % method,):
            out.append(('decoratedCall',))
        else:
            out.append(OTHER)
    return out


def handle_stmts(fn):
    """`StreamToExtendedDecorator._handle_tests` / `StreamToDict._handle_test` -> [GStmt]"""
    out = []
    p = [a.arg for a in fn.args.args]
    rec = p[1] if len(p) == 2 else '?'
    body = body_of(fn)
    if len(body) == 2 and isinstance(body[0], ast.Assign) and len(body[0].targets) == 1 and isinstance(body[0].targets[0], ast.Name) \
            and body[0].targets[0].id not in p:
        x = body[0].targets[0].id                   # a local for the intermediate value, whatever it is called
        if ast.unparse(body[0].value) == '%s.to_dict()' % rec and ast.unparse(body[1]) == 'self.on_test(%s)' % x:
            return [('onTestDict',)]
        body = [rename_local(b, x, 'case') for b in body] if x != 'case' and 'case' not in names_in(body) else body
    for s in body:
        src = ast.unparse(s)
        if src == '%s.to_test_case().run(self.decorated)' % rec:
            out += [('toTestCase',), ('runCase',)]       # the two calls chained: the same two calls
            continue
        out.append({'case = %s.to_test_case()' % rec: ('toTestCase',), 'case.run(self.decorated)': ('runCase',),
                    'self.on_test(%s.to_dict())' % rec: ('onTestDict',)}.get(src, OTHER))
    return out


def consumer_src(tree):
    terms, upd_params = update_case_terms(find(tree, '_StreamToTestRecord', '_update_case'))
    return '''import TTV.Model.ConsumerSrc
/-! GENERATED by harness/pystream.py from testtools/testresult/real.py on every run - do not edit.
`_StreamToTestRecord`: the four fields of the record after `_update_case` (symbolically executed to terms), the statement
lists of `status`, `_ensure_key`, `stopTestRun`; the forwarding wrappers `StreamToDict` and `StreamToExtendedDecorator`. -/
namespace TTV.Generated.ConsumerSrc
open TTV.ConsumerSrc

def updStatus : UExpr :=
  %s
def updTs1 : UExpr :=
  %s
def updDetails : UExpr :=
  %s
def updTags : UExpr :=
  %s

def recordStatus : List SStmt := %s
def ensureKey : List EStmt := %s
def recordStop : List DStmt := %s

def dictStatus : List FStmt := %s
def dictStart : List FStmt := %s
def dictStop : List FStmt := %s
def dictHandle : List GStmt := %s

def extStatus : List FStmt := %s
def extStart : List FStmt := %s
def extStop : List FStmt := %s
def extHandle : List GStmt := %s

end TTV.Generated.ConsumerSrc
''' % (terms[0], terms[1], terms[2], terms[3],
       lean(record_status_stmts(find(tree, '_StreamToTestRecord', 'status'), upd_params)),
       lean(ensure_key_stmts(find(tree, '_StreamToTestRecord', '_ensure_key'))),
       lean(record_stop_stmts(find(tree, '_StreamToTestRecord', 'stopTestRun'))),
       lean(forward_stmts(find(tree, 'StreamToDict', 'status'), 'status', '_hook')),
       lean(forward_stmts(find(tree, 'StreamToDict', 'startTestRun'), 'startTestRun', '_hook')),
       lean(forward_stmts(find(tree, 'StreamToDict', 'stopTestRun'), 'stopTestRun', '_hook')),
       lean(handle_stmts(find(tree, 'StreamToDict', '_handle_test'))),
       lean(forward_stmts(find(tree, 'StreamToExtendedDecorator', 'status'), 'status', 'hook')),
       lean(forward_stmts(find(tree, 'StreamToExtendedDecorator', 'startTestRun'), 'startTestRun', 'hook')),
       lean(forward_stmts(find(tree, 'StreamToExtendedDecorator', 'stopTestRun'), 'stopTestRun', 'hook')),
       lean(handle_stmts(find(tree, 'StreamToExtendedDecorator', '_handle_tests'))))


def generate_consumer(repo):
    return {'TTV/Generated/ConsumerSrc.lean': consumer_src(parse(repo))}


# ------------------------------------------------------------------------------------------------ C11: decorators
FIELDS = ['test_id', 'test_status', 'test_tags', 'runnable', 'file_name', 'file_bytes', 'eof', 'mime_type', 'route_code', 'timestamp']
LEAN_FIELD = {'test_id': 'testId', 'test_status': 'status', 'test_tags': 'tags', 'runnable': 'runnable', 'file_name': 'fileName',
              'file_bytes': 'fileBytes', 'eof': 'eof', 'mime_type': 'mime', 'route_code': 'route', 'timestamp': 'timestamp'}


class Stamp(Sym):
    """`TimestampingStreamResult.status(self, *args, **kwargs)`: the timestamp handed on.
    `kw:ts` is what kwargs holds under "timestamp" at this point (`absent` once popped)."""
    ABSENT = ('absent',)

    def __init__(self):
        Sym.__init__(self, {'kw:ts': ('kwTimestamp',)})

    def norm(self, c):
        # a datetime is never false: `timestamp or now` reads like `timestamp if timestamp is not None else now`
        return ('notNone', c[1]) if c == ('truthy', ('kwTimestamp',)) else c

    def special_assign(self, s):
        # kwargs["timestamp"] = X
        if ast.unparse(s.targets[0]) == "kwargs['timestamp']":
            self.env['kw:ts'] = self.expr(s.value)
            return True
        return False

    def atom(self, e):
        src = ast.unparse(e)
        if src in ("kwargs.pop('timestamp', None)", "kwargs.get('timestamp', None)", "kwargs.get('timestamp')"):
            v = self.env['kw:ts']
            if self.ABSENT in flat(v):
                return OTHER                         # read after it was popped: not in the language
            if src.startswith('kwargs.pop'):
                self.env['kw:ts'] = self.ABSENT
            return v
        if src in ('datetime.datetime.now(utc)', 'datetime.datetime.now(datetime.timezone.utc)'):
            return ('now',)
        return None

    def effect(self, s):
        if isinstance(s, ast.Expr) and isinstance(s.value, ast.Call) and ast.unparse(s.value.func) == 'super().status' and '__out__' not in self.env:
            c = s.value
            kws = [(k.arg, k.value) for k in c.keywords]
            if [ast.unparse(a) for a in c.args] != ['*args']:
                return False
            # super().status(*args, timestamp=<t>, **kwargs) with `timestamp` popped from kwargs before (else: passed twice)
            if [k for k, _ in kws] == ['timestamp', None] and ast.unparse(kws[1][1]) == 'kwargs' and self.env['kw:ts'] == self.ABSENT:
                self.env['__out__'] = self.expr(kws[0][1])
                return True
            # super().status(*args, **kwargs): what kwargs holds now
            if [k for k, _ in kws] == [None] and ast.unparse(kws[0][1]) == 'kwargs':
                self.env['__out__'] = OTHER if self.ABSENT in flat(self.env['kw:ts']) else self.env['kw:ts']
                return True
        return False


class QueueRoute(Sym):
    """`StreamToQueue.route_code(self, route_code)`: the route code put on the queue"""

    def __init__(self):
        Sym.__init__(self, {'route_code': ('kwRoute',)})

    def atom(self, e):
        src = ast.unparse(e)
        if src == 'self.routing_code':
            return ('code',)
        # a + "/" + b   /   "/".join((a, b))   /   f"{a}/{b}"   (both are str: the three spell the same string)
        parts = None
        if isinstance(e, ast.BinOp) and isinstance(e.op, ast.Add) and isinstance(e.left, ast.BinOp) and isinstance(e.left.op, ast.Add) \
                and isinstance(e.left.right, ast.Constant) and e.left.right.value == '/':
            parts = (e.left.left, e.right)
        elif isinstance(e, ast.Call) and ast.unparse(e.func) == "'/'.join" and len(e.args) == 1 and not e.keywords \
                and isinstance(e.args[0], (ast.Tuple, ast.List)) and len(e.args[0].elts) == 2:
            parts = tuple(e.args[0].elts)
        elif isinstance(e, ast.JoinedStr) and len(e.values) == 3 and isinstance(e.values[1], ast.Constant) and e.values[1].value == '/' \
                and all(isinstance(v, ast.FormattedValue) and v.conversion == -1 and v.format_spec is None for v in (e.values[0], e.values[2])):
            parts = (e.values[0].value, e.values[2].value)
        if parts is not None:
            return ('join', self.expr(parts[0]), self.expr(parts[1]))
        return None

    def effect(self, s):
        if isinstance(s, ast.Return) and s.value is not None and '__out__' not in self.env:
            self.env['__out__'] = self.expr(s.value)
            return True
        return False


def status_params(fn):
    """parameter names of a `status` method after self, as Lean field names (`other` for anything else) -> list, or None for *args/**kwargs"""
    if fn.args.vararg or fn.args.kwarg:
        return None
    return [('.' + LEAN_FIELD[a.arg]) if a.arg in LEAN_FIELD else '.other' for a in fn.args.args[1:]]


def queue_dict(fn):
    """the `dict(event="status", k=v, …)` (or `{"event": "status", "k": v, …}`) put on the queue by `StreamToQueue.status`
    -> [(field, QArg)] in canonical field order.  The dict and the adjusted route code may be bound to locals first."""
    body = body_of(fn)
    params = [a.arg for a in fn.args.args]
    local = {}
    for st in body[:-1]:
        if not (isinstance(st, ast.Assign) and len(st.targets) == 1 and isinstance(st.targets[0], ast.Name) and st.targets[0].id not in params
                and st.targets[0].id not in local):
            return None
        local[st.targets[0].id] = st.value
    if not body or not (isinstance(body[-1], ast.Expr) and isinstance(body[-1].value, ast.Call) and ast.unparse(body[-1].value.func) == 'self.queue.put'
                        and len(body[-1].value.args) == 1 and not body[-1].value.keywords):
        return None
    d = body[-1].value.args[0]
    if isinstance(d, ast.Name) and d.id in local:
        d = local.pop(d.id)
    if isinstance(d, ast.Call) and ast.unparse(d.func) == 'dict' and not d.args and all(k.arg for k in d.keywords):
        items = [(k.arg, k.value) for k in d.keywords]
    elif isinstance(d, ast.Dict) and all(isinstance(k, ast.Constant) and isinstance(k.value, str) for k in d.keys):
        items = [(k.value, v) for k, v in zip(d.keys, d.values)]
    else:
        return None
    kws = dict(items)
    if len(kws) != len(items) or ast.unparse(kws.pop('event', ast.Constant(value=None))) != "'status'":
        return None
    for k, v in list(kws.items()):
        if isinstance(v, ast.Name) and v.id in local and ast.unparse(local[v.id]) == 'self.route_code(route_code)':
            kws[k] = local.pop(v.id)
    if local:
        return None
    out = []
    for f in FIELDS:                         # a dict: the order of the keywords is irrelevant
        v = kws.pop(f, None)
        if v is None:
            out.append('(.%s, .missing)' % LEAN_FIELD[f])
        elif isinstance(v, ast.Name) and v.id in LEAN_FIELD:
            out.append('(.%s, .param .%s)' % (LEAN_FIELD[f], LEAN_FIELD[v.id]))
        elif ast.unparse(v) == 'self.route_code(route_code)':
            out.append('(.%s, .routed)' % LEAN_FIELD[f])
        else:
            out.append('(.%s, .other)' % LEAN_FIELD[f])
    if kws:
        out.append('(.other, .other)')
    return out


def copy_stmts(fn, method):
    out = []
    for s in body_of(fn):
        src = ast.unparse(s)
        if src in ('super().%s()' % method, 'super().%s(*args, **kwargs)' % method):
            out.append(('superCall',))
        elif src in ("_strict_map(methodcaller('%s'), self.targets)" % method, "_strict_map(methodcaller('%s', *args, **kwargs), self.targets)" % method):
            out.append(('mapTargets',))
        elif isinstance(s, ast.For) and not s.orelse and isinstance(s.target, ast.Name) and ast.unparse(s.iter) == 'self.targets' \
                and [ast.unparse(b) for b in s.body] == ['%s.%s(%s)' % (s.target.id, method, '*args, **kwargs' if method == 'status' else '')]:
            out.append(('mapTargets',))      # the plain loop `_strict_map` stands for: every target in order, the first exception ends it
        else:
            out.append(OTHER)
    if method == 'status' and not (fn.args.vararg and fn.args.kwarg and [a.arg for a in fn.args.args] == ['self']):
        out.append(OTHER)
    return out


def status_set(t):
    """a test of `test_status` against literal states -> (True, states) for `in` / `==` / `or` of those, (False, states) for
    `not in` / `!=` / `and` of those; None for anything else"""
    if isinstance(t, ast.Compare) and len(t.ops) == 1 and ast.unparse(t.left) == 'test_status':
        op, c = t.ops[0], t.comparators[0]
        if isinstance(op, (ast.In, ast.NotIn)) and isinstance(c, (ast.Tuple, ast.List, ast.Set)) \
                and all(isinstance(x, ast.Constant) and x.value in STATUS_LEAN for x in c.elts):
            return (isinstance(op, ast.In), {x.value for x in c.elts})
        if isinstance(op, (ast.Eq, ast.NotEq)) and isinstance(c, ast.Constant) and c.value in STATUS_LEAN:
            return (isinstance(op, ast.Eq), {c.value})
    if isinstance(t, ast.BoolOp):
        parts = [status_set(v) for v in t.values]
        if all(p is not None and p[0] == isinstance(t.op, ast.Or) for p in parts):
            return (isinstance(t.op, ast.Or), set().union(*[p[1] for p in parts]))
    return None


def failfast_stmts(fn):
    out = []
    body = body_of(fn)
    # `if <not an error state>: return` `self.on_error()`  is  `if <an error state>: self.on_error()`
    if len(body) == 2 and isinstance(body[0], ast.If) and not body[0].orelse and [ast.unparse(b) for b in body[0].body] in (['return'], ['return None']) \
            and (status_set(body[0].test) or (True,))[0] is False:
        body = [ast.If(test=ast.UnaryOp(op=ast.Not(), operand=body[0].test), body=body[1:], orelse=[])]
    for s in body:
        st = status_set(s.test.operand if isinstance(s.test, ast.UnaryOp) else s.test) if isinstance(s, ast.If) and not s.orelse else None
        if st is not None and isinstance(s.test, ast.UnaryOp):
            st = (not st[0], st[1]) if isinstance(s.test.op, ast.Not) else None
        if st is not None and st[0] and [ast.unparse(b) for b in s.body] == ['self.on_error()']:
            sts = sorted(st[1], key=list(STATUS_LEAN).index)
            out.append('(.ifStatusInThenOnError [%s])' % ', '.join('.' + STATUS_LEAN[x] for x in sts))
        else:
            out.append('.other')
    if [a.arg for a in fn.args.args][:3] != ['self', 'test_id', 'test_status']:
        out.append('.other')
    return '[' + ', '.join(out) + ']'


STATUS_LEAN = {'inprogress': 'inprogress', 'exists': 'exist', 'xfail': 'xfail', 'uxsuccess': 'uxsuccess', 'success': 'success',
               'fail': 'fail', 'skip': 'skip', 'unknown': 'unknown'}


def deco_src(tree):
    st = Stamp()
    fn = find(tree, 'TimestampingStreamResult', 'status')
    if not (fn.args.vararg and fn.args.kwarg and [a.arg for a in fn.args.args] == ['self']):
        st.bad = True
    st.block(body_of(fn))
    qr = QueueRoute()
    fn = find(tree, 'StreamToQueue', 'route_code')
    if [a.arg for a in fn.args.args] != ['self', 'route_code']:
        qr.bad = True
    qr.block(body_of(fn))
    orders = []
    for cls in ('StreamResult', 'StreamFailFast', '_StreamToTestRecord', 'StreamToQueue'):
        p = status_params(find(tree, cls, 'status'))
        orders.append('("%s", %s)' % (cls, '[.other]' if p is None else '[' + ', '.join(p) + ']'))
    qd = queue_dict(find(tree, 'StreamToQueue', 'status'))
    return '''import TTV.Model.DecoSrc
/-! GENERATED by harness/pystream.py from testtools/testresult/real.py on every run - do not edit.
The field-owning decorators: the timestamp `TimestampingStreamResult.status` hands on and the route code
`StreamToQueue.route_code` computes (symbolically executed to terms); the parameter order of the explicit `status`
signatures; which parameter feeds which key of the dict `StreamToQueue.status` enqueues; the statement lists of
`CopyStreamResult` and `StreamFailFast.status`. -/
namespace TTV.Generated.DecoSrc
open TTV.DecoSrc TTV.Stream

def stampTimestamp : DExpr :=
  %s

def queueRoute : DExpr :=
  %s

def statusParams : List (String × List Field) := [%s]

def queueDict : List (Field × QArg) := [%s]

def copyStart : List CStmt := %s
def copyStop : List CStmt := %s
def copyStatus : List CStmt := %s

def failFastStatus : List FFStmt := %s

def taggerInit : List TIStmt := %s

end TTV.Generated.DecoSrc
''' % (lean(st.out('__out__')), lean(qr.out('__out__')), ', '.join(orders),
       '(.other, .other)' if qd is None else ', '.join(qd),
       lean(copy_stmts(find(tree, 'CopyStreamResult', 'startTestRun'), 'startTestRun')),
       lean(copy_stmts(find(tree, 'CopyStreamResult', 'stopTestRun'), 'stopTestRun')),
       lean(copy_stmts(find(tree, 'CopyStreamResult', 'status'), 'status')),
       failfast_stmts(find(tree, 'StreamFailFast', 'status')),
       lean(tagger_init_stmts(find(tree, 'StreamTagger', '__init__'))))


def tagger_init_stmts(fn):
    """`StreamTagger.__init__` -> [TIStmt]: the configuration is a VALUE taken when the tagger is made (a frozenset snapshot of
    whatever iterable was passed), not the caller's object"""
    out = []
    if [a.arg for a in fn.args.args] != ['self', 'targets', 'add', 'discard'] or [ast.unparse(d) for d in fn.args.defaults] != ['None', 'None']:
        out.append(OTHER)
    snap = lambda name: ['self.%s = frozenset(%s or %s)' % (name, name, e) for e in ('()', 'frozenset()', 'set()', '[]')] + \
        ['self.%s = frozenset(%s) if %s else frozenset()' % (name, name, name), 'self.%s = frozenset(() if %s is None else %s)' % (name, name, name)]
    for s in body_of(fn):
        src = ast.unparse(s)
        if src == 'super().__init__(targets)':
            out.append(('superInit',))
        elif src in snap('add'):
            out.append(('snapshotAdd',))
        elif src in snap('discard'):
            out.append(('snapshotDiscard',))
        else:
            out.append(OTHER)
    return out


def generate_deco(repo):
    return {'TTV/Generated/DecoSrc.lean': deco_src(parse(repo))}


# ------------------------------------------------------------------------------------------------ C09: _convert
def status_call(s):
    """`self.status(k=v, …)` -> {k: source of v} (keyword order irrelevant), else None"""
    if isinstance(s, ast.Expr) and isinstance(s.value, ast.Call) and ast.unparse(s.value.func) == 'self.status' and not s.value.args \
            and all(k.arg for k in s.value.keywords):
        d = {k.arg: ast.unparse(k.value) for k in s.value.keywords}
        return d if len(d) == len(s.value.keywords) else None
    return None


FILE_EVENT = {'file_name': 'name', 'file_bytes': 'file_bytes', 'mime_type': 'mime_type', 'test_id': 'test_id', 'timestamp': 'now'}


def chunk_body(stmts):
    out = []
    for s in stmts:
        src = ast.unparse(s)
        if isinstance(s, ast.If) and not s.orelse and ast.unparse(s.test) == 'file_bytes is not None' and len(s.body) == 1 \
                and status_call(s.body[0]) == FILE_EVENT:
            out.append(('ifPendingEmit',))
        elif src == 'file_bytes = next_bytes':
            out.append(('setPending',))
        else:
            out.append(OTHER)
    return out


def detail_body(stmts):
    out = []
    for s in stmts:
        src = ast.unparse(s)
        if src == 'mime_type = repr(content.content_type)':
            out.append(('bindMime',))
        elif src == 'file_bytes = None':
            out.append(('initPending',))
        elif isinstance(s, ast.For) and not s.orelse and ast.unparse(s.target) == 'next_bytes' and ast.unparse(s.iter) == 'content.iter_bytes()':
            out.append(('forChunks', chunk_body(s.body)))
        elif src in ["if file_bytes is None:\n    file_bytes = %s" % e for e in ("_b('')", "b''")] \
                + ["file_bytes = %s if file_bytes is None else file_bytes" % e for e in ("_b('')", "b''")] \
                + ["file_bytes = file_bytes if file_bytes is not None else %s" % e for e in ("_b('')", "b''")]:
            out.append(('defaultEmpty',))
        elif status_call(s) == dict(FILE_EVENT, eof='True'):
            out.append(('emitLast',))
        else:
            out.append(OTHER)
    if out[:2] == [('initPending',), ('bindMime',)]:
        out[:2] = [('bindMime',), ('initPending',)]      # two pure bindings of different locals, next to each other: either order
    return out


class Inline(ast.NodeTransformer):
    def __init__(self, name, value):
        self.name, self.value = name, value

    def visit_Name(self, n):
        return self.value if n.id == self.name and isinstance(n.ctx, ast.Load) else n


def convert_pre(fn):
    """`_convert` with its locals under their canonical names and two spellings unfolded:
    - the locals are recognised by what is bound to them (`X = test.id()` is `test_id`, `X = self._now()` is `now`, the targets of
      the loop over `details.items()` are `name, content`, `X = repr(content.content_type)` is `mime_type`, the `X = None` in
      that loop is `file_bytes`, the target of the loop over `content.iter_bytes()` is `next_bytes`) and renamed - when that is
      an injective renaming onto names not otherwise in use;
    - `for name in details: content = details[name]; …` is the loop over `details.items()`;
    - `tags = self.current_tags` right before the one statement that uses `tags` is that statement with `self.current_tags`."""
    import copy
    params = [a.arg for a in fn.args.args]
    body = copy.deepcopy(body_of(fn))
    # for k in details: v = details[k]; …
    for n in [x for b in body for x in ast.walk(b)]:
        if isinstance(n, ast.For) and isinstance(n.target, ast.Name) and ast.unparse(n.iter) == 'details' and n.body \
                and isinstance(n.body[0], ast.Assign) and len(n.body[0].targets) == 1 and isinstance(n.body[0].targets[0], ast.Name) \
                and ast.unparse(n.body[0].value) == 'details[%s]' % n.target.id and n.body[0].targets[0].id != n.target.id:
            n.target = ast.Tuple(elts=[n.target, n.body[0].targets[0]], ctx=ast.Store())
            n.iter = ast.parse('details.items()', mode='eval').body
            n.body = n.body[1:] or [ast.Pass()]
    role = {}
    content = None
    for n in [x for b in body for x in ast.walk(b)]:
        if isinstance(n, ast.For) and ast.unparse(n.iter) == 'details.items()' and isinstance(n.target, ast.Tuple) and len(n.target.elts) == 2 \
                and all(isinstance(x, ast.Name) for x in n.target.elts):
            role.setdefault(n.target.elts[0].id, []).append('name')
            role.setdefault(n.target.elts[1].id, []).append('content')
            content = n.target.elts[1].id
            for m in n.body:
                if isinstance(m, ast.Assign) and len(m.targets) == 1 and isinstance(m.targets[0], ast.Name):
                    if ast.unparse(m.value) == 'repr(%s.content_type)' % content:
                        role.setdefault(m.targets[0].id, []).append('mime_type')
                    elif ast.unparse(m.value) == 'None':
                        role.setdefault(m.targets[0].id, []).append('file_bytes')
                if isinstance(m, ast.For) and isinstance(m.target, ast.Name) and ast.unparse(m.iter) == '%s.iter_bytes()' % content:
                    role.setdefault(m.target.id, []).append('next_bytes')
    for b in body:
        if isinstance(b, ast.Assign) and len(b.targets) == 1 and isinstance(b.targets[0], ast.Name):
            r = {'test.id()': 'test_id', 'self._now()': 'now'}.get(ast.unparse(b.value))
            if r:
                role.setdefault(b.targets[0].id, []).append(r)
    mapping = {k: v[0] for k, v in role.items() if len(v) == 1 and k != v[0] and k not in params}
    used = names_in(body) | set(params)
    if mapping and len(set(mapping.values())) == len(mapping) and not (set(mapping.values()) & (used - set(mapping))):
        body = [ast.fix_missing_locations(Rename(mapping).visit(b)) for b in body]
    # x = self.current_tags; <the one statement that reads x>
    for i, b in enumerate(body[:-1]):
        if isinstance(b, ast.Assign) and len(b.targets) == 1 and isinstance(b.targets[0], ast.Name) and ast.unparse(b.value) == 'self.current_tags':
            x = b.targets[0].id
            if x not in params and x not in names_in(body[:i] + body[i + 2:]) and status_call(body[i + 1]) is not None:
                body[i:i + 2] = [ast.fix_missing_locations(Inline(x, b.value).visit(body[i + 1]))]
                break
    return body


def convert_stmts(fn):
    out = []
    if [a.arg for a in fn.args.args] != ['self', 'test', 'err', 'details', 'status', 'reason']:
        out.append(OTHER)
    for s in convert_pre(fn):
        src = ast.unparse(s)
        c = status_call(s)
        if src == 'if not self._started:\n    self._implied_start()':
            out.append(('ensureStarted',))       # (`self.startTestRun()` here would wipe the time() / tags() given before: not this)
        elif src == 'test_id = test.id()':
            out.append(('bindTestId',))
        elif src == 'now = self._now()':
            out.append(('bindNow',))
        elif src == "if err is not None:\n    if details is None:\n        details = {}\n    details['traceback'] = TracebackContent(err, test)":
            out.append(('ifErrTraceback',))
        elif isinstance(s, ast.If) and not s.orelse and ast.unparse(s.test) == 'details is not None' and len(s.body) == 1 \
                and isinstance(s.body[0], ast.For) and not s.body[0].orelse and ast.unparse(s.body[0].target) == '(name, content)' \
                and ast.unparse(s.body[0].iter) == 'details.items()':
            out.append(('ifDetailsFor', detail_body(s.body[0].body)))
        elif isinstance(s, ast.If) and not s.orelse and ast.unparse(s.test) == 'reason is not None' and len(s.body) == 1 \
                and dict(status_call(s.body[0]) or {}, file_bytes='') == {'file_name': "'reason'", 'file_bytes': '', 'eof': 'True',
                                               'mime_type': "'text/plain; charset=utf8'", 'test_id': 'test_id', 'timestamp': 'now'} \
                and status_call(s.body[0]).get('file_bytes') in ("reason.encode('utf8')", "reason.encode('utf-8')"):     # one codec, two names
            out.append(('ifReasonEmit',))
        elif c == {'test_id': 'test_id', 'test_status': 'status', 'test_tags': 'self.current_tags', 'timestamp': 'now'}:
            out.append(('emitFinal',))
        else:
            out.append(OTHER)
    return out


def e2s_start_stmts(fn):
    """`ExtendedToStreamDecorator.startTestRun` -> [XStmt]"""
    out = []
    for st in body_of(fn):
        out.append({'super().startTestRun()': ('superCall',), 'self._tags = TagContext()': ('resetTags',),
                    'self.shouldStop = False': ('clearStop',), 'self.__now = None': ('resetClock',),
                    'self._started = True': ('setStarted',)}.get(ast.unparse(st), OTHER))
    # a run of assignments of fresh values to different attributes, next to each other: any order (written in the order of
    # the source as it is); where the run stands relative to `super().startTestRun()` - which calls out - is kept
    order = [('resetTags',), ('clearStop',), ('resetClock',), ('setStarted',)]
    i = 0
    while i < len(out):
        j = i
        while j < len(out) and out[j] in order:
            j += 1
        if len(set(out[i:j])) == j - i:
            out[i:j] = sorted(out[i:j], key=order.index)
        i = j + 1
    return out


def find_or_none(tree, cls, name):
    try:
        return find(tree, cls, name)
    except ValueError:
        return None


def start_test_stmts(fn):
    """`ExtendedToStreamDecorator.startTest` -> [XStmt]"""
    out = []
    for st in body_of(fn):
        out.append({'if not self._started:\n    self._implied_start()': ('ensureStarted',),
                    "self.status(test_id=test.id(), test_status='inprogress', timestamp=self._now())": ('emitInprogress',),
                    'self._tags = TagContext(self._tags)': ('pushTags',)}.get(ast.unparse(st), OTHER))
    if [a.arg for a in fn.args.args] != ['self', 'test']:
        out.append(OTHER)
    return out


def e2s_init_stmts(fn):
    """`ExtendedToStreamDecorator.__init__` -> [XStmt]: what exists before any run is started"""
    out = []
    if [a.arg for a in fn.args.args] != ['self', 'decorated']:
        out.append(OTHER)
    for st in body_of(fn):
        out.append({'super().__init__([decorated])': ('superInit',), 'TestControl.__init__(self)': ('controlInit',),
                    'self._started = False': ('clearStarted',), 'self._tags = TagContext()': ('resetTags',),
                    'self.__now = None': ('resetClock',)}.get(ast.unparse(st), OTHER))
    return out


def implied_start_stmts(fn):
    """`ExtendedToStreamDecorator._implied_start` -> [XStmt]: save tags and clock, startTestRun(), put them back"""
    if fn is None:
        return [OTHER]
    body = body_of(fn)
    out = []
    saved = None
    for st in body:
        src = ast.unparse(st)
        if isinstance(st, ast.Assign) and len(st.targets) == 1 and isinstance(st.targets[0], ast.Tuple) and len(st.targets[0].elts) == 2 \
                and all(isinstance(x, ast.Name) for x in st.targets[0].elts) and isinstance(st.value, ast.Tuple) and [ast.unparse(x) for x in st.value.elts] == ['self._tags', 'self.__now'] \
                and st.targets[0].elts[0].id != st.targets[0].elts[1].id and saved is None:
            saved = [x.id for x in st.targets[0].elts]
            out.append(('saveState',))
        elif src == 'self.startTestRun()':
            out.append(('callStartTestRun',))
        elif saved is not None and isinstance(st, ast.Assign) and len(st.targets) == 1 and isinstance(st.targets[0], ast.Tuple) \
                and [ast.unparse(x) for x in st.targets[0].elts] == ['self._tags', 'self.__now'] and isinstance(st.value, ast.Tuple) \
                and [ast.unparse(x) for x in st.value.elts] == saved:
            out.append(('restoreState',))
        else:
            out.append(OTHER)
    if [a.arg for a in fn.args.args] != ['self']:
        out.append(OTHER)
    return out


def convert_src(tree):
    return '''import TTV.Model.ConvertSrc
/-! GENERATED by harness/pystream.py from testtools/testresult/real.py on every run - do not edit.
The statement skeleton of `ExtendedToStreamDecorator._convert` (with the chunk loop and its one-chunk look-ahead) and the
statement list of `ExtendedToStreamDecorator.startTestRun` (what a new run resets). -/
namespace TTV.Generated.ConvertSrc
open TTV.ConvertSrc

def convert : List VStmt :=
  %s

def startTestRun : List XStmt := %s

def init : List XStmt := %s

def impliedStart : List XStmt := %s

def startTest : List XStmt := %s

end TTV.Generated.ConvertSrc
''' % (lean(convert_stmts(find(tree, 'ExtendedToStreamDecorator', '_convert'))),
       lean(e2s_start_stmts(find(tree, 'ExtendedToStreamDecorator', 'startTestRun'))),
       lean(e2s_init_stmts(find(tree, 'ExtendedToStreamDecorator', '__init__'))),
       lean(implied_start_stmts(find_or_none(tree, 'ExtendedToStreamDecorator', '_implied_start'))),
       lean(start_test_stmts(find(tree, 'ExtendedToStreamDecorator', 'startTest'))))


def generate_convert(repo):
    return {'TTV/Generated/ConvertSrc.lean': convert_src(parse(repo))}


class Canon(ast.NodeTransformer):
    """spellings of tests that mean the same, brought to one form before anything is matched:
    `not (a in b)` / `not a in b` -> `a not in b` (likewise `is` / `is not`, and the converse), `x == None` / `x != None` for a
    plain name x -> `x is None` / `x is not None` (the names tested in the translated functions hold str / bytes / tuple / dict /
    datetime / None - nothing that compares equal to None), `if c: pass else: B` -> `if not c: B`."""
    FLIP = {ast.In: ast.NotIn, ast.NotIn: ast.In, ast.Is: ast.IsNot, ast.IsNot: ast.Is}

    def visit_Compare(self, n):
        self.generic_visit(n)
        if len(n.ops) == 1 and isinstance(n.left, ast.Name) and isinstance(n.comparators[0], ast.Constant) and n.comparators[0].value is None \
                and isinstance(n.ops[0], (ast.Eq, ast.NotEq)):
            n.ops = [ast.Is() if isinstance(n.ops[0], ast.Eq) else ast.IsNot()]
        return n

    def visit_UnaryOp(self, n):
        self.generic_visit(n)
        if isinstance(n.op, ast.Not) and isinstance(n.operand, ast.Compare) and len(n.operand.ops) == 1 and type(n.operand.ops[0]) in self.FLIP:
            return ast.Compare(left=n.operand.left, ops=[self.FLIP[type(n.operand.ops[0])]()], comparators=n.operand.comparators)
        return n

    def visit_If(self, n):
        self.generic_visit(n)
        if n.orelse and all(isinstance(b, ast.Pass) for b in n.body):
            return ast.If(test=self.visit_UnaryOp(ast.UnaryOp(op=ast.Not(), operand=n.test)) if not isinstance(n.test, ast.UnaryOp)
                          else (n.test.operand if isinstance(n.test.op, ast.Not) else ast.UnaryOp(op=ast.Not(), operand=n.test)),
                          body=n.orelse, orelse=[])
        return n


def parse(repo):
    return ast.fix_missing_locations(Canon().visit(ast.parse(open(os.path.join(repo, 'testtools', 'testresult', 'real.py')).read())))


def generate_router(repo):
    return {'TTV/Generated/RouterSrc.lean': router_src(parse(repo))}


if __name__ == '__main__':
    import sys
    repo = sys.argv[1] if len(sys.argv) > 1 else '/repo'
    for g in (generate_router, generate_consumer, generate_deco, generate_convert):
        for k, v in g(repo).items():
            print(v)
