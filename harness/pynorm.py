"""AST normalisations shared by the source translators of C16 / C19 / C20 (pycontent2lean, pysuite2lean, pydeferred2lean).

Every rule below rewrites a function body into another one with the same behaviour *by the definition of the Python construct*; none of
them reorders effects.  They are applied before the recognisers run, so that behaviour-preserving spellings of the translated functions
produce the same Lean data (and the `Cxx_src_*` theorems keep holding), while any change of WHAT is done or IN WHICH ORDER still yields
different data or `.unknown`.

  N1  docstrings, `pass` and comments carry no behaviour: dropped.
  N2  (`if A and B: S` = `if A: if B: S` is applied by the one recogniser that needs it, `split_and`)
  N3  `set(<genexp>)` / `list(<genexp>)`             ->  set / list comprehension;   `[x for x in E]` / `list(x for x in E)`  ->  `list(E)`
  N4  `for a in G: yield a`                          ->  `yield from G`            (plain generators: nothing is sent into them)
  N5  temporaries: `x = E` directly followed by `return x` / `yield x` / `y = x(...)` / `y = x`, with `x` used nowhere else, is inlined
      (the value is produced at the same moment); an alias of an effect-free expression (names, attributes, constant subscripts, `getattr`)
      that is bound once is substituted into its uses as long as nothing in between assigns to what it reads.
  N6  `if c: A else: B` where A always returns/raises ->  `if c: A` followed by `B`;    `try: T except X: H` with every handler ending in
      return/raise, no else/finally, followed by R    ->  `try: T except X: H else: R`;  a bare `return` that ends the last statement of a
      function is dropped.
  N7  `while (x := E): B`                            ->  `while True: x = E; if not x: break; B`      (the definition of the walrus loop)
  `canon(expr)` renames comprehension / lambda variables canonically, so that recognisers compare modulo alpha-renaming.
Trusted together with the recognisers (see their docstrings).
"""
import ast, copy


def u(x):
    return ast.unparse(x)


def terminates(stmts):
    """does the block always leave the function (return / raise) at its end?"""
    if not stmts:
        return False
    s = stmts[-1]
    if isinstance(s, (ast.Return, ast.Raise)):
        return True
    if isinstance(s, ast.If) and s.orelse:
        return terminates(s.body) and terminates(s.orelse)
    return False


def is_pure(e):
    """an expression that only READS existing objects and is cheap to re-evaluate: names, attribute chains, constant subscripts,
    `getattr(...)` - nothing that creates an object (displays, calls, operators), so substituting it cannot change identities"""
    for n in ast.walk(e):
        if isinstance(n, (ast.Name, ast.Attribute, ast.Constant, ast.Load)):
            continue
        if isinstance(n, ast.Subscript) and isinstance(n.slice, ast.Constant):
            continue
        if isinstance(n, ast.Call) and isinstance(n.func, ast.Name) and n.func.id == 'getattr' and not n.keywords:
            continue
        return False
    return True


class _Subst(ast.NodeTransformer):
    def __init__(self, name, value):
        self.name, self.value, self.count = name, value, 0

    def visit_Name(self, node):
        if node.id == self.name and isinstance(node.ctx, ast.Load):
            self.count += 1
            return copy.deepcopy(self.value)
        return node


def uses(node, name):
    return sum(1 for n in ast.walk(node) if isinstance(n, ast.Name) and n.id == name)


def stores(node, name):
    return sum(1 for n in ast.walk(node) if isinstance(n, ast.Name) and n.id == name and isinstance(n.ctx, (ast.Store, ast.Del)))


class _Expr(ast.NodeTransformer):
    """N3 on expressions"""

    def visit_Call(self, node):
        self.generic_visit(node)
        if isinstance(node.func, ast.Name) and len(node.args) == 1 and not node.keywords and isinstance(node.args[0], ast.GeneratorExp):
            g = node.args[0]
            if node.func.id == 'set':
                return ast.copy_location(ast.SetComp(elt=g.elt, generators=g.generators), node)
            if node.func.id == 'list':
                return self.visit_ListComp(ast.copy_location(ast.ListComp(elt=g.elt, generators=g.generators), node))
        return node

    def visit_ListComp(self, node):
        self.generic_visit(node)
        if len(node.generators) == 1:
            g = node.generators[0]
            if not g.ifs and not g.is_async and isinstance(g.target, ast.Name) and isinstance(node.elt, ast.Name) and node.elt.id == g.target.id:
                return ast.copy_location(ast.Call(func=ast.Name(id='list', ctx=ast.Load()), args=[g.iter], keywords=[]), node)
        return node


def _block(stmts, fn_names, top):
    """normalise a statement list (recursively)"""
    out = []
    stmts = [s for s in stmts if not (isinstance(s, ast.Expr) and isinstance(s.value, ast.Constant)) and not isinstance(s, ast.Pass)]   # N1
    i = 0
    while i < len(stmts):
        s = stmts[i]
        rest = stmts[i + 1:]
        if isinstance(s, ast.If):
            s = copy.copy(s)
            s.body = _block(s.body, fn_names, False)
            s.orelse = _block(s.orelse, fn_names, False)
            # N6
            if s.orelse and terminates(s.body):
                tail = s.orelse
                s.orelse = []
                out.append(s)
                stmts = stmts[:i + 1] + tail + rest
                i += 1
                continue
            out.append(s)
            i += 1
            continue
        if isinstance(s, ast.Try):
            s = copy.copy(s)
            s.body = _block(s.body, fn_names, False)
            s.handlers = [copy.copy(h) for h in s.handlers]
            for h in s.handlers:
                h.body = _block(h.body, fn_names, False)
            s.orelse = _block(s.orelse, fn_names, False)
            s.finalbody = _block(s.finalbody, fn_names, False)
            if s.handlers and not s.orelse and not s.finalbody and rest and all(terminates(h.body) for h in s.handlers):    # N6
                s.orelse = _block(rest, fn_names, top)
                if top:
                    for h in s.handlers:
                        if isinstance(h.body[-1], ast.Return) and h.body[-1].value is None:
                            h.body = h.body[:-1]
                out.append(s)
                return out
            out.append(s)
            i += 1
            continue
        if isinstance(s, ast.While):
            s = copy.copy(s)
            if isinstance(s.test, ast.NamedExpr) and isinstance(s.test.target, ast.Name) and not s.orelse:                   # N7
                x = s.test.target.id
                s = ast.While(test=ast.Constant(value=True), orelse=[], body=[
                    ast.Assign(targets=[ast.Name(id=x, ctx=ast.Store())], value=s.test.value, lineno=0),
                    ast.If(test=ast.UnaryOp(op=ast.Not(), operand=ast.Name(id=x, ctx=ast.Load())), body=[ast.Break()], orelse=[])] + s.body)
            s.body = _block(s.body, fn_names, False)
            out.append(s)
            i += 1
            continue
        if isinstance(s, ast.For):
            s = copy.copy(s)
            s.body = _block(s.body, fn_names, False)
            if isinstance(s.target, ast.Name) and not s.orelse and len(s.body) == 1 and isinstance(s.body[0], ast.Expr) \
                    and isinstance(s.body[0].value, ast.Yield) and isinstance(s.body[0].value.value, ast.Name) \
                    and s.body[0].value.value.id == s.target.id:                                                            # N4
                out.append(ast.Expr(value=ast.YieldFrom(value=s.iter)))
            else:
                out.append(s)
            i += 1
            continue
        if isinstance(s, ast.With):
            s = copy.copy(s)
            s.body = _block(s.body, fn_names, False)
            out.append(s)
            i += 1
            continue
        if isinstance(s, ast.FunctionDef):
            s = copy.copy(s)
            s.body = _block(s.body, fn_names, True)
            out.append(s)
            i += 1
            continue
        out.append(s)
        i += 1
    return out


def _inline(stmts, whole):
    """N5 on one statement list (and recursively inside compound statements); `whole` = the function, to count uses"""
    stmts = list(stmts)
    i = 0
    while i < len(stmts):
        s = stmts[i]
        for field in ('body', 'orelse', 'finalbody'):
            if hasattr(s, field) and isinstance(getattr(s, field), list) and not isinstance(s, ast.FunctionDef):
                setattr(s, field, _inline(getattr(s, field), whole))
        if isinstance(s, ast.Try):
            for h in s.handlers:
                h.body = _inline(h.body, whole)
        if isinstance(s, ast.Assign) and len(s.targets) == 1 and isinstance(s.targets[0], ast.Name) and i + 1 < len(stmts):
            x, e, nxt = s.targets[0].id, s.value, stmts[i + 1]
            total = uses(whole, x)
            if stores(whole, x) == 1:
                # a temporary consumed at once
                direct = (isinstance(nxt, ast.Return) and isinstance(nxt.value, ast.Name) and nxt.value.id == x) \
                    or (isinstance(nxt, ast.Expr) and isinstance(nxt.value, ast.Yield) and isinstance(nxt.value.value, ast.Name) and nxt.value.value.id == x) \
                    or (isinstance(nxt, ast.Assign) and (isinstance(nxt.value, ast.Name) and nxt.value.id == x
                                                          or isinstance(nxt.value, ast.Call) and isinstance(nxt.value.func, ast.Name) and nxt.value.func.id == x
                                                          and uses(nxt.value, x) == 1))
                if direct and total == 2:
                    sub = _Subst(x, e)
                    stmts[i + 1] = ast.fix_missing_locations(sub.visit(copy.deepcopy(nxt)))
                    del stmts[i]
                    continue
                # an alias of an effect-free expression
                if is_pure(e) and not isinstance(e, (ast.Constant, ast.Name)) and total >= 2:
                    reads = {n.id for n in ast.walk(e) if isinstance(n, ast.Name)}
                    tail = stmts[i + 1:]

                    def mutates(t):      # an assignment through a subscript / attribute of something the alias reads, or a method call on it
                        for n in ast.walk(t):
                            if isinstance(n, (ast.Subscript, ast.Attribute)) and isinstance(n.ctx, (ast.Store, ast.Del)) and any(uses(n.value, r) for r in reads):
                                return True
                        return False
                    first = next((k for k, t in enumerate(tail) if mutates(t)), len(tail))
                    late_use = any(uses(t, x) for t in tail[first + 1:])
                    if not late_use and not any(stores(t, r) for t in tail for r in reads) \
                            and not any(isinstance(n, (ast.FunctionDef, ast.Lambda)) and uses(n, x) for t in tail for n in ast.walk(t)):
                        sub = _Subst(x, e)
                        stmts[i + 1:] = [ast.fix_missing_locations(sub.visit(copy.deepcopy(t))) for t in tail]
                        del stmts[i]
                        continue
        i += 1
    return stmts


def normal_body(fn):
    """the normalised statement list of a function definition"""
    fn = copy.deepcopy(fn)
    fn = _Expr().visit(fn)
    body = _block(fn.body, None, True)
    if body and isinstance(body[-1], ast.Return) and body[-1].value is None:
        body = body[:-1]
    fn.body = body
    prev = None
    while prev != u(fn):            # inline to a fixed point
        prev = u(fn)
        fn.body = _inline(fn.body, fn)
    ast.fix_missing_locations(fn)
    return fn.body


def split_and(s):
    """N2: `if A and B: S` (no else) -> `if A:` containing `if B: S`"""
    if isinstance(s, ast.If) and isinstance(s.test, ast.BoolOp) and isinstance(s.test.op, ast.And) and len(s.test.values) == 2 and not s.orelse:
        return ast.If(test=s.test.values[0], body=[ast.If(test=s.test.values[1], body=s.body, orelse=[])], orelse=[])
    return s


class _Canon(ast.NodeTransformer):
    def __init__(self):
        self.map = {}

    def _bind(self, target):
        for n in ast.walk(target):
            if isinstance(n, ast.Name):
                self.map.setdefault(n.id, 'v%d' % len(self.map))

    def visit_comprehension(self, node):
        self._bind(node.target)
        return self.generic_visit(node)

    def _comp(self, node):
        for g in node.generators:
            self._bind(g.target)
        return self.generic_visit(node)
    visit_ListComp = visit_SetComp = visit_GeneratorExp = visit_DictComp = _comp

    def visit_Lambda(self, node):
        for a in node.args.args:
            self.map.setdefault(a.arg, 'v%d' % len(self.map))
        node = self.generic_visit(node)
        for a in node.args.args:
            a.arg = self.map.get(a.arg, a.arg)
        return node

    def visit_Name(self, node):
        if node.id in self.map:
            node.id = self.map[node.id]
        return node


def canon(e):
    """source text of an expression / statement with comprehension and lambda variables renamed canonically"""
    if isinstance(e, str):
        e = ast.parse(e).body[0]
        if isinstance(e, ast.Expr):
            e = e.value
    return u(_Canon().visit(copy.deepcopy(e)))
