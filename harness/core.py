"""Framework shared by all property checks: S-expressions, the Lean driver pipe, known findings,
the decision procedure of DESIGN.md section 2.3 and the evidence writer.

A property plugs in by defining, in harness/props/<id lower>.py, a subclass of `Prop` bound to the
module-level name PROP.  Inputs and traces are *S-expression trees*: nested Python lists whose leaves
are str (atoms without whitespace or parentheses), int, bool (T/F) or None (the atom `none`).  They are
JSON-serialisable as they are, and `sx()` renders them for the Lean driver.
"""
import fcntl, hashlib, json, os, random, re, subprocess, sys, time

VERIF = os.path.dirname(os.path.dirname(os.path.abspath(__file__)))
LEAN = os.path.join(VERIF, 'lean')
DRIVER = os.path.join(LEAN, '.lake', 'build', 'bin', 'driver')
REPO = os.environ.get('VERIF_REPO', '/repo')
STD_AXIOMS = {'propext', 'Classical.choice', 'Quot.sound'}


def sx(t):
    """render an S-expression tree"""
    if t is True:
        return 'T'
    if t is False:
        return 'F'
    if t is None:
        return 'none'
    if isinstance(t, int):
        return str(t)
    if isinstance(t, str):
        assert t and not re.search(r'[\s()]', t), repr(t)
        return t
    return '(' + ' '.join(sx(x) for x in t) + ')'


def parse_sx(s):
    """parse the driver's reply back into a tree (atoms stay strings)"""
    toks = re.findall(r'\(|\)|[^\s()]+', s)
    stack = [[]]
    for tk in toks:
        if tk == '(':
            stack.append([])
        elif tk == ')':
            x = stack.pop()
            stack[-1].append(x)
        else:
            stack[-1].append(tk)
    assert len(stack) == 1 and len(stack[0]) == 1, s
    return stack[0][0]


def some(x):
    return None if x is None else ['some', x]


def chars(s):
    """text as a list of code points (for arbitrary strings)"""
    return [ord(c) for c in s]


class Prop:
    """Base class of a property plug-in."""
    id = 'C00'
    #: cases to generate per tier
    budgets = {'quick': 1000, 'thorough': 20000}
    #: what makes a case non-trivial / how cases are generated (goes into the evidence)
    rule = ''
    #: modelled-not-verified boundaries etc. (goes into the evidence)
    assumptions = []
    #: seconds after which generation stops even if the budget is not exhausted
    time_limit = {'quick': 60, 'thorough': 900}

    def extract_tables(self, repo):
        """return {path relative to lean/: text} of generated Lean table modules (tie 1)"""
        return {}

    def corpus(self):
        """inputs that always run first (minimised past failures, finding witnesses)"""
        d = os.path.join(VERIF, 'corpus', self.id)
        out = []
        if os.path.isdir(d):
            for f in sorted(os.listdir(d)):
                if f.endswith('.json'):
                    out.append(json.load(open(os.path.join(d, f)))['input'])
        return out

    def enumerate(self, tier):
        """bounded-exhaustive small scope (thorough tier); yields inputs"""
        return iter(())

    def gen(self, rng, tier):
        """one random input"""
        raise NotImplementedError

    def run_impl(self, inp):
        """run the real code on the input, return the canonical trace tree; must not raise"""
        raise NotImplementedError

    def nontrivial(self, inp, trace):
        return True

    def features(self, inp, trace):
        """strings counted into the input distribution of the evidence"""
        return []

    def shrink(self, inp):
        """yield smaller candidate inputs"""
        return iter(())


class Driver:
    """batch pipe to the Lean driver executable"""

    def __init__(self, pid):
        self.pid = pid
        self.wall = 0.0

    def ask(self, pairs):
        """pairs: [(input tree, impl trace tree)] -> [reply tree]"""
        if not pairs:
            return []
        t0 = time.time()
        lines = '\n'.join('(%s %s %s)' % (self.pid, sx(i), sx(t)) for i, t in pairs) + '\n'
        p = subprocess.run([DRIVER], input=lines, capture_output=True, text=True)
        self.wall += time.time() - t0
        out = p.stdout.splitlines()
        if p.returncode != 0 or len(out) != len(pairs):
            raise RuntimeError('driver failed: rc=%s lines=%d/%d stderr=%s' % (p.returncode, len(out), len(pairs), p.stderr[-500:]))
        return [parse_sx(l) if l.startswith('(') else l for l in out]


def known_findings(pid):
    """[(id, class, text, clauses|None)] of `finding:` lines for the property; `clauses=a,b` (optional) restricts the finding to
    failures of those spec clauses - any other clause failing on a class input is still a violation"""
    out = []
    for line in open(os.path.join(VERIF, 'KNOWN_FINDINGS.txt')):
        m = re.match(r'finding: property=(\S+) id=(\S+) class=(\S+)(?: clauses=(\S+))? :: (.*)', line.strip())
        if m and m.group(1) == pid:
            out.append((m.group(2), m.group(3), m.group(5), set(m.group(4).split(',')) if m.group(4) else None))
    return out


def build_lock():
    f = open(os.path.join(LEAN, '.build.lock'), 'w')
    fcntl.flock(f, fcntl.LOCK_EX)
    return f


def lake(*args, timeout=1800):
    p = subprocess.run(['lake'] + list(args), cwd=LEAN, capture_output=True, text=True, timeout=timeout)
    return p.returncode, p.stdout + p.stderr


def theorem_names(pid):
    """theorems declared in TTV/Props/<pid>.lean with their line numbers"""
    path = os.path.join(LEAN, 'TTV', 'Props', pid + '.lean')
    names = []
    for n, line in enumerate(open(path), 1):
        m = re.match(r'\s*(?:protected\s+|private\s+)?theorem\s+(\S+)', line)
        if m:
            names.append((m.group(1), n))
    return names


FORBIDDEN = re.compile(r'\bsorry\b|\badmit\b|^\s*axiom\s|native_decide|bv_decide|implemented_by|\bunsafe\s|maxHeartbeats 0')


def strip_comments(text):
    text = re.sub(r'/-.*?-/', lambda m: '\n' * m.group(0).count('\n'), text, flags=re.S)
    return re.sub(r'--.*', '', text)


def grep_forbidden():
    hits = []
    for root, _, files in os.walk(LEAN):
        if '.lake' in root:
            continue
        for f in files:
            if f.endswith('.lean'):
                p = os.path.join(root, f)
                for n, line in enumerate(strip_comments(open(p).read()).splitlines(), 1):
                    if FORBIDDEN.search(line):
                        hits.append('%s:%d: %s' % (os.path.relpath(p, LEAN), n, line.strip()))
    return hits


def audit(pid):
    """-> (obligations, discharged, {theorem: axioms}, problems)"""
    names = theorem_names(pid)
    ns = 'TTV.Props.' + pid
    src = 'import TTV.Props.%s\n' % pid + ''.join('#print axioms %s.%s\n' % (ns, n) for n, _ in names)
    path = os.path.join(LEAN, '.lake', 'audit_%s.lean' % pid)
    open(path, 'w').write(src)
    rc, out = lake('env', 'lean', path)
    axioms = {}
    for m in re.finditer(r"'(\S+)' depends on axioms: \[([^\]]*)\]", out):
        axioms[m.group(1)] = [a.strip() for a in m.group(2).replace('\n', ' ').split(',') if a.strip()]
    for m in re.finditer(r"'(\S+)' does not depend on any axioms", out):
        axioms[m.group(1)] = []
    problems = []
    obligations = discharged = 0
    for n, _ in names:
        full = ns + '.' + n
        is_prop = is_property_theorem(n)
        obligations += is_prop
        if full not in axioms:
            problems.append('no axiom report for ' + full)
        elif set(axioms[full]) - STD_AXIOMS:
            problems.append('%s depends on %s' % (full, sorted(set(axioms[full]) - STD_AXIOMS)))
        else:
            discharged += is_prop
    if rc != 0:
        problems.append('audit file failed to check: ' + out[-400:])
    return obligations, discharged, axioms, problems


def is_property_theorem(name):
    """obligations = the property theorems (`holds_model`, `Cxx_*`); helper lemmas in the same file are
    audited too but not counted"""
    return bool(re.match(r'(C\d+_|holds_)', name))
