"""Python -> Lean translator for `AsynchronousDeferredRunTest` (`testtools/twistedsupport/_runtest.py`, C14).

Run on every check of C14 (through `c14.extract_tables`): `_run_deferred` with its nested callbacks, `_run_cleanups`, `_run_user`,
`_log_user_exception`, `_blocking_run_deferred`, `_run_core`, `AsynchronousDeferredRunTestForBrokenTwisted._make_spinner`,
`flush_logged_errors`, `assert_fails_with` and `_ErrorObserver._setUp` are re-read from the tree under test and emitted as DATA of the types of
`TTV/Model/AsyncSkel.lean` into `TTV/Generated/AsyncSkel.lean`.  `C14_src_*` (Props/C14.lean) prove that the generated terms are the
reference terms and that their interpretation is the hand-written model.

What is recognised (anything else becomes `.unknown`, which no reference term contains, so the proofs break):
* bodies are first normalised by harness/pynorm.py; locals are found by ROLE (`fails`, the Deferreds, the nested functions - by the
  position in which they are used as callbacks, starting from the chain `_run_deferred` returns), so renaming is harmless; a nested
  `def` and a `lambda` with the same body are the same callback; `d = E; d.addCallback(f); d.addBoth(g); return d`,
  `return E.addCallback(f).addBoth(g)` and mixtures are the same chain; `addCallback` and `addBoth` are DIFFERENT links.
* `_run_deferred`: the forms of `AsyncSkel.Body`: `if self.exception_caught is <arg>` (either operand order; `==` gives
  `ifCaught false`), `fails.append(None)`, `self._exceptions.append(<arg>)`, `if <arg> is not None:`, `if getattr(self.case,
  "force_failure", None):`, a chain started by `self._run_user(self.case._run_setup | _run_test_method | _run_teardown, self.result)`,
  `self._run_user(_raise_force_fail_error)` or `self._run_cleanups()`, `return f()`; the success guard `lambda _: len(fails) == 0`
  (also `not fails`); `fails.append` used as a callback.
* `_run_cleanups` (must be `@defer.inlineCallbacks`), `_run_user`, `_log_user_exception`, `_blocking_run_deferred`, `_run_core`,
  the helpers: the statement forms listed in the model file, in source order.
Trusted: this recogniser and that the interpreters (`flatten`, `exec`, `tailC`, `coreI`) read the forms as Python / Twisted do.
"""
import ast, copy, os
from harness import pynorm
from harness.pynorm import canon
from harness.pyspinner2lean import find, body_of, params, calls_on, lean_list, with_locals_renamed, U

STAGES = {'self.case._run_setup': '.setUp', 'self.case._run_test_method': '.test', 'self.case._run_teardown': '.tearDown'}

# which role the callbacks of a function of a given role have, by position
POSITIONS = {'main': ['.setUpDone', '.forceFailure', '.successGuard'], '.setUpDone': ['.failIfCaught', '.tearDown'],
             '.tearDown': ['.failIfCaught', '.cleanUp'], '.cleanUp': ['.cleanUpDone'], '.forceFailure': ['.appendToFails']}
CALL_ROLE = {'.setUpDone': '.cleanUp'}            # `return clean_up()` inside set_up_done


def peel(e):
    """`E.addCallback(f).addBoth(g)` -> (E, [(addCallback, call), (addBoth, call)]): only the Deferred's chaining methods are peeled"""
    out = []
    while isinstance(e, ast.Call) and isinstance(e.func, ast.Attribute) and e.func.attr in ('addCallback', 'addBoth', 'addErrback', 'addCallbacks'):
        out.append((e.func.attr, e))
        e = e.func.value
    return e, out[::-1]


class Chain:
    def __init__(self, fn):
        self.defs = {}
        self.fails = None
        self.role = {}          # def name -> role
        self.bodies = {}        # role -> Lean Body
        self.fn = fn

    def start(self, e):
        if isinstance(e, ast.Call) and U(e.func) == 'self._run_user' and not e.keywords:
            a = [U(x) for x in e.args]
            if len(a) == 2 and a[0] in STAGES and a[1] == 'self.result':
                return '(.runUser %s)' % STAGES[a[0]]
            if a == ['_raise_force_fail_error']:
                return '(.runUser .forceFail)'
        if U(e) == 'self._run_cleanups()':
            return '.runCleanups'
        return None

    def fnref(self, e, want):
        """a callable used as a callback, expected to have role `want`"""
        if self.fails and U(e) == '%s.append' % self.fails:
            return '.appendToFails'
        if isinstance(e, ast.Lambda) or (isinstance(e, ast.Name) and e.id in self.defs):
            if isinstance(e, ast.Lambda):
                ps, b, name = [a.arg for a in e.args.args], [ast.Return(value=e.body)], None
            else:
                d = self.defs[e.id]
                ps, b, name = [a.arg for a in d.args.args], body_of(d), e.id
            if len(ps) == 1 and len(b) == 1 and isinstance(b[0], ast.Return) and self.fails and \
                    U(b[0].value) in ('len(%s) == 0' % self.fails, 'not %s' % self.fails, '%s == []' % self.fails):
                if name is not None:
                    self.role.setdefault(name, '.successGuard')
                return '.successGuard'
            if want is None or want in ('.successGuard', '.appendToFails'):
                return '.unknown'
            if name is not None:
                if self.role.get(name, want) != want:
                    return '.unknown'
                if name in self.role:
                    return want
                self.role[name] = want
            elif want in self.bodies:
                return '.unknown'
            self.bodies[want] = '.unknown'                 # (placeholder against cycles)
            self.bodies[want] = self.body(ps, b, want)
            return want
        return '.unknown'

    def chain(self, stmts, role):
        """`d = START; d.addX(f); …; return d` / `return START.addX(f)…` -> Lean Body.chain, or None"""
        d = None
        start = None
        links = []
        for i, s in enumerate(stmts):
            last = i == len(stmts) - 1
            if isinstance(s, ast.Assign) and len(s.targets) == 1 and isinstance(s.targets[0], ast.Name) and d is None:
                base, cs = peel(s.value)
                st = self.start(base)
                if st is None:
                    return None
                d, start = s.targets[0].id, st
                links += cs
                continue
            if isinstance(s, ast.Expr) and d is not None:
                base, cs = peel(s.value)
                if isinstance(base, ast.Name) and base.id == d and cs:
                    links += cs
                    continue
                return None
            if isinstance(s, ast.Return) and last and s.value is not None:
                base, cs = peel(s.value)
                if d is not None and isinstance(base, ast.Name) and base.id == d:
                    links += cs
                    break
                if d is None and self.start(base) is not None:
                    start = self.start(base)
                    links += cs
                    break
            return None
        else:
            return None
        out = []
        pos = POSITIONS.get(role, [])
        for k, (name, c) in enumerate(links):
            want = pos[k] if k < len(pos) else None
            if name in ('addCallback', 'addBoth') and len(c.args) == 1 and not c.keywords:
                out.append('(%s %s)' % ('.cb' if name == 'addCallback' else '.both', self.fnref(c.args[0], want)))
            else:
                out.append('(.cb .unknown)')
        return '(.chain %s %s)' % (start, lean_list(out))

    def body(self, ps, stmts, role):
        arg = ps[0] if ps else None

        def go(ss):
            # nested definitions are callbacks of this function's chains
            for x in ss:
                if isinstance(x, ast.FunctionDef):
                    self.defs[x.name] = x
            ss = [x for x in ss if not isinstance(x, ast.FunctionDef)]
            if not ss:
                return '.retNone'
            s, rest = ss[0], ss[1:]
            t = U(s)
            if isinstance(s, ast.If) and arg and isinstance(s.test, ast.Compare) and len(s.test.ops) == 1 \
                    and {U(s.test.left), U(s.test.comparators[0])} == {'self.exception_caught', arg} \
                    and isinstance(s.test.ops[0], (ast.Is, ast.Eq)):
                ident = 'true' if isinstance(s.test.ops[0], ast.Is) else 'false'
                # (pynorm has flattened `else` after a returning branch; a non-returning `then` continues with the rest, too)
                then = list(s.body) + ([] if pynorm.terminates(s.body) else rest)
                other = list(s.orelse) + rest if s.orelse else rest
                return '(.ifCaught %s %s %s)' % (ident, go(then), go(other))
            if self.fails and t == '%s.append(None)' % self.fails:
                return '(.appendFail %s)' % go(rest)
            if arg and t == 'self._exceptions.append(%s)' % arg:
                return '(.recordException %s)' % go(rest)
            if isinstance(s, ast.If) and arg and not s.orelse and not rest and U(s.test) in ('%s is not None' % arg, 'not %s is None' % arg):
                return '(.ifNotNone %s)' % go(s.body)
            if isinstance(s, ast.If) and not s.orelse and not rest and U(s.test) in ("getattr(self.case, 'force_failure', None)",):
                return '(.ifForce %s)' % go(s.body)
            if isinstance(s, ast.Return) and not rest and isinstance(s.value, ast.Call) and isinstance(s.value.func, ast.Name) \
                    and s.value.func.id in self.defs and not s.value.args and not s.value.keywords:
                return '(.call %s)' % self.fnref(s.value.func, CALL_ROLE.get(role))
            if isinstance(s, ast.Return) and not rest and (s.value is None or U(s.value) == 'None'):
                return '.retNone'
            c = self.chain(ss, role)
            if c is not None:
                return c
            return '.unknown'
        return go(stmts)

    def run(self):
        stmts = body_of(self.fn)
        rest = []
        for s in stmts:
            if isinstance(s, ast.FunctionDef):
                self.defs[s.name] = s
            elif isinstance(s, ast.Assign) and len(s.targets) == 1 and isinstance(s.targets[0], ast.Name) and isinstance(s.value, ast.Lambda):
                self.defs[s.targets[0].id] = ast.FunctionDef(name=s.targets[0].id, args=s.value.args, body=[ast.Return(value=s.value.body)],
                                                             decorator_list=[], lineno=0, col_offset=0)
            elif isinstance(s, ast.Assign) and len(s.targets) == 1 and isinstance(s.targets[0], ast.Name) and U(s.value) == '[]' \
                    and self.fails is None and not rest:
                self.fails = s.targets[0].id
            else:
                rest.append(s)
        main = self.chain(rest, 'main') or '.unknown'
        # every nested function must have been reached (dead code is not part of the chain, but an unused def is suspicious: report it)
        unused = [n for n in self.defs if n not in self.role]
        roles = ['.failIfCaught', '.setUpDone', '.tearDown', '.cleanUp', '.cleanUpDone', '.forceFailure']
        fields = ['failIfCaught', 'setUpDone', 'tearDown', 'cleanUp', 'cleanUpDone', 'forceFailure']
        parts = ['%s := %s' % (f, self.bodies.get(r, '.unknown')) for f, r in zip(fields, roles)]
        if unused:
            main = '.unknown'
        return '{ ' + ',\n      '.join(parts + ['main := %s' % main]) + ' }'


# ---------------------------------------------------------------- _run_cleanups
def run_cleanups(fn):
    out = []
    last = None
    stmts = body_of(fn)
    for s in stmts:
        if isinstance(s, ast.Assign) and len(s.targets) == 1 and isinstance(s.targets[0], ast.Name) and U(s.value) == 'None' and last is None:
            last = s.targets[0].id
            out.append('.initLast')
        elif isinstance(s, ast.While) and U(s.test) == 'self.case._cleanups' and not s.orelse and last:
            out.append('.whileStackPop')
            b = s.body
            ok = b and isinstance(b[0], ast.Assign) and len(b[0].targets) == 1 and isinstance(b[0].targets[0], ast.Tuple) \
                and len(b[0].targets[0].elts) == 3 and all(isinstance(e, ast.Name) for e in b[0].targets[0].elts) \
                and U(b[0].value) == 'self.case._cleanups.pop()'
            if not ok:
                out[-1] = '.unknown'
                continue
            f, a, kw = [e.id for e in b[0].targets[0].elts]
            d = done = outcome = None
            i = 1
            while i < len(b):
                x = b[i]
                t = U(x)
                if isinstance(x, ast.Assign) and len(x.targets) == 1 and isinstance(x.targets[0], ast.Name) \
                        and canon(x.value) == canon('defer.maybeDeferred(lambda: %s(*%s, **%s))' % (f, a, kw)) and d is None:
                    d = x.targets[0].id
                    out.append('.callThroughThunk')
                elif isinstance(x, ast.Assign) and len(x.targets) == 1 and isinstance(x.targets[0], ast.Name) and U(x.value) == 'defer.Deferred()' \
                        and d and done is None and i + 2 < len(b) + 1:
                    done = x.targets[0].id
                    nxt = b[i + 1] if i + 1 < len(b) else None
                    nx2 = b[i + 2] if i + 2 < len(b) else None
                    ok = nxt is not None and canon(nxt) == canon('%s.addBoth(lambda o: %s.callback((o,)))' % (d, done)) \
                        and isinstance(nx2, ast.Assign) and len(nx2.targets) == 1 and isinstance(nx2.targets[0], ast.Tuple) \
                        and len(nx2.targets[0].elts) == 1 and isinstance(nx2.targets[0].elts[0], ast.Name) and U(nx2.value) in ('yield %s' % done, '(yield %s)' % done)
                    if ok:
                        outcome = nx2.targets[0].elts[0].id
                        out.append('.waitOnOwnDeferred')
                        i += 2
                    else:
                        out.append('.unknown')
                elif isinstance(x, ast.If) and outcome and not x.orelse and U(x.test) == 'isinstance(%s, Failure)' % outcome:
                    got = with_locals_renamed(x.body)
                    want1 = ['L0 = (%s.type, %s.value, %s.getTracebackObject())' % (outcome, outcome, outcome), 'self.case._report_traceback(L0)',
                             'L1 = %s.value' % outcome]
                    want2 = ['self.case._report_traceback((%s.type, %s.value, %s.getTracebackObject()))' % (outcome, outcome, outcome),
                             'L0 = %s.value' % outcome]
                    assigns_last = isinstance(x.body[-1], ast.Assign) and U(x.body[-1].targets[0]) == last
                    out.append('.ifFailureReportAndRemember' if got in (want1, want2) and assigns_last else '.unknown')
                else:
                    out.append('.unknown')
                i += 1
        elif last and U(s) == 'return %s' % last:
            out.append('.returnLast')
        else:
            out.append('.unknown')
    return lean_list(out)


def run_user(fn):
    ps = params(fn)
    if len(ps) != 2 or fn.args.vararg is None or fn.args.kwarg is None:
        return '[.unknown]'
    f, va, kw = ps[1], fn.args.vararg.arg, fn.args.kwarg.arg
    out = []
    d = res = None
    for s in body_of(fn):
        t = U(s)
        if isinstance(s, ast.Assign) and len(s.targets) == 1 and isinstance(s.targets[0], ast.Name):
            n = s.targets[0].id
            if canon(s.value) == canon('defer.maybeDeferred(lambda: %s(*%s, **%s))' % (f, va, kw)) and d is None:
                d = n
                out.append('.callThroughThunk')
                continue
            if U(s.value) == 'defer.Deferred()' and d and res is None:
                res = n
                continue
        if d and res and t == '%s.addBoth(%s.callback)' % (d, res):
            out.append('.chainIntoOwnDeferred')
            continue
        if res and t == 'return %s.addErrback(self._got_user_failure)' % res:
            out.append('.returnWithErrback')
            continue
        out.append('.unknown')
    return lean_list(out)


def log_user_exception(fn):
    ps = params(fn)
    b = body_of(fn)
    if len(ps) == 2 and len(b) == 1 and U(b[0]) == 'try:\n    raise %s\nexcept %s.__class__:\n    self._got_user_exception(sys.exc_info())' % (ps[1], ps[1]):
        return '.raisesAndReportsExcInfo'
    return '.unknown'


def blocking(fn):
    ps = params(fn)
    b = body_of(fn)
    bad = '{ trapsSpinnerRun := false, onNoResult := [.unknown], onTimeout := [.unknown] }'
    if len(ps) != 2 or len(b) != 1 or not isinstance(b[0], ast.Try) or b[0].orelse or b[0].finalbody:
        return bad
    sp = ps[1]
    t = b[0]
    traps = [U(x) for x in t.body] == ['return trap_unhandled_errors(%s.run, self._timeout, self._run_deferred)' % sp]

    def steps(body):
        out = []
        for s in body:
            u = U(s)
            out.append({'self._got_user_exception(sys.exc_info())': '.gotUserException', 'self.result.stop()': '.resultStop',
                        'self._log_user_exception(TimeoutError(self.case, self._timeout))': '.logTimeout',
                        'return (False, [])': '.returnUnsuccessful'}.get(u, '.unknown'))
        return lean_list(out)
    hs = {U(h.type) if h.type is not None else None: h for h in t.handlers}
    if set(hs) != {'NoResultError', 'TimeoutError'} or any(h.name for h in t.handlers):
        return bad
    return '{ trapsSpinnerRun := %s, onNoResult := %s, onTimeout := %s }' % ('true' if traps else 'false', steps(hs['NoResultError'].body), steps(hs['TimeoutError'].body))


def run_core(fn):
    out = []
    st = {'spinner': None, 'succ': None, 'unh': None, 'fix': None}

    def go(stmts):
        i = 0
        while i < len(stmts):
            s = stmts[i]
            t = U(s)
            nxt = stmts[i + 1] if i + 1 < len(stmts) else None
            if t == 'self.case.reactor = self._reactor':
                out.append('.setCaseReactor')
            elif isinstance(s, ast.Assign) and len(s.targets) == 1 and isinstance(s.targets[0], ast.Name) and U(s.value) == 'self._make_spinner()':
                st['spinner'] = s.targets[0].id
                out.append('.makeSpinner')
            elif isinstance(s, ast.With) and len(s.items) == 1 and U(s.items[0].context_expr) == 'self._get_log_fixture()' \
                    and isinstance(s.items[0].optional_vars, ast.Name):
                cap = s.items[0].optional_vars.id
                out.append('.enterLogFixture')
                b = s.body
                if b and isinstance(b[0], ast.For) and with_locals_renamed([b[0]]) == ['for L0, L1 in %s.getDetails().items():\n    self.case.addDetail(L0, L1)' % cap]:
                    out.append('.addLogDetails')
                    b = b[1:]
                go(b)
                out.append('.leaveLogFixture')
            elif isinstance(s, ast.With) and len(s.items) == 1 and U(s.items[0].context_expr) == '_ErrorObserver(_log_observer)' \
                    and isinstance(s.items[0].optional_vars, ast.Name) and st['spinner'] and len(s.body) == 1 \
                    and isinstance(s.body[0], ast.Assign) and len(s.body[0].targets) == 1 and isinstance(s.body[0].targets[0], ast.Tuple) \
                    and len(s.body[0].targets[0].elts) == 2 and U(s.body[0].value) == 'self._blocking_run_deferred(%s)' % st['spinner']:
                st['fix'] = s.items[0].optional_vars.id
                st['succ'], st['unh'] = [U(e) for e in s.body[0].targets[0].elts]
                out.append('.blockingRunUnderErrorObserver')
            elif isinstance(s, ast.For) and st['fix'] and isinstance(s.target, ast.Name) and U(s.iter) == '%s.flush_logged_errors()' % st['fix'] \
                    and sorted(U(x) for x in s.body) == sorted(['%s = False' % st['succ'], "self._got_user_failure(%s, tb_label='logged-error')" % s.target.id]):
                out.append('.loggedErrors')
            elif isinstance(s, ast.If) and st['unh'] and U(s.test) == st['unh'] and not s.orelse:
                b = s.body
                ok = len(b) == 2 and U(b[0]) == '%s = False' % st['succ'] and isinstance(b[1], ast.For) and isinstance(b[1].target, ast.Name) \
                    and U(b[1].iter) == st['unh']
                if ok:
                    x = b[1].target.id
                    got = with_locals_renamed(b[1].body)
                    want = ['L0 = %s.failResult' % x, 'L1 = %s._getDebugTracebacks()' % x,
                            "if L1:\n    self.case.addDetail('unhandled-error-in-deferred-debug', text_content(L1))",
                            "self._got_user_failure(L0, 'unhandled-error-in-deferred')"]
                    want2 = ['L0 = %s._getDebugTracebacks()' % x,
                             "if L0:\n    self.case.addDetail('unhandled-error-in-deferred-debug', text_content(L0))",
                             "self._got_user_failure(%s.failResult, 'unhandled-error-in-deferred')" % x]
                    ok = got in (want, want2)
                out.append('.unhandledErrors' if ok else '.unknown')
            elif isinstance(s, ast.Assign) and len(s.targets) == 1 and isinstance(s.targets[0], ast.Name) and st['spinner'] \
                    and U(s.value) == '%s.clear_junk()' % st['spinner'] and nxt is not None \
                    and U(nxt) == 'if %s:\n    %s = False\n    self._log_user_exception(UncleanReactorError(%s))' % (s.targets[0].id, st['succ'], s.targets[0].id):
                out.append('.junk')
                i += 1
            elif st['succ'] and t == 'if %s:\n    self.result.addSuccess(self.case, details=self.case.getDetails())' % st['succ']:
                out.append('.addSuccessIfSuccessful')
            else:
                out.append('.unknown')
            i += 1
    go(body_of(fn))
    return lean_list(out)


def broken_iterations(cls):
    m = [f for f in cls.body if isinstance(f, ast.FunctionDef) and f.name == '_make_spinner']
    if len(m) != 1:
        return 999999
    got = with_locals_renamed(body_of(m[0]))
    if len(got) == 3 and got[0] == 'L0 = super()._make_spinner()' and got[2] == 'return L0' and got[1].startswith('L0._OBLIGATORY_REACTOR_ITERATIONS = '):
        v = got[1].split('= ')[1]
        if v.isdigit():
            return int(v)
    return 999999


def flush_shape(fn):
    b = body_of(fn)
    ok = fn.args.vararg is not None and not fn.args.args and len(b) == 1 and U(b[0]) == 'return _log_observer.flushErrors(*%s)' % fn.args.vararg.arg
    return '.flushesGlobalObserver' if ok else '.unknown'


def assert_fails_shape(fn):
    """`d.addCallbacks(S, F)`: S always raises the failure exception; F returns `failure.value` if `failure.check(*exc_types)` else raises it"""
    ps = params(fn)
    if len(ps) != 1 or fn.args.vararg is None:
        return '.unknown'
    d, types = ps[0], fn.args.vararg.arg
    stmts = body_of(fn)
    defs = {s.name: s for s in stmts if isinstance(s, ast.FunctionDef)}
    ret = [s for s in stmts if isinstance(s, ast.Return)]
    if len(ret) != 1 or stmts[-1] is not ret[0] or not isinstance(ret[0].value, ast.Call) or U(ret[0].value.func) != '%s.addCallbacks' % d \
            or len(ret[0].value.args) != 2 or ret[0].value.keywords:
        return '.unknown'
    s_, f_ = ret[0].value.args
    if not (isinstance(s_, ast.Name) and s_.id in defs and isinstance(f_, ast.Name) and f_.id in defs):
        return '.unknown'
    sb, fb = body_of(defs[s_.id]), body_of(defs[f_.id])
    fp = [a.arg for a in defs[f_.id].args.args]
    ok = len(sb) == 1 and isinstance(sb[0], ast.Raise) and isinstance(sb[0].exc, ast.Call) and U(sb[0].exc.func) == 'failureException' \
        and len(fp) == 1 and len(fb) == 2 and U(fb[0]) == 'if %s.check(*%s):\n    return %s.value' % (fp[0], types, fp[0]) \
        and isinstance(fb[1], ast.Raise) and isinstance(fb[1].exc, ast.Call) and U(fb[1].exc.func) == 'failureException'
    return '.successRaisesFailureTrapsGiven' if ok else '.unknown'


def generate(repo):
    tree = ast.parse(open(os.path.join(repo, 'testtools', 'twistedsupport', '_runtest.py')).read())
    a = find(tree, 'AsynchronousDeferredRunTest')
    rc = find(a, '_run_cleanups')
    return '''import TTV.Model.AsyncSkel
/-! GENERATED by harness/pyasync2lean.py from testtools/twistedsupport/_runtest.py on every run - do not edit.
The callback chain of `AsynchronousDeferredRunTest._run_deferred`, `_run_cleanups`, `_run_user`, `_log_user_exception`,
`_blocking_run_deferred`, `_run_core`, the broken-Twisted iterations and two helpers, as data. -/
namespace TTV.Generated.AsyncSkel
open TTV.AsyncSkel

def runDeferred : Src :=
    %s

def runCleanups : List CleanupsStep := %s
/-- `_run_cleanups` is decorated with `@defer.inlineCallbacks` (and nothing else) -/
def runCleanupsIsInlineCallbacks : Bool := %s

def runUser : List RunUserStep := %s
def logUserException : LogUserShape := %s

def blocking : BlockingSrc :=
    %s
def runCore : List CoreStep := %s

/-- `spinner._OBLIGATORY_REACTOR_ITERATIONS` as set by `AsynchronousDeferredRunTestForBrokenTwisted._make_spinner` -/
def brokenIterations : Nat := %s

def flushLoggedErrors : FlushShape := %s
def assertFailsWith : AssertFailsShape := %s
def errorObserverSetUp : ObserverShape := %s

end TTV.Generated.AsyncSkel
''' % (Chain(find(a, '_run_deferred')).run(), run_cleanups(rc),
       'true' if [U(d) for d in rc.decorator_list] == ['defer.inlineCallbacks'] else 'false',
       run_user(find(a, '_run_user')), log_user_exception(find(a, '_log_user_exception')), blocking(find(a, '_blocking_run_deferred')),
       run_core(find(a, '_run_core')), broken_iterations(find(tree, 'AsynchronousDeferredRunTestForBrokenTwisted')),
       flush_shape(find(tree, 'flush_logged_errors')), assert_fails_shape(find(tree, 'assert_fails_with')),
       '.installedThroughLegacyWrapper' if [U(x) for x in body_of(find(tree, '_ErrorObserver._setUp'))] ==
       ['self.useFixture(_TwistedLogObservers([self._error_observer.gotEvent]))'] else '.unknown')


if __name__ == '__main__':
    import sys
    print(generate(sys.argv[1] if len(sys.argv) > 1 else '/repo'))
