"""pyres2lean - translator ties for C04 / C05 / C08 (DESIGN D.2a item 2e).

Re-reads, on every run, the functions of testtools/testresult/real.py, testtools/run.py, testtools/testcase.py and
testtools/runtest.py that the models of C04 (verdict / stop control), C08 (adapter fallback rules) and C05 (detail naming)
transcribe, and emits them into TTV/Generated/{ResCtlSrc,EtodSrc,DetailSrc}.lean in two forms:

* a *canonical skeleton* per function (`List String`, one entry per statement line, nesting by indentation): docstrings,
  comments and layout are gone (ast), parameters and locals are renamed by order of first appearance (`a0, a1 ..`, `v0, v1 ..`),
  `== None` / `!= None` read `is None` / `is not None`, a list comprehension directly inside `tuple() / list() / any() / all()`
  reads as the generator expression, `pass` is dropped.  Theorems `Cxx_src_shape_*` prove (by `decide`) that the skeleton in the
  source IS the one the model was written against - an edit that is more than such a rewrite changes the term;
* *tables* for the parts whose meaning the Lean side interprets: which bookkeeping list every `TestResult.add*` appends to and
  whether / where it tests `failfast`; the counters `wasSuccessful` reads; what `startTestRun` saves, resets and restores; the
  substitution each `ExtendedToOriginalDecorator.add*` makes when the target lacks the method and how it converts details; the
  parameters of the three unique-name loops.  Whatever a recogniser does not understand becomes an entry starting with `?`,
  which no reference table contains.
"""
import ast, os


class Unsupported(Exception):
    pass


# ----------------------------------------------------------------------------------------------------------------- canonical form
class _Rename(ast.NodeTransformer):
    def __init__(self, fn):
        self.map = {}
        n = 0
        args = fn.args
        allargs = args.posonlyargs + args.args + ([args.vararg] if args.vararg else []) + args.kwonlyargs + ([args.kwarg] if args.kwarg else [])
        for a in allargs:
            if a.arg != 'self':
                self.map[a.arg] = 'a%d' % n
                n += 1
        self.nloc = 0

    def _local(self, name):
        if name not in self.map:
            self.map[name] = 'v%d' % self.nloc
            self.nloc += 1
        return self.map[name]

    def visit_arg(self, node):
        if node.arg in self.map:
            node.arg = self.map[node.arg]
        return node

    def visit_Name(self, node):
        if isinstance(node.ctx, (ast.Store, ast.Del)):
            node.id = self._local(node.id)
        elif node.id in self.map:
            node.id = self.map[node.id]
        return node

    def visit_keyword(self, node):
        self.generic_visit(node)
        return node

    def visit_Compare(self, node):
        self.generic_visit(node)
        if len(node.ops) == 1 and isinstance(node.comparators[0], ast.Constant) and node.comparators[0].value is None:
            if isinstance(node.ops[0], ast.Eq):
                node.ops = [ast.Is()]
            elif isinstance(node.ops[0], ast.NotEq):
                node.ops = [ast.IsNot()]
        return node

    def visit_Call(self, node):
        self.generic_visit(node)
        if isinstance(node.func, ast.Name) and node.func.id in ('tuple', 'list', 'any', 'all') and len(node.args) == 1 \
                and isinstance(node.args[0], ast.ListComp) and not node.keywords:
            lc = node.args[0]
            node.args = [ast.GeneratorExp(elt=lc.elt, generators=lc.generators)]
        return node

    def _comp(self, node):
        node.generators = [self.visit(g) for g in node.generators]      # (targets are bound before the element is read)
        if isinstance(node, ast.DictComp):
            node.key, node.value = self.visit(node.key), self.visit(node.value)
        else:
            node.elt = self.visit(node.elt)
        return node
    visit_GeneratorExp = visit_ListComp = visit_SetComp = visit_DictComp = _comp

    def visit_comprehension(self, node):
        node.iter = self.visit(node.iter)
        node.target = self.visit(node.target)
        node.ifs = [self.visit(i) for i in node.ifs]
        return node

    def visit_ExceptHandler(self, node):
        if node.name:
            node.name = self._local(node.name)
        self.generic_visit(node)
        return node


def _strip(body):
    out = list(body)
    if out and isinstance(out[0], ast.Expr) and isinstance(out[0].value, ast.Constant) and isinstance(out[0].value.value, str):
        out = out[1:]
    return [s for s in out if not isinstance(s, ast.Pass)]


def _lines(stmts, ind):
    pre = '  ' * ind
    out = []
    for s in _strip(stmts):
        if isinstance(s, ast.If):
            out.append(pre + 'if ' + ast.unparse(s.test) + ':')
            out += _lines(s.body, ind + 1)
            if s.orelse:
                out.append(pre + 'else:')
                out += _lines(s.orelse, ind + 1)
        elif isinstance(s, ast.While):
            out.append(pre + 'while ' + ast.unparse(s.test) + ':')
            out += _lines(s.body, ind + 1)
            if s.orelse:
                raise Unsupported('while/else')
        elif isinstance(s, ast.For):
            out.append(pre + 'for ' + ast.unparse(s.target) + ' in ' + ast.unparse(s.iter) + ':')
            out += _lines(s.body, ind + 1)
            if s.orelse:
                raise Unsupported('for/else')
        elif isinstance(s, ast.Try):
            out.append(pre + 'try:')
            out += _lines(s.body, ind + 1)
            for h in s.handlers:
                out.append(pre + 'except' + (' ' + ast.unparse(h.type) if h.type else '') + (' as ' + h.name if h.name else '') + ':')
                out += _lines(h.body, ind + 1)
            if s.orelse:
                out.append(pre + 'else:')
                out += _lines(s.orelse, ind + 1)
            if s.finalbody:
                out.append(pre + 'finally:')
                out += _lines(s.finalbody, ind + 1)
        elif isinstance(s, (ast.Expr, ast.Assign, ast.AugAssign, ast.Return, ast.Raise, ast.Delete, ast.Break, ast.Continue, ast.AnnAssign)):
            out.append(pre + ast.unparse(s))
        else:
            raise Unsupported(type(s).__name__)
    return out


_PURE_CALLS = {'getattr', 'hasattr', 'len', 'isinstance', 'bool', 'any', 'all', 'tuple', 'set', 'str'}


def _pure_helper(f, method=True):
    """a method `def m(self, p…): return <expr>` whose expression has no effect (attribute reads, operators, comprehensions, a few
    builtins): returns (parameter names, expression) or None"""
    a = f.args
    if f.decorator_list or a.vararg or a.kwarg or a.kwonlyargs or a.defaults or a.posonlyargs or (method and (not a.args or a.args[0].arg != 'self')):
        return None
    body = _strip(f.body)
    if len(body) != 1 or not isinstance(body[0], ast.Return) or body[0].value is None:
        return None
    for n in ast.walk(body[0].value):
        if isinstance(n, (ast.Await, ast.Yield, ast.YieldFrom, ast.Lambda, ast.NamedExpr, ast.Starred)):
            return None
        if isinstance(n, ast.Call) and not (isinstance(n.func, ast.Name) and n.func.id in _PURE_CALLS and not n.keywords):
            return None
    return [x.arg for x in a.args[1 if method else 0:]], body[0].value


class _Inline(ast.NodeTransformer):
    """`self.m(simple arguments)` -> the expression of the pure helper `m` of the same class (an extracted pure helper is the same
    code); anything else stays a call"""
    def __init__(self, owner, module, me):
        self.helpers, self.mod_helpers = {}, {}
        for scope, table in ((owner, self.helpers), (module, self.mod_helpers)):
            for f in (scope.body if scope is not None else []):
                if isinstance(f, ast.FunctionDef) and f.name != me and f.name.startswith('_') and not f.name.startswith('__'):
                    h = _pure_helper(f, method=scope is owner)
                    if h is not None:
                        table[f.name] = h

    def visit_Call(self, node):
        import copy
        self.generic_visit(node)
        f = node.func
        hit = self.helpers.get(f.attr) if isinstance(f, ast.Attribute) and isinstance(f.value, ast.Name) and f.value.id == 'self' else \
            self.mod_helpers.get(f.id) if isinstance(f, ast.Name) else None
        if hit is not None and not node.keywords:
            params, expr = hit
            if len(params) == len(node.args) and all(isinstance(x, (ast.Name, ast.Constant)) for x in node.args):
                sub = dict(zip(params, node.args))
                bound = {n.id for n in ast.walk(expr) if isinstance(n, ast.Name) and isinstance(n.ctx, ast.Store)}
                if not (bound & {x.id for x in node.args if isinstance(x, ast.Name)}):
                    class S(ast.NodeTransformer):
                        def visit_Name(s, n):
                            return copy.deepcopy(sub[n.id]) if isinstance(n.ctx, ast.Load) and n.id in sub else n
                    return S().visit(copy.deepcopy(expr))
        return node


_PURE_CALLS2 = _PURE_CALLS | {'next', 'range', 'list', 'dict', 'sorted', 'enumerate', 'zip', 'min', 'max', 'repr'}


def _simple_params(f, method):
    a = f.args
    if f.decorator_list or a.vararg or a.kwarg or a.kwonlyargs or a.defaults or a.posonlyargs:
        return None
    ps = [x.arg for x in a.args]
    if method:
        if not ps or ps[0] != 'self':
            return None
        ps = ps[1:]
    return ps


def _stmt_helper(f, method):
    """a helper `def _h(p…): <statements over its own locals>; return E` with no effect outside itself: no store to an attribute,
    a subscript or a parameter, no call but a few builtins / `itertools.count` (mutating its own local iterator is its own business),
    one `return`, at the end.  -> (params, statements, E, locals) or None"""
    ps = _simple_params(f, method)
    body = _strip(f.body)
    if ps is None or len(body) < 2 or not isinstance(body[-1], ast.Return) or body[-1].value is None:
        return None
    stored = set()
    for st in body[:-1] + [ast.Expr(body[-1].value)]:
        for n in ast.walk(st):
            if isinstance(n, (ast.Return, ast.Yield, ast.YieldFrom, ast.Await, ast.Global, ast.Nonlocal, ast.Lambda, ast.NamedExpr, ast.Delete, ast.Try,
                              ast.With, ast.Raise, ast.FunctionDef, ast.ClassDef, ast.Import, ast.ImportFrom, ast.Starred, ast.Assert)):
                return None
            if isinstance(n, (ast.Attribute, ast.Subscript)) and isinstance(n.ctx, (ast.Store, ast.Del)):
                return None
            if isinstance(n, ast.Call) and not ((isinstance(n.func, ast.Name) and n.func.id in _PURE_CALLS2 and not n.keywords)
                                                 or ast.unparse(n.func) == 'itertools.count'):
                return None
            if isinstance(n, ast.Name) and isinstance(n.ctx, ast.Store):
                stored.add(n.id)
    if stored & (set(ps) | {'self'}):
        return None
    return ps, body[:-1], body[-1].value, stored


class _Sub(ast.NodeTransformer):
    def __init__(self, m):
        self.m = m

    def visit_Name(self, n):
        import copy
        if n.id in self.m:
            r = copy.deepcopy(self.m[n.id])
            if isinstance(r, ast.Name):
                r.ctx = n.ctx
            return r
        return n


def _blocks(node):
    """every statement list below a node"""
    for n in ast.walk(node):
        for f in ('body', 'orelse', 'finalbody'):
            b = getattr(n, f, None)
            if isinstance(b, list) and b and isinstance(b[0], ast.stmt):
                yield n, f


def _inline_statements(fn, helpers):
    """`x = _h(names…)` / `return _h(names…)` -> the statements of the pure helper `_h` (same class: `self._h`, same module: `_h`)
    with its locals renamed apart; when the helper returns one of its locals and `x` is not among the arguments, that local IS `x`"""
    import copy
    counter = [0]
    changed = True
    while changed:
        changed = False
        for node, field in list(_blocks(fn)):
            block = getattr(node, field)
            for i, st in enumerate(block):
                call = st.value if isinstance(st, (ast.Assign, ast.Return)) else None
                if not isinstance(call, ast.Call) or call.keywords:
                    continue
                f = call.func
                key = ('self', f.attr) if isinstance(f, ast.Attribute) and isinstance(f.value, ast.Name) and f.value.id == 'self' else \
                    ('mod', f.id) if isinstance(f, ast.Name) else None
                if key not in helpers:
                    continue
                ps, stmts, ret, locs = helpers[key]
                if len(ps) != len(call.args) or not all(isinstance(x, (ast.Name, ast.Constant)) for x in call.args):
                    continue
                target = None
                if isinstance(st, ast.Assign):
                    if len(st.targets) != 1 or not isinstance(st.targets[0], ast.Name):
                        continue
                    target = st.targets[0].id
                counter[0] += 1
                m = {p: a for p, a in zip(ps, call.args)}
                argnames = {a.id for a in call.args if isinstance(a, ast.Name)}
                for l in locs:
                    m[l] = ast.Name(id='_h%d_%s' % (counter[0], l), ctx=ast.Load())
                direct = target is not None and isinstance(ret, ast.Name) and ret.id in locs and target not in argnames
                if direct:
                    m[ret.id] = ast.Name(id=target, ctx=ast.Load())
                new = [_Sub(m).visit(copy.deepcopy(x)) for x in stmts]
                r = _Sub(m).visit(copy.deepcopy(ret))
                if isinstance(st, ast.Return):
                    new.append(ast.Return(value=r))
                elif not direct:
                    new.append(ast.Assign(targets=[ast.Name(id=target, ctx=ast.Store())], value=r))
                block[i:i + 1] = new
                changed = True
                break
            if changed:
                break
    ast.fix_missing_locations(fn)
    return fn


def _reads(node, name):
    return sum(1 for n in ast.walk(node) if isinstance(n, ast.Name) and n.id == name and isinstance(n.ctx, ast.Load))


def _stores(node, name):
    return any(isinstance(n, ast.Name) and n.id == name and isinstance(n.ctx, (ast.Store, ast.Del)) for n in ast.walk(node))


def _accumulate_loops(fn):
    """`v = []; for T in I: [t = E0;] v.append(E); return tuple(v) | return v`  ->  `return tuple(E for T in I)` | `return [E for T in I]`
    (the same evaluations in the same order; `t` a temporary read once, in `E`)"""
    for node, field in list(_blocks(fn)):
        block = getattr(node, field)
        for i in range(len(block) - 2):
            a, loop, r = block[i], block[i + 1], block[i + 2]
            if not (isinstance(a, ast.Assign) and len(a.targets) == 1 and isinstance(a.targets[0], ast.Name) and isinstance(a.value, ast.List)
                    and not a.value.elts and isinstance(loop, ast.For) and not loop.orelse and isinstance(r, ast.Return)):
                continue
            v = a.targets[0].id
            body = list(loop.body)
            if not body:
                continue
            last = body[-1]
            if not (isinstance(last, ast.Expr) and isinstance(last.value, ast.Call) and ast.unparse(last.value.func) == v + '.append'
                    and len(last.value.args) == 1 and not last.value.keywords):
                continue
            elt = last.value.args[0]
            ok = True
            for t in reversed(body[:-1]):
                if isinstance(t, ast.Assign) and len(t.targets) == 1 and isinstance(t.targets[0], ast.Name) and _reads(elt, t.targets[0].id) == 1 \
                        and _reads(fn, t.targets[0].id) == 1 and t is body[body.index(t)] and body.index(t) == len(body) - 2:
                    elt = _Sub({t.targets[0].id: t.value}).visit(elt)
                    body = body[:-2] + [body[-1]]
                else:
                    ok = False
                    break
            if not ok or _reads(elt, v) or _reads(loop.iter, v):
                continue
            whole = isinstance(r.value, ast.Name) and r.value.id == v
            tup = isinstance(r.value, ast.Call) and isinstance(r.value.func, ast.Name) and r.value.func.id in ('tuple', 'list') \
                and len(r.value.args) == 1 and isinstance(r.value.args[0], ast.Name) and r.value.args[0].id == v and not r.value.keywords
            if not (whole or tup) or _reads(fn, v) != 2:          # (the append and the return)
                continue
            gens = [ast.comprehension(target=loop.target, iter=loop.iter, ifs=[], is_async=0)]
            if whole:
                value = ast.ListComp(elt=elt, generators=gens)
            else:
                value = ast.Call(func=r.value.func, args=[ast.GeneratorExp(elt=elt, generators=gens)], keywords=[])
            block[i:i + 3] = [ast.Return(value=value)]
            ast.fix_missing_locations(fn)
            return _accumulate_loops(fn)
    return fn


def _loop_var_copies(fn):
    """in the body of `for … x … in I`, a top-level `x = y` (y a local name) after which neither is assigned in that body: the rest of
    the body reads `y` instead, and the copy goes when nothing outside the loop reads `x` (the next iteration binds `x` anew)"""
    for loop in [n for n in ast.walk(fn) if isinstance(n, ast.For) and not n.orelse]:
        tnames = {n.id for n in ast.walk(loop.target) if isinstance(n, ast.Name)}
        for i, st in enumerate(loop.body):
            if not (isinstance(st, ast.Assign) and len(st.targets) == 1 and isinstance(st.targets[0], ast.Name) and st.targets[0].id in tnames
                    and isinstance(st.value, ast.Name)):
                continue
            x, y = st.targets[0].id, st.value.id
            rest = loop.body[i + 1:]
            if x == y or any(_stores(r, x) or _stores(r, y) for r in rest):
                continue
            if _reads(fn, x) != _reads(loop, x) or _reads(loop.iter, x):
                continue
            loop.body[i + 1:] = [_Sub({x: ast.Name(id=y, ctx=ast.Load())}).visit(r) for r in rest]
            del loop.body[i]
            ast.fix_missing_locations(fn)
            return _loop_var_copies(fn)
    return fn


def _int_increments(fn):
    """`x = x + <int constant>` -> `x += <int constant>` for a local name (the same for numbers; anything else raises either way)"""
    for n in ast.walk(fn):
        for f in ('body', 'orelse', 'finalbody'):
            b = getattr(n, f, None)
            if not (isinstance(b, list) and b and isinstance(b[0], ast.stmt)):
                continue
            for i, st in enumerate(b):
                if isinstance(st, ast.Assign) and len(st.targets) == 1 and isinstance(st.targets[0], ast.Name) and isinstance(st.value, ast.BinOp) \
                        and isinstance(st.value.op, (ast.Add, ast.Sub)) and isinstance(st.value.left, ast.Name) and st.value.left.id == st.targets[0].id \
                        and isinstance(st.value.right, ast.Constant) and type(st.value.right.value) is int:
                    b[i] = ast.copy_location(ast.AugAssign(target=st.targets[0], op=st.value.op, value=st.value.right), st)
    return fn


def sort_plain_resets(lines, properties=()):
    """maximal runs of `  self.<plain attribute> = <constant | [] | {} | Name()>` lines (top level of the function) are sorted: assignments
    of fresh values to distinct plain attributes commute; an attribute that is a property of the class is a barrier"""
    import re
    pat = re.compile(r"^  self\.(\w+) = (None|True|False|-?\d+|\[\]|\{\}|'[^']*'|\w+\(\)|\(set\(\), set\(\)\))$")
    out, run = [], []
    for l in lines:
        m = pat.match(l)
        if m and m.group(1) not in properties and m.group(1) not in [pat.match(x).group(1) for x in run]:
            run.append(l)
        else:
            out += sorted(run) + [l]
            run = []
    return out + sorted(run)


def property_names(tree, cls):
    names = set()
    for node in tree.body:
        if isinstance(node, ast.ClassDef) and node.name == cls:
            for x in node.body:
                if isinstance(x, ast.Assign) and isinstance(x.value, ast.Call) and ast.unparse(x.value.func) == 'property':
                    names |= {t.id for t in x.targets if isinstance(t, ast.Name)}
                if isinstance(x, ast.FunctionDef) and any(ast.unparse(d) == 'property' for d in x.decorator_list):
                    names.add(x.name)
    return names


def property_names_with_bases(tree, cls):
    names, todo, seen = set(), [cls], set()
    while todo:
        c = todo.pop()
        if c in seen:
            continue
        seen.add(c)
        names |= property_names(tree, c)
        for node in tree.body:
            if isinstance(node, ast.ClassDef) and node.name == c:
                todo += [b.id for b in node.bases if isinstance(b, ast.Name)]
    return names


def _pure_read(e):
    return all(isinstance(n, (ast.Name, ast.Constant, ast.Subscript, ast.Attribute, ast.Load, ast.Tuple)) for n in ast.walk(e))


def _hoist_try_bindings(fn):
    """`try: x = <names, subscripts, attributes>; … finally: del <names>` (no handlers, no else): the leading bindings stand before the
    `try` - binding a local from what is already there commutes with entering a `try` whose `finally` only deletes names (the one
    difference, a name not deleted on a frame that is being left with the exception, is not observable)"""
    for node, field in list(_blocks(fn)):
        block = getattr(node, field)
        for i, st in enumerate(block):
            if not (isinstance(st, ast.Try) and not st.handlers and not st.orelse and st.finalbody
                    and all(isinstance(d, ast.Delete) and all(isinstance(t, ast.Name) for t in d.targets) for d in st.finalbody)):
                continue
            deleted = {t.id for d in st.finalbody for t in d.targets}
            moved = []
            while len(st.body) > 1 and isinstance(st.body[0], ast.Assign) and len(st.body[0].targets) == 1 \
                    and isinstance(st.body[0].targets[0], ast.Name) and st.body[0].targets[0].id not in deleted and _pure_read(st.body[0].value):
                moved.append(st.body.pop(0))
            if moved:
                block[i:i] = moved
                return _hoist_try_bindings(fn)
    return fn


def canon(fn):
    """canonical skeleton of a function: signature line, then the statement lines"""
    import copy
    owner = fn.__dict__.pop('_owner', None)
    try:
        fn2 = copy.deepcopy(fn)
    finally:
        if owner is not None:
            fn._owner = owner
    fn = fn2
    module = getattr(fn, '_module', None) or (getattr(owner, '_module', None) if owner is not None else None)
    fn.__dict__.pop('_module', None)
    helpers = {}
    for scope, kind in ((owner, 'self'), (module, 'mod')):
        for f in (scope.body if scope is not None else []):
            if isinstance(f, ast.FunctionDef) and f.name != fn.name and f.name.startswith('_') and not f.name.startswith('__'):
                h = _stmt_helper(f, kind == 'self')
                if h is not None:
                    helpers[(kind, f.name)] = h
    if helpers:
        fn = _inline_statements(fn, helpers)
    if owner is not None or module is not None:
        fn = _Inline(owner, module, fn.name).visit(fn)
        ast.fix_missing_locations(fn)
    fn = _int_increments(_hoist_try_bindings(_loop_var_copies(_accumulate_loops(fn))))
    r = _Rename(fn)
    fn = r.visit(fn)
    ast.fix_missing_locations(fn)
    decos = ['@' + ast.unparse(d) for d in fn.decorator_list]
    try:
        body = _lines(fn.body, 1)
    except Unsupported as e:
        body = ['?unsupported ' + str(e)]
    return decos + ['def(' + ast.unparse(fn.args) + '):'] + body, fn


def find(tree, cls, name):
    for node in tree.body:
        if cls is None and isinstance(node, ast.FunctionDef) and node.name == name:
            node._module = tree
            return node
        if isinstance(node, ast.ClassDef) and node.name == cls:
            node._module = tree
            for f in node.body:
                if isinstance(f, ast.FunctionDef) and f.name == name:
                    f._owner = node
                    return f
    raise RuntimeError('%s.%s not found' % (cls, name))


def class_methods(tree, cls):
    for node in tree.body:
        if isinstance(node, ast.ClassDef) and node.name == cls:
            node._module = tree
            for f in node.body:
                if isinstance(f, ast.FunctionDef):
                    f._owner = node
            return [f for f in node.body if isinstance(f, ast.FunctionDef)]
    raise RuntimeError('class %s not found' % cls)


def class_assigns(tree, cls):
    """class-level `name = property(getter, setter)` lines, canonical"""
    for node in tree.body:
        if isinstance(node, ast.ClassDef) and node.name == cls:
            return sorted(ast.unparse(s) for s in node.body if isinstance(s, ast.Assign) and isinstance(s.value, ast.Call)
                          and isinstance(s.value.func, ast.Name) and s.value.func.id == 'property')
    raise RuntimeError('class %s not found' % cls)


# ----------------------------------------------------------------------------------------------------------------------- Lean text
def lstr(s):
    return '"' + s.replace('\\', '\\\\').replace('"', '\\"').replace('\n', '\\n') + '"'


def llist(xs):
    return '[' + ', '.join(xs) + ']'


def ldef(name, lines):
    if not lines:
        return 'def %s : List String := []\n' % name
    return 'def %s : List String :=\n  [%s]\n' % (name, ',\n   '.join(lstr(l) for l in lines))


def ltable(name, rows):
    """List (String × List String)"""
    if not rows:
        return 'def %s : List (String × List String) := []\n' % name
    return 'def %s : List (String × List String) :=\n  [%s]\n' % (
        name, ',\n   '.join('(%s, %s)' % (lstr(k), llist(lstr(v) for v in vs)) for k, vs in rows))


ADDS = ['addError', 'addExpectedFailure', 'addFailure', 'addSkip', 'addSuccess', 'addUnexpectedSuccess']


# ---------------------------------------------------------------------------------------------------------------------------- C04
def tt_add_effects(fn):
    """TestResult.add*: the ordered effects - `append <list>`, `failfast-stop`, `skip-bucket`"""
    lines, f = canon(fn)
    out = []
    body = _strip(f.body)
    i = 0
    while i < len(body):
        s = body[i]
        txt = ast.unparse(s)
        if isinstance(s, ast.Expr) and isinstance(s.value, ast.Call) and isinstance(s.value.func, ast.Attribute) \
                and s.value.func.attr == 'append' and isinstance(s.value.func.value, ast.Attribute) \
                and isinstance(s.value.func.value.value, ast.Name) and s.value.func.value.value.id == 'self':
            out.append('append ' + s.value.func.value.attr)
        elif isinstance(s, ast.If) and ast.unparse(s.test) == 'self.failfast' and not s.orelse \
                and [ast.unparse(x) for x in _strip(s.body)] == ['self.stop()']:
            out.append('failfast-stop')
        elif fn.name == 'addSkip' and isinstance(s, ast.If) and ast.unparse(s.test) == 'a1 is None':
            # the reason is taken from the details: recognised as one block together with the bucket append
            rest = [ast.unparse(x) for x in body[i + 1:]]
            if rest == ['v0 = self.skip_reasons.setdefault(a1, [])', 'v0.append(a0)']:
                out.append('skip-bucket')
                i = len(body)
                continue
            out.append('?' + txt)
        else:
            out.append('?' + txt)
        i += 1
    return out


def was_successful_counters(fn):
    _, f = canon(fn)
    body = _strip(f.body)
    if len(body) == 1 and isinstance(body[0], ast.Return):
        v = body[0].value
        if isinstance(v, ast.UnaryOp) and isinstance(v.op, ast.Not) and isinstance(v.operand, ast.BoolOp) and isinstance(v.operand.op, ast.Or):
            names = []
            for x in v.operand.values:
                if isinstance(x, ast.Attribute) and isinstance(x.value, ast.Name) and x.value.id == 'self':
                    names.append(x.attr)
                else:
                    return ['?' + ast.unparse(x)]
            return sorted(names)          # `or` over emptiness tests commutes
    return ['?' + ast.unparse(s) for s in body]


def start_test_run_effects(fn):
    """TestResult.startTestRun: `save x` (local := self.x), `super-init`, `reset x`, `restore x` in order"""
    _, f = canon(fn)
    saved = {}
    out = []
    for s in _strip(f.body):
        txt = ast.unparse(s)
        if isinstance(s, ast.Assign) and len(s.targets) == 1:
            t, v = s.targets[0], s.value
            if isinstance(t, ast.Name) and isinstance(v, ast.Attribute) and isinstance(v.value, ast.Name) and v.value.id == 'self':
                saved[t.id] = v.attr
                out.append('save ' + v.attr)
                continue
            if isinstance(t, ast.Attribute) and isinstance(t.value, ast.Name) and t.value.id == 'self':
                if isinstance(v, ast.Name) and v.id in saved:
                    out.append(('restore ' if saved[v.id] == t.attr else '?cross-restore ') + t.attr)
                else:
                    out.append('reset %s = %s' % (t.attr, ast.unparse(v)))
                continue
        if txt == 'super().__init__()':
            out.append('super-init')
            continue
        out.append('?' + txt)
    # independent resets commute: sort maximal runs of `reset`
    res, run = [], []
    for e in out:
        if e.startswith('reset '):
            run.append(e)
        else:
            res += sorted(run) + [e]
            run = []
    return res + sorted(run)


def multi_table(tree):
    """MultiTestResult: per method `super` (the base class is told first) and `dispatch <message>`"""
    rows = []
    for fn in class_methods(tree, 'MultiTestResult'):
        if fn.name.startswith('_') or fn.name in ('wasSuccessful',):
            continue
        _, f = canon(fn)
        effs = []
        for s in _strip(f.body):
            v = s.value if isinstance(s, (ast.Expr, ast.Return)) else None
            txt = ast.unparse(s)
            if isinstance(v, ast.Call) and ast.unparse(v.func) == 'self._dispatch' and v.args and isinstance(v.args[0], ast.Constant):
                plain = [ast.unparse(a) for a in v.args[1:]] + ['%s=%s' % (k.arg, ast.unparse(k.value)) for k in v.keywords]
                effs.append('dispatch %s(%s)' % (v.args[0].value, ', '.join(plain)))
            elif isinstance(v, ast.Call) and ast.unparse(v.func) == 'super().' + fn.name:
                effs.append('super')
            elif isinstance(v, ast.Call) and ast.unparse(v.func) == 'self._keeping_failfast' and [ast.unparse(a) for a in v.args] == ['super().' + fn.name]:
                effs.append('super-keeping-failfast')
            else:
                effs.append('?' + txt)
        rows.append((fn.name, effs))
    return sorted(rows)


def deco_table(tree):
    """TestResultDecorator: method -> what it forwards to (`decorated.<m>(args)`), properties -> getter / setter"""
    rows = []
    for fn in class_methods(tree, 'TestResultDecorator'):
        if fn.name == '__init__':
            continue
        _, f = canon(fn)
        body = _strip(f.body)
        kind = 'get ' if any(ast.unparse(d) == 'property' for d in fn.decorator_list) else \
            'set ' if any(ast.unparse(d).endswith('.setter') for d in fn.decorator_list) else ''
        if len(body) == 1:
            rows.append((kind + fn.name, [ast.unparse(body[0])]))
        else:
            rows.append((kind + fn.name, ['?' + ast.unparse(s) for s in body]))
    return sorted(rows)


def tfr_failfast_sites(tree):
    rows = []
    for fn in class_methods(tree, 'ThreadsafeForwardingResult'):
        if fn.name in ADDS:
            _, f = canon(fn)
            body = [ast.unparse(s) for s in _strip(f.body)]
            block = [b for b in body if b.startswith('self._add_result_with_semaphore(')]
            eff = []
            for b in body:
                if b.startswith('self._add_result_with_semaphore('):
                    eff.append('block')
                elif b == 'self._stop_if_failfast()':
                    eff.append('stop-if-failfast')
                else:
                    eff.append('?' + b)
            rows.append((fn.name, eff))
    return sorted(rows)


def emit_c04(repo):
    real = ast.parse(open(os.path.join(repo, 'testtools', 'testresult', 'real.py')).read())
    run = ast.parse(open(os.path.join(repo, 'testtools', 'run.py')).read())
    t = ['/-! GENERATED by harness/pyres2lean.py from testtools/testresult/real.py and testtools/run.py on every run: the verdict /\n'
         'stop-control code of C04 as tables and canonical skeletons (DESIGN D.2a item 2e).  Do not edit. -/\n'
         'namespace TTV.Generated.ResCtlSrc\n']
    t.append(ltable('ttAdd', [(m, tt_add_effects(find(real, 'TestResult', m))) for m in ADDS]))
    t.append(ldef('ttWasSuccessful', was_successful_counters(find(real, 'TestResult', 'wasSuccessful'))))
    t.append(ldef('ttStartTestRun', start_test_run_effects(find(real, 'TestResult', 'startTestRun'))))
    t.append(ltable('multiMethods', multi_table(real)))
    for nm, (c, m) in [('multiDispatch', ('MultiTestResult', '_dispatch')), ('multiGetFailfast', ('MultiTestResult', '_get_failfast')),
                       ('multiSetFailfast', ('MultiTestResult', '_set_failfast')), ('multiGetShouldStop', ('MultiTestResult', '_get_shouldStop')),
                       ('multiKeepingFailfast', ('MultiTestResult', '_keeping_failfast')), ('multiWasSuccessful', ('MultiTestResult', 'wasSuccessful')),
                       ('controlStop', ('TestControl', 'stop')),
                       ('tfrStopIfFailfast', ('ThreadsafeForwardingResult', '_stop_if_failfast')),
                       ('tfrStop', ('ThreadsafeForwardingResult', 'stop')), ('tfrGetShouldStop', ('ThreadsafeForwardingResult', '_get_shouldStop')),
                       ('tfrWasSuccessful', ('ThreadsafeForwardingResult', 'wasSuccessful')),
                       ('etodStop', ('ExtendedToOriginalDecorator', 'stop')), ('etodStartTestRun', ('ExtendedToOriginalDecorator', 'startTestRun')),
                       ('etodGetFailfast', ('ExtendedToOriginalDecorator', '_get_failfast')), ('etodSetFailfast', ('ExtendedToOriginalDecorator', '_set_failfast')),
                       ('etodGetShouldStop', ('ExtendedToOriginalDecorator', '_get_shouldStop')),
                       ('etodSetShouldStop', ('ExtendedToOriginalDecorator', '_set_shouldStop'))]:
        t.append(ldef(nm, canon(find(real, c, m))[0]))
    for nm, (c, m) in [('tfrInit', ('ThreadsafeForwardingResult', '__init__')), ('tfrSetShouldStop', ('ThreadsafeForwardingResult', '_set_shouldStop')),
                       ('e2sInit', ('ExtendedToStreamDecorator', '__init__')), ('e2sStartTestRun', ('ExtendedToStreamDecorator', 'startTestRun')),
                       ('e2sGetFailfast', ('ExtendedToStreamDecorator', '_get_failfast')),
                       ('e2sSetFailfast', ('ExtendedToStreamDecorator', '_set_failfast'))]:
        lines = canon(find(real, c, m))[0]
        if nm == 'e2sStartTestRun':
            lines = sort_plain_resets(lines, property_names_with_bases(real, c))
        t.append(ldef(nm, lines))
    t.append(ldef('multiProperties', class_assigns(real, 'MultiTestResult')))
    t.append(ltable('decoForward', deco_table(real)))
    t.append(ltable('tfrAdd', tfr_failfast_sites(real)))
    t.append(ldef('runnerRun', canon(find(run, 'TestToolsTestRunner', 'run'))[0]))
    # the exit-status decision: the tail of TestProgram.runTests from the call of the runner on
    rt = canon(find(run, 'TestProgram', 'runTests'))[0]
    idx = [i for i, l in enumerate(rt) if 'testRunner.run(' in l or '.run(self.test)' in l]
    t.append(ldef('exitDecision', rt[idx[0]:] if idx else ['?runner call not found'] + rt))
    t.append('end TTV.Generated.ResCtlSrc\n')
    return '\n'.join(t)


# ---------------------------------------------------------------------------------------------------------------------------- C08
def etod_rule(fn):
    """ExtendedToOriginalDecorator.add*: [probe, missing, protocol, convert, finally] as recognised from the canonical body"""
    _, f = canon(fn)
    body = _strip(f.body)
    fin = 'none'
    if len(body) == 1 and isinstance(body[0], ast.Try) and not body[0].handlers and body[0].finalbody:
        tr = body[0]
        fl = _lines(tr.finalbody, 0)
        fin = 'failfast-stop' if fl == ['if self.failfast:', '  self.stop()'] else '?' + ' ; '.join(fl)
        body = _strip(tr.body)
    probe, missing, check, proto, conv, last = 'direct', 'none', 'no-check', 'none', 'none', 'none'
    target = 'self.decorated.' + fn.name
    rest = list(body)
    if rest and ast.unparse(rest[0]).startswith('self._check_args('):
        check = 'check-args'
        rest = rest[1:]
    if rest and isinstance(rest[0], ast.Assign) and isinstance(rest[0].value, ast.Call) and ast.unparse(rest[0].value.func) == 'getattr' \
            and ast.unparse(rest[0].value) == "getattr(self.decorated, '%s', None)" % fn.name:
        probe = 'getattr-probe'
        target = ast.unparse(rest[0].targets[0])
        rest = rest[1:]
        if rest and isinstance(rest[0], ast.If) and ast.unparse(rest[0].test) == target + ' is None':
            sub = _lines(rest[0].body, 0)
            if sub == ['return self.decorated.addSuccess(a0)'] or sub == ['return self.addSuccess(a0)']:
                missing = 'addSuccess'
            elif sub == ["v1 = getattr(a0, 'failureException', None) or AssertionError", 'try:', "  raise v1('')", 'except v1:',
                         '  return self.addFailure(a0, sys.exc_info())']:
                missing = 'addFailure(synthetic)'
            else:
                missing = '?' + ' ; '.join(sub)
            rest = rest[1:]
        else:
            missing = '?no missing-method branch'
    # the details= attempt
    if rest and isinstance(rest[0], ast.If) and ast.unparse(rest[0].test).endswith(' is not None') and not rest[0].orelse:
        dname = ast.unparse(rest[0].test)[:-len(' is not None')]
        inner = _strip(rest[0].body)
        if len(inner) == 1 and isinstance(inner[0], ast.Try) and len(inner[0].handlers) == 1 and ast.unparse(inner[0].handlers[0].type) == 'TypeError' \
                and [ast.unparse(x) for x in _strip(inner[0].body)] == ['return %s(a0, details=%s)' % (target, dname)]:
            proto = 'details-first'
            h = _lines(inner[0].handlers[0].body, 0)
            if h == []:
                conv = 'drop'
            elif len(h) == 1 and h[0].endswith(' = self._details_to_exc_info(%s)' % dname):
                conv = 'exc-info'
            elif h == ['try:', "  a1 = %s['reason'].as_text()" % dname, 'except (LookupError, ValueError):', '  a1 = _details_to_str(%s)' % dname]:
                conv = 'reason-or-description'
            else:
                conv = '?' + ' ; '.join(h)
        else:
            proto = '?' + ' ; '.join(_lines([rest[0]], 0))
        rest = rest[1:]
    tail = [ast.unparse(x) for x in rest]
    if tail == ['return %s(a0, a1)' % target]:
        last = 'positional'
    elif tail == ['return %s(a0)' % target]:
        last = 'bare'
    else:
        last = '?' + ' ; '.join(tail)
    return [probe, missing, check, proto, conv, last, fin]


def check_args_rule(fn):
    """`_check_args(err, details)`: "exactly one of the two is given, else ValueError" - the counting spelling or one test over
    `a is None` / `a is not None` with the right truth table; the wording of the message is not behaviour"""
    _, f = canon(fn)
    body = _strip(f.body)
    ok = ['exactly-one a0 a1', 'raise ValueError']

    def is_raise(st):
        return isinstance(st, ast.Raise) and st.cause is None and isinstance(st.exc, ast.Call) and ast.unparse(st.exc.func) == 'ValueError'
    txt = [ast.unparse(x) for x in body]
    if len(body) == 4 and txt[:3] == ['v0 = 0', 'if a0 is not None:\n    v0 += 1', 'if a1 is not None:\n    v0 += 1'] and isinstance(body[3], ast.If) \
            and ast.unparse(body[3].test) == 'v0 != 1' and not body[3].orelse and len(body[3].body) == 1 and is_raise(body[3].body[0]):
        return ok
    if len(body) == 1 and isinstance(body[0], ast.If) and not body[0].orelse and len(body[0].body) == 1 and is_raise(body[0].body[0]):
        import copy

        def table(test, given0, given1):
            class T(ast.NodeTransformer):
                def visit_Compare(s, n):
                    if len(n.ops) == 1 and isinstance(n.left, ast.Name) and n.left.id in ('a0', 'a1') and isinstance(n.ops[0], (ast.Is, ast.IsNot)) \
                            and isinstance(n.comparators[0], ast.Constant) and n.comparators[0].value is None:
                        given = given0 if n.left.id == 'a0' else given1
                        return ast.Constant(value=(not given) if isinstance(n.ops[0], ast.Is) else given)
                    s.generic_visit(n)
                    return n
            e = T().visit(copy.deepcopy(test))
            for n in ast.walk(e):
                if not isinstance(n, (ast.Constant, ast.BoolOp, ast.UnaryOp, ast.Compare, ast.And, ast.Or, ast.Not, ast.Eq, ast.NotEq, ast.Is, ast.IsNot, ast.Load)) \
                        or (isinstance(n, ast.Constant) and not isinstance(n.value, bool)):
                    return None
            return bool(eval(compile(ast.fix_missing_locations(ast.Expression(body=e)), '<check_args>', 'eval'), {'__builtins__': {}}))
        rows = [table(body[0].test, g0, g1) for g0 in (False, True) for g1 in (False, True)]
        if rows == [True, False, False, True]:          # raises unless exactly one is given
            return ok
    return ['?' + ' ; '.join(t.replace('\n', ' ; ') for t in txt)]


def emit_c08(repo):
    real = ast.parse(open(os.path.join(repo, 'testtools', 'testresult', 'real.py')).read())
    t = ['/-! GENERATED by harness/pyres2lean.py from testtools/testresult/real.py on every run: the fallback rules of\n'
         'ExtendedToOriginalDecorator, the call shape of TestByTestResult and the forwarding table of TestResultDecorator (C08;\n'
         'DESIGN D.2a item 2e).  Do not edit. -/\n'
         'namespace TTV.Generated.EtodSrc\n']
    t.append('/-- per outcome method: probe, substitution when the target lacks the method, argument check, protocol, conversion on\n'
             '`TypeError`, final call, `finally` clause -/')
    t.append(ltable('etodAdd', [(m, etod_rule(find(real, 'ExtendedToOriginalDecorator', m))) for m in ADDS]))
    t.append('/-- `_check_args`: exactly one of `err` / `details`, else `ValueError` (either spelling, message text ignored) -/')
    t.append(ldef('etodCheckArgs', check_args_rule(find(real, 'ExtendedToOriginalDecorator', '_check_args'))))
    for nm, m in [('etodDetailsToExcInfo', '_details_to_exc_info'), ('etodDone', 'done'), ('etodProgress', 'progress'),
                  ('etodTags', 'tags'), ('etodTime', 'time'), ('etodStartTest', 'startTest'), ('etodStopTest', 'stopTest'), ('etodStopTestRun', 'stopTestRun')]:
        t.append(ldef(nm, canon(find(real, 'ExtendedToOriginalDecorator', m))[0]))
    for nm, m in [('tbtStartTest', 'startTest'), ('tbtStopTest', 'stopTest'), ('tbtErrToDetails', '_err_to_details'), ('tbtAddSkip', 'addSkip'),
                  ('tbtAddSuccess', 'addSuccess'), ('tbtAddError', 'addError'), ('tbtAddUnexpectedSuccess', 'addUnexpectedSuccess')]:
        t.append(ldef(nm, canon(find(real, 'TestByTestResult', m))[0]))
    t.append(ltable('decoForward', deco_table(real)))
    t.append(ldef('taggerStartTest', canon(find(real, 'Tagger', 'startTest'))[0]))
    t.append('end TTV.Generated.EtodSrc\n')
    return '\n'.join(t)


# ---------------------------------------------------------------------------------------------------------------------------- C05
def name_loop(fn):
    """the unique-name loops: [counter start, candidate base (original | cumulative), counter scope (call | run), first candidate]"""
    lines, f = canon(fn)
    txt = ' ; '.join(l.strip() for l in lines[1:])
    forms = {
        # addDetailUniqueName
        "v0 = self.getDetails() ; v1 = a0 ; v2 = 1 ; while v1 in v0: ; v1 = '%s-%d' % (a0, v2) ; v2 += 1 ; self.addDetail(v1, a1)":
            ['start 1', 'base original', 'counter per-call', 'first plain', 'format %s-%d', 'store addDetail'],
        # gather_details
        "for (v0, v1) in a0.items(): ; v2 = v0 ; v3 = itertools.count(1) ; while v2 in a1: ; v2 = '%s-%d' % (v0, next(v3)) ; a1[v2] = _copy_content(v1)":
            ['start 1', 'base original', 'counter per-detail', 'first plain', 'format %s-%d', 'store copy-content'],
        # _report_traceback
        "v0 = self._traceback_id_gens.setdefault(a1, itertools.count(0)) ; while True: ; v1 = next(v0) ; if v1: ; a1 = '%s-%d' % (a1, v1) ; "
        "if a1 not in self.getDetails(): ; break ; self.addDetail(a1, content.TracebackContent(a0, self, capture_locals=getattr(self, '__testtools_tb_locals__', False)))":
            ['start 0', 'base cumulative', 'counter per-run-and-label', 'first plain', 'format %s-%d', 'store addDetail-traceback'],
    }
    return forms.get(txt, ['?' + txt])


def emit_c05(repo):
    tc = ast.parse(open(os.path.join(repo, 'testtools', 'testcase.py')).read())
    rt = ast.parse(open(os.path.join(repo, 'testtools', 'runtest.py')).read())
    t = ['/-! GENERATED by harness/pyres2lean.py from testtools/testcase.py and testtools/runtest.py on every run: the detail-naming\n'
         'code of C05 (DESIGN D.2a item 2e).  Do not edit. -/\n'
         'namespace TTV.Generated.DetailSrc\n']
    t.append(ltable('nameLoops', [('addDetailUniqueName', name_loop(find(tc, 'TestCase', 'addDetailUniqueName'))),
                                  ('gather_details', name_loop(find(tc, None, 'gather_details'))),
                                  ('_report_traceback', name_loop(find(tc, 'TestCase', '_report_traceback')))]))
    for nm, (c, m) in [('addDetail', ('TestCase', 'addDetail')), ('getDetails', ('TestCase', 'getDetails')), ('addReason', ('TestCase', '_add_reason')),
                       ('addDetailUniqueName', ('TestCase', 'addDetailUniqueName')), ('reportTraceback', ('TestCase', '_report_traceback')),
                       ('gatherDetails', (None, 'gather_details')), ('onException', ('TestCase', 'onException'))]:
        t.append(ldef(nm, canon(find(tc, c, m))[0]))
    t.append(ldef('gotUserException', canon(find(rt, 'RunTest', '_got_user_exception'))[0]))
    for nm, m in [('caseInit', '__init__'), ('caseReset', '_reset'), ('expectFailure', 'expectFailure'), ('useFixture', 'useFixture'),
                  ('reportError', '_report_error'), ('reportExpectedFailure', '_report_expected_failure'), ('reportFailure', '_report_failure'),
                  ('reportSkip', '_report_skip'), ('reportUnexpectedSuccess', '_report_unexpected_success')]:
        lines = canon(find(tc, 'TestCase', m))[0]
        if nm == 'caseReset':
            lines = sort_plain_resets(lines, property_names_with_bases(tc, 'TestCase'))
        t.append(ldef(nm, lines))
    t.append(ldef('runCleanups', canon(find(rt, 'RunTest', '_run_cleanups'))[0]))
    t.append('end TTV.Generated.DetailSrc\n')
    return '\n'.join(t)


def translate(repo):
    return {'TTV/Generated/ResCtlSrc.lean': emit_c04(repo), 'TTV/Generated/EtodSrc.lean': emit_c08(repo),
            'TTV/Generated/DetailSrc.lean': emit_c05(repo)}


if __name__ == '__main__':
    import sys
    for k, v in translate(sys.argv[1] if len(sys.argv) > 1 else '/repo').items():
        print('=' * 20, k)
        print(v)
