"""A (deliberately tiny) Python -> Lean translator for straight-line set algebra: the tag arithmetic of testtools
(`TagContext.change_tags`, `_merge_tags`, `StreamTagger.status`).  It is run on every check of C17: the functions are re-read from
the tree, symbolically executed, and emitted as Lean definitions over `TTV.Result.TagSet`; theorems in `Props/C17.lean` prove the
hand-written model's operations equal to the generated ones, so an edit of the source that changes the arithmetic breaks a proof.

Supported statements: `a, b = c` (tuple unpacking of a parameter), `x = set(e)` / `x = e`, `x.update(e)`, `x.difference_update(e)`,
`return e | (e1, e2) | self.get_current_tags()`; expressions: names, `self._tags`, `e[0]`, `e[1]`, `set(e)`, `e or ()`; and, for
`StreamTagger.status` only, the one conditional that decides when `None` is handed on instead of the computed set:
`if <supplied> is None and not <set>: <set> = None` (recorded as a rule next to the set term, see `none_rule`).
Anything else raises (the tie is then reported as broken).
"""
import ast, os


class Unsupported(Exception):
    pass


def find_function(tree, qualname):
    parts = qualname.split('.')
    node = tree
    for part in parts:
        for child in ast.iter_child_nodes(node):
            if isinstance(child, (ast.FunctionDef, ast.ClassDef)) and child.name == part:
                node = child
                break
        else:
            raise Unsupported('no %s in source' % qualname)
    return node


class Sym:
    """symbolic execution of one function; values are Lean terms (strings) over the parameters"""

    def __init__(self, params):
        self.env = dict(params)           # python lvalue text -> Lean term
        self.alias = {}                   # local name -> the lvalue it is another name for (`tags = self._tags`: no copy)
        self.none_rule = 'never'          # when the result is None instead of the set: never | whenEmpty | whenEmptyAndNotSupplied
        self.noned = None                 # (variable, its set term) of `if supplied is None and not x: x = None`

    def root(self, key):
        while key in self.alias:
            key = self.alias[key]
        return key

    def expr(self, e):
        if isinstance(e, ast.Name):
            key = self.root(e.id)
            if key in self.env:
                return self.env[key]
            raise Unsupported('unknown name ' + e.id)
        if isinstance(e, ast.Attribute):
            key = self.root(ast.unparse(e))
            if key in self.env:
                return self.env[key]
            raise Unsupported('unknown attribute ' + key)
        if isinstance(e, ast.Call) and isinstance(e.func, ast.Attribute) and e.func.attr == 'copy' and not e.args and not e.keywords:
            return self.expr(e.func.value)        # x.copy(): the same value (sets are values in the model)
        if isinstance(e, ast.Subscript) and isinstance(e.slice, ast.Constant) and e.slice.value in (0, 1):
            return '(%s).%d' % (self.expr(e.value), e.slice.value + 1)
        if isinstance(e, ast.Call) and isinstance(e.func, ast.Name) and e.func.id == 'set' and len(e.args) <= 1:
            return self.expr(e.args[0]) if e.args else '(0 : TagSet)'
        if isinstance(e, ast.BoolOp) and isinstance(e.op, ast.Or) and len(e.values) == 2 and ast.unparse(e.values[1]) in ('()', 'set()', 'frozenset()'):
            return self.expr(e.values[0])        # `tags or ()`: None / empty -> the empty set
        if isinstance(e, ast.Call) and ast.unparse(e.func) == 'kwargs.get' and ast.unparse(e.args[0]) in self.env:
            return self.env[ast.unparse(e.args[0])]
        if isinstance(e, ast.Tuple):
            return '(' + ', '.join(self.expr(x) for x in e.elts) + ')'
        raise Unsupported('expression ' + ast.unparse(e))

    def lvalue(self, t):
        return ast.unparse(t)

    def run(self, body, result_of=None):
        for st in body:
            if isinstance(st, ast.Expr) and isinstance(st.value, ast.Constant):
                continue                                        # docstring
            if isinstance(st, ast.Assign) and len(st.targets) == 1:
                t = st.targets[0]
                if isinstance(t, ast.Tuple):
                    v = self.expr(st.value)
                    for i, el in enumerate(t.elts):
                        self.env[self.lvalue(el)] = '(%s).%d' % (v, i + 1)
                elif result_of and self.lvalue(t) == result_of[0]:
                    # `kwargs["test_tags"] = test_tags or None`: the value handed on (None stands for the empty set)
                    v = st.value
                    if isinstance(v, ast.BoolOp) and isinstance(v.op, ast.Or) and ast.unparse(v.values[1]) == 'None':
                        v = v.values[0]
                        if self.noned is not None:
                            raise Unsupported('two rules for None')
                        self.none_rule = 'whenEmpty'
                    self.env['__out__'] = self.expr(v)
                    if self.noned is not None:
                        # the conditional spoke about exactly the value that is handed on, as it is now
                        if not (isinstance(v, ast.Name) and self.root(v.id) == self.noned[0] and self.env['__out__'] == self.noned[1]):
                            raise Unsupported('the None rule is not about the forwarded value')
                        self.none_rule = 'whenEmptyAndNotSupplied'
                elif isinstance(t, ast.Name) and isinstance(st.value, (ast.Name, ast.Attribute)) and self.root(ast.unparse(st.value)) in self.env:
                    self.alias[t.id] = self.root(ast.unparse(st.value))      # another name for the same (mutable) set
                else:
                    self.alias.pop(self.lvalue(t), None)
                    self.env[self.lvalue(t)] = self.expr(st.value)
                continue
            if isinstance(st, ast.Expr) and isinstance(st.value, ast.Call) and isinstance(st.value.func, ast.Attribute):
                meth = st.value.func.attr
                target = self.root(self.lvalue(st.value.func.value))
                if meth in ('update', 'difference_update') and target in self.env and len(st.value.args) == 1:
                    op = 'TagSet.union' if meth == 'update' else 'TagSet.diff'
                    self.env[target] = '(%s %s %s)' % (op, self.env[target], self.expr(st.value.args[0]))
                    continue
                if result_of and ast.unparse(st.value.func) == result_of[1]:
                    return self.env['__out__']                  # the forwarding call ends the function
            if result_of and isinstance(st, ast.If) and not st.orelse and self.noned is None and '__out__' not in self.env:
                # if <supplied> is None and not <x>: <x> = None        (either order of the two tests)
                t = st.test
                if isinstance(t, ast.BoolOp) and isinstance(t.op, ast.And) and len(t.values) == 2 and len(st.body) == 1:
                    tests = {('none' if isinstance(c, ast.Compare) else 'empty'): c for c in t.values}
                    c, e = tests.get('none'), tests.get('empty')
                    b = st.body[0]
                    if c is not None and e is not None and len(c.ops) == 1 and isinstance(c.ops[0], ast.Is) and ast.unparse(c.comparators[0]) == 'None' \
                            and isinstance(c.left, ast.Name) and self.expr(c.left) == self.env.get(result_of[2]) \
                            and isinstance(e, ast.UnaryOp) and isinstance(e.op, ast.Not) and isinstance(e.operand, ast.Name) \
                            and isinstance(b, ast.Assign) and len(b.targets) == 1 and isinstance(b.targets[0], ast.Name) \
                            and b.targets[0].id == e.operand.id and ast.unparse(b.value) == 'None' and self.root(e.operand.id) in self.env:
                        self.noned = (self.root(e.operand.id), self.env[self.root(e.operand.id)])
                        continue
            if isinstance(st, ast.Return):
                if isinstance(st.value, ast.Call) and ast.unparse(st.value.func) == 'self.get_current_tags':
                    return self.env['self._tags']
                return self.expr(st.value)
            raise Unsupported('statement ' + ast.unparse(st)[:80])
        raise Unsupported('no return')


def translate(repo):
    """-> {relative path: text} of the generated Lean modules"""
    tags_src = ast.parse(open(os.path.join(repo, 'testtools', 'tags.py')).read())
    real_src = ast.parse(open(os.path.join(repo, 'testtools', 'testresult', 'real.py')).read())
    change = find_function(tags_src, 'TagContext.change_tags')
    t1 = Sym({'self._tags': 'cur', 'new_tags': 'new', 'gone_tags': 'gone'}).run(change.body)
    merge = find_function(real_src, '_merge_tags')
    t2 = Sym({'existing': 'existing', 'changed': 'changed'}).run(merge.body)
    tagger = find_function(real_src, 'StreamTagger.status')
    sym3 = Sym({'"test_tags"': 'tags', "'test_tags'": 'tags', 'self.add': 'add', 'self.discard': 'discard'})
    t3 = sym3.run(tagger.body, result_of=("kwargs['test_tags']", 'super().status', "'test_tags'"))
    if sym3.noned is not None and sym3.none_rule != 'whenEmptyAndNotSupplied':
        raise Unsupported('a None rule that does not reach the forwarded value')
    t3_out = {'never': 'some (T)', 'whenEmpty': 'if (T).isEmpty then none else some (T)',
              'whenEmptyAndNotSupplied': 'if supplied.isNone && (T).isEmpty then none else some (T)'}[sym3.none_rule].replace('T', t3)
    c17 = '''import TTV.Model.Result
/-! GENERATED by harness/pyset2lean.py from testtools/tags.py and testtools/testresult/real.py — do not edit.
The tag arithmetic of the code, translated statement by statement (symbolic execution of the straight-line set code). -/
namespace TTV.Generated.C17
open TTV.Result

/-- `TagContext.change_tags(new_tags, gone_tags)`: the context's tags afterwards -/
def changeTags_src (cur new gone : TagSet) : TagSet := %s

/-- `_merge_tags(existing, changed)` -/
def mergeTags_src (existing changed : TagSet × TagSet) : TagSet × TagSet := %s

end TTV.Generated.C17
''' % (t1, t2)
    c11 = '''/-! GENERATED by harness/pyset2lean.py from testtools/testresult/real.py (`StreamTagger.status`) — do not edit.
Sets are lists here (the C11 model normalises them afterwards). -/
namespace TTV.Generated.C11

namespace TagSet
def union (a b : List Nat) : List Nat := a ++ b
def diff (a b : List Nat) : List Nat := a.filter fun x => !b.contains x
end TagSet

/-- `StreamTagger.status`: the set computed for incoming tags `tags` (`None` read as empty), `self.add`, `self.discard` -/
def taggerTags_src (tags add discard : List Nat) : List Nat := %s

/-- `StreamTagger.status`: the `test_tags` handed on (`none` = `None`) for the supplied `test_tags` -/
def taggerOut_src (supplied : Option (List Nat)) (add discard : List Nat) : Option (List Nat) :=
  let tags := supplied.getD []
  %s

end TTV.Generated.C11
''' % (t3, t3_out)
    return {'TTV/Generated/C17.lean': c17, 'TTV/Generated/C11.lean': c11}


if __name__ == '__main__':
    import sys
    for k, v in translate(sys.argv[1] if len(sys.argv) > 1 else '/repo').items():
        print('=====', k)
        print(v)
