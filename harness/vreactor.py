"""Virtual-time Twisted reactor for the C14 / C15 correspondence checks.

A `twisted.internet.task.Clock` (sorted list of `DelayedCall`s, stable for equal times = scheduling order)
plus the parts of IReactorCore that `Spinner` and `AsynchronousDeferredRunTest` use:
`run / crash / stop / callWhenRunning / iterate / removeAll / running`, and `getDelayedCalls` returning a
**copy** (`Clock.getDelayedCalls` hands out the live list, which `Spinner._clean` would mutate while
iterating over it).  Time only moves inside `run()`: to the time of the earliest pending call; one *iteration* then runs the
calls that are due and were scheduled before the iteration began, in scheduling order - also after a crash
request - exactly like `ReactorBase.runUntilCurrent` of a real reactor (a call scheduled during an iteration,
even with delay 0, waits for the next iteration; after a crash there is no next one).  Like the real reactor, an exception escaping from a delayed call is
caught (recorded in `errors`), it does not abort the loop.

`executed` records `(virtual time, DelayedCall)` for every call that ran.
"""
from twisted.internet.task import Clock


class WouldBlockForever(RuntimeError):
    pass


class VirtualReactor(Clock):
    def __init__(self):
        super().__init__()
        self.running = False
        self._crashed = False
        self._when_running = []
        self.selectables = []
        self.real_stops = 0          # calls of the *unpatched* stop()
        self.executed = []
        self.errors = []
        self._iteration = 0

    # --- IReactorCore bits
    def callWhenRunning(self, f, *a, **kw):
        if self.running:
            f(*a, **kw)
        else:
            self._when_running.append((f, a, kw))

    def run(self):
        assert not self.running, "reactor already running"
        self.running = True
        self._crashed = False
        try:
            wr, self._when_running = self._when_running, []
            for f, a, kw in wr:
                f(*a, **kw)
            while not self._crashed:
                if not self.calls:
                    raise WouldBlockForever("virtual reactor would block forever")
                nxt = min(c.getTime() for c in self.calls)
                self.advance(max(0, nxt - self.seconds()))
        finally:
            self.running = False

    def crash(self):
        self._crashed = True

    def stop(self):
        self.real_stops += 1
        self.crash()

    def iterate(self, delay=0):
        self.advance(delay)

    def getDelayedCalls(self):
        return list(self.calls)

    def removeAll(self):
        s, self.selectables = self.selectables, []
        return s

    def callLater(self, delay, f, *a, **kw):
        assert delay >= 0, f"{delay} is not greater than or equal to 0 seconds"       # as ReactorBase.callLater
        dc = super().callLater(delay, f, *a, **kw)
        dc._born = self._iteration            # the iteration during which the call was scheduled (0 = outside any)
        return dc

    # --- one reactor iteration: like ReactorBase.runUntilCurrent, run the calls that are due AND were scheduled before
    # this iteration began (a call scheduled during an iteration, even with delay 0, waits for the next one); with an
    # execution log and the real reactor's exception barrier
    def advance(self, amount):
        self.rightNow += amount
        self._iteration += 1
        self._sortCalls()
        while self.calls and self.calls[0].getTime() <= self.seconds() and self.calls[0]._born < self._iteration:
            call = self.calls.pop(0)
            call.called = 1
            self.executed.append((self.seconds(), call))
            try:
                call.func(*call.args, **call.kw)
            except Exception as e:   # ReactorBase.runUntilCurrent logs and goes on
                self.errors.append(e)
            self._sortCalls()
