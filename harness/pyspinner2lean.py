"""Python -> Lean translator for `testtools/twistedsupport/_spinner.py` (C15; the count of obligatory iterations also serves C14).

Run on every check of C15 (through `c15.extract_tables`): `Spinner.run` with the nested `run_function` and the run-token guard,
`_got_success`, `_got_failure`, `_stop_reactor`, `_timed_out`, `_fake_stop`, `_cancel_timeout`, `_get_result`, `_clean`,
`_save_signals`, `_restore_signals`, `not_reentrant` and `trap_unhandled_errors` are re-read from the tree under test and emitted as
DATA of the types of `TTV/Model/SpinnerSkel.lean` into `TTV/Generated/SpinnerSkel.lean`.  `C15_src_*` (Props/C15.lean) prove that the
generated terms are the reference terms and that their interpretation is the hand-written model.

What is recognised (anything else becomes `.unknown`, which no reference term contains, so the proofs break):
* bodies are first normalised by harness/pynorm.py (docstrings, temporaries, `if … else` after a returning branch); local names are
  found by their ROLE (the run token, the guard, `run_function`, the Deferred, the saved `reactor.stop`, the junk list), so renaming is harmless;
  a nested `def` and a `lambda` with the same body are the same; `d.m1(...); d.m2(...)`, `d.m1(...).m2(...)` and `E.m1(...).m2(...)` are the
  same list of method calls (the Deferred methods return the Deferred); positional and keyword (`callback=`/`errback=`) arguments alike.
* `run`: `@not_reentrant`; `with <DebugTwisted(True) if self._debug else Fixture()>:` (conditional expression or the if/else binding);
  inside, in source order, the steps of `SpinnerSkel.Step` (see there for the exact statements) and `try … finally` without handlers.
  The run token is a fresh object bound to a local (`_Run()` or any call without arguments); the guard is a one-parameter function
  returning a one-parameter function that calls the guarded callback only `if not <token>.over`; `run_function` must create the
  Deferred with `defer.maybeDeferred(function, *args, **kwargs)`, hang `guard(self._got_success)` / `guard(self._got_failure)` on it with
  ONE `addCallbacks` and `guard(self._stop_reactor)` with `addBoth`.
* the small methods: see `SpinnerSkel.CbStep`; `self._cancel_timeout()` and its inlined body `if self._timeout_call: self._timeout_call.cancel()`
  are the same step; `e = TimeoutError(function, timeout); self._failure = Failure(e)` with or without the local.
* `_get_result`: terminating arms with guards `X is not self._UNSET` (identity; `!=` is `.unknown`), in source order.
* `_save_signals`: see `save_signals` below (comprehensions or an explicit loop, `getattr` with default + filter or try/except
  AttributeError); `_clean`, `_restore_signals`, `not_reentrant`, `trap_unhandled_errors`: the statement forms listed in the model file.
Trusted: this recogniser (a bug here could make a changed source look unchanged) and that the interpreters read the forms as Python does.
"""
import ast, os
from harness import pynorm
from harness.pynorm import canon
from harness.pydeferred2lean import arms_of

U = ast.unparse


def find(tree, path):
    node = tree
    for part in path.split('.'):
        for child in ast.iter_child_nodes(node):
            if isinstance(child, (ast.FunctionDef, ast.ClassDef)) and child.name == part:
                node = child
                break
        else:
            raise ValueError('%s not found' % path)
    return node


def body_of(fn):
    return pynorm.normal_body(fn)


def params(fn):
    return [a.arg for a in fn.args.posonlyargs + fn.args.args]


def calls_on(stmts_or_expr):
    """`E.m1(a).m2(b)` -> (E, [(m1, call), (m2, call)])"""
    e, out = stmts_or_expr, []
    while isinstance(e, ast.Call) and isinstance(e.func, ast.Attribute) and U(e.func) != 'defer.maybeDeferred':
        out.append((e.func.attr, e))
        e = e.func.value
    return e, out[::-1]


def lean_list(xs):
    return '[%s]' % ', '.join(xs)


# ---------------------------------------------------------------- the small methods
def cb_steps(fn):
    ps = params(fn)
    arg = ps[1] if len(ps) > 1 else None

    def go(stmts):
        out = []
        i = 0
        while i < len(stmts):
            s = stmts[i]
            t = U(s)
            nxt = U(stmts[i + 1]) if i + 1 < len(stmts) else None
            if t == 'self._cancel_timeout()' or t == 'if self._timeout_call:\n    self._timeout_call.cancel()':
                out.append('.cancelTimeout')
            elif arg and t == 'self._success = %s' % arg:
                out.append('.storeSuccess')
            elif arg and t == 'self._failure = %s' % arg:
                out.append('.storeFailure')
            elif len(ps) == 3 and t == 'self._failure = Failure(TimeoutError(%s, %s))' % (ps[1], ps[2]):
                out.append('.storeTimeoutFailure')
            elif len(ps) == 3 and isinstance(s, ast.Assign) and len(s.targets) == 1 and isinstance(s.targets[0], ast.Name) \
                    and U(s.value) == 'TimeoutError(%s, %s)' % (ps[1], ps[2]) and nxt == 'self._failure = Failure(%s)' % s.targets[0].id \
                    and sum(pynorm.uses(x, s.targets[0].id) for x in stmts) == 2:
                out.append('.storeTimeoutFailure')
                i += 1
            elif t in ('self._stop_reactor()', 'self._stop_reactor(None)'):
                out.append('.stopReactor')
            elif isinstance(s, ast.If) and U(s.test) == 'self._spinning' and not s.orelse and i == len(stmts) - 1:
                out.append('.onlyIfSpinning')
                out += go(s.body)
            elif t == 'self._reactor.crash()':
                out.append('.crash')
            elif t == 'self._spinning = False':
                out.append('.clearSpinning')
            else:
                out.append('.unknown')
            i += 1
        return out
    return lean_list(go(body_of(fn)))


def cancel_timeout_ok(fn):
    b = body_of(fn)
    return len(b) == 1 and U(b[0]) == 'if self._timeout_call:\n    self._timeout_call.cancel()'


# ---------------------------------------------------------------- _get_result
def get_result(fn):
    def guard(t):
        if isinstance(t, ast.Compare) and len(t.ops) == 1 and isinstance(t.ops[0], ast.IsNot):
            pair = {U(t.left), U(t.comparators[0])}
            if pair == {'self._failure', 'self._UNSET'}:
                return '.failureSet'
            if pair == {'self._success', 'self._UNSET'}:
                return '.successSet'
        if isinstance(t, ast.UnaryOp) and isinstance(t.op, ast.Not) and isinstance(t.operand, ast.Compare) and len(t.operand.ops) == 1 \
                and isinstance(t.operand.ops[0], ast.Is):
            pair = {U(t.operand.left), U(t.operand.comparators[0])}
            if pair == {'self._failure', 'self._UNSET'}:
                return '.failureSet'
            if pair == {'self._success', 'self._UNSET'}:
                return '.successSet'
        return '.unknown'

    def arm(body):
        b = list(body)
        for k, x in enumerate(b):            # what follows an unconditional raise is dead code
            if isinstance(x, ast.Raise) or U(x) == 'self._failure.raiseException()':
                b = b[:k + 1]
                break
        if len(b) == 1:
            t = U(b[0])
            if t == 'self._failure.raiseException()':
                return '.raiseFailure'
            if t == 'return self._success':
                return '.returnSuccess'
            if t == 'raise NoResultError()':
                return '.raiseNoResult'
        return '.unknown'
    arms = arms_of(body_of(fn), guard, arm, None)
    return lean_list('(%s, %s)' % a for a in arms)


# ---------------------------------------------------------------- _clean
def clean(fn):
    out = []
    junk = None
    for s in body_of(fn):
        t = U(s)
        if isinstance(s, ast.For) and not s.orelse and U(s.iter) == 'range(self._OBLIGATORY_REACTOR_ITERATIONS)' \
                and [U(x) for x in s.body] == ['self._reactor.iterate(0)']:
            out.append('.iterateObligatory')
        elif isinstance(s, ast.Assign) and len(s.targets) == 1 and isinstance(s.targets[0], ast.Name) and U(s.value) == '[]' and junk is None:
            junk = s.targets[0].id
            out.append('.newJunkList')
        elif junk and isinstance(s, ast.For) and not s.orelse and isinstance(s.target, ast.Name) and U(s.iter) == 'self._reactor.getDelayedCalls()' \
                and sorted(U(x) for x in s.body) == sorted(['%s.cancel()' % s.target.id, '%s.append(%s)' % (junk, s.target.id)]):
            out.append('.cancelCallsIntoJunk')
        elif junk and isinstance(s, ast.For) and not s.orelse and isinstance(s.target, ast.Name) and U(s.iter) == 'self._reactor.removeAll()' \
                and [U(x) for x in s.body] == ['%s.append(%s)' % (junk, s.target.id)]:
            out.append('.removeSelectablesIntoJunk')
        elif junk and t in ('%s.extend(self._reactor.removeAll())' % junk, '%s += self._reactor.removeAll()' % junk):
            out.append('.removeSelectablesIntoJunk')
        elif isinstance(s, ast.If) and not s.orelse and canon(pynorm.split_and(s)) == canon(
                'if IReactorThreads.providedBy(self._reactor):\n    if self._reactor.threadpool is not None:\n        self._reactor._stopThreadPool()'):
            out.append('.stopThreadPool')
        elif junk and t in ('self._junk.extend(%s)' % junk, 'self._junk += %s' % junk):
            out.append('.extendRecordedJunk')
        elif junk and t == 'return %s' % junk:
            out.append('.returnJunk')
        else:
            out.append('.unknown')
    return lean_list(out)


def class_const(cls, name):
    for s in cls.body:
        if isinstance(s, ast.Assign) and len(s.targets) == 1 and U(s.targets[0]) == name and isinstance(s.value, ast.Constant) \
                and isinstance(s.value.value, int) and not isinstance(s.value.value, bool) and s.value.value >= 0:
            return s.value.value
    return None


# ---------------------------------------------------------------- signals
class _Rename(ast.NodeTransformer):
    def __init__(self, m):
        self.m = m

    def visit_Name(self, node):
        node.id = self.m.get(node.id, node.id)
        return node


def with_locals_renamed(stmts):
    """canonical text of a statement list: locals bound by plain assignment / for targets are renamed in order of binding"""
    import copy
    m = {}
    for s in stmts:
        for n in ast.walk(s):
            if isinstance(n, ast.Name) and isinstance(n.ctx, ast.Store) and n.id not in m:
                m[n.id] = 'L%d' % len(m)
    return [canon(_Rename(m).visit(copy.deepcopy(s))) for s in stmts]


def _filter_ok(test, v, negated=False):
    """`v` / `v is not None` (negated: `not v` / `v is None`): the signal exists on this platform (signal numbers are never falsy)"""
    t = U(test)
    return t in (('not %s' % v, '%s is None' % v, 'not %s is not None' % v) if negated else (v, '%s is not None' % v, 'not %s is None' % v))


def save_signals(fn):
    """`self._saved_signals` is ASSIGNED a fresh list of `(sig, signal.getsignal(sig))`, in the order of `self._PRESERVED_SIGNALS`, for
    exactly the names the `signal` module has.  Spellings: comprehensions (one, or two through a local; filter `if sig` / `if sig is not
    None`; inner list or generator) or an explicit loop that appends to a fresh list, getting the signal with `getattr(signal, name, None)`
    plus a filter (`if sig:` around the append, or `if not sig: continue`) or with `try: getattr(signal, name) except AttributeError:
    continue` (then the filter is optional)."""
    ok, bad = '.assignsFreshListOfAvailablePreserved', '.unknown'
    stmts = body_of(fn)
    got = with_locals_renamed(stmts)
    pairs = '(v0, signal.getsignal(v0))'
    for inner in ('[getattr(signal, v1, None) for v1 in self._PRESERVED_SIGNALS]', '(getattr(signal, v1, None) for v1 in self._PRESERVED_SIGNALS)'):
        for cond in ('v0', 'v0 is not None'):
            if got == ['self._saved_signals = [%s for v0 in %s if %s]' % (pairs, inner, cond)]:
                return ok
    for cond in ('v0', 'v0 is not None'):
        for first in ('L0 = [getattr(signal, v0, None) for v0 in self._PRESERVED_SIGNALS]', 'L0 = (getattr(signal, v0, None) for v0 in self._PRESERVED_SIGNALS)'):
            if got == [first, 'self._saved_signals = [%s for v0 in L0 if %s]' % (pairs, cond)]:
                return ok
    # the explicit loop
    if len(stmts) == 3 and isinstance(stmts[0], ast.Assign) and len(stmts[0].targets) == 1 and isinstance(stmts[0].targets[0], ast.Name) \
            and U(stmts[0].value) == '[]' and U(stmts[2]) == 'self._saved_signals = %s' % stmts[0].targets[0].id:
        acc, loop = stmts[0].targets[0].id, stmts[1]
    elif len(stmts) == 2 and U(stmts[0]) == 'self._saved_signals = []':
        acc, loop = 'self._saved_signals', stmts[1]
    else:
        return bad
    if not (isinstance(loop, ast.For) and not loop.orelse and isinstance(loop.target, ast.Name) and U(loop.iter) == 'self._PRESERVED_SIGNALS'):
        return bad
    name, body = loop.target.id, list(loop.body)
    if not body:
        return bad
    # how the signal number is obtained
    g = body.pop(0)
    filtered = False
    if isinstance(g, ast.Assign) and len(g.targets) == 1 and isinstance(g.targets[0], ast.Name) and U(g.value) == 'getattr(signal, %s, None)' % name:
        sig = g.targets[0].id
    elif isinstance(g, ast.Try) and not g.orelse and not g.finalbody and len(g.body) == 1 and isinstance(g.body[0], ast.Assign) \
            and len(g.body[0].targets) == 1 and isinstance(g.body[0].targets[0], ast.Name) and U(g.body[0].value) == 'getattr(signal, %s)' % name \
            and len(g.handlers) == 1 and g.handlers[0].type is not None and U(g.handlers[0].type) == 'AttributeError' \
            and [U(x) for x in g.handlers[0].body] == ['continue']:
        sig = g.body[0].targets[0].id
        filtered = True          # a missing name never gets here, and an existing signal number is never None / falsy
    elif '\n'.join(U(x) for x in [g] + body).count('getattr(signal, %s, None)' % name) == 3:
        # the normaliser has put the local's (pure) defining expression in place of its uses
        sig = 'getattr(signal, %s, None)' % name
        body.insert(0, g)
    else:
        return bad
    append = '%s.append((%s, signal.getsignal(%s)))' % (acc, sig, sig)
    if body and isinstance(body[0], ast.If) and not body[0].orelse and _filter_ok(body[0].test, sig, negated=True) and [U(x) for x in body[0].body] == ['continue']:
        body.pop(0)
        filtered = True
    if len(body) == 1 and isinstance(body[0], ast.If) and not body[0].orelse and _filter_ok(body[0].test, sig) and [U(x) for x in body[0].body] == [append]:
        return ok
    if len(body) == 1 and filtered and U(body[0]) == append:
        return ok
    return bad


def restore_signals(fn):
    got = with_locals_renamed(body_of(fn))
    accepted = [['for L0, L1 in self._saved_signals:\n    signal.signal(L0, L1)', 'self._saved_signals = []']]
    return '.reinstallsEachThenEmptiesList' if got in accepted else '.unknown'


# ---------------------------------------------------------------- not_reentrant / trap_unhandled_errors
def not_reentrant(fn):
    ps = params(fn)
    if len(ps) != 2 or len(fn.args.defaults) != 1 or U(fn.args.defaults[0]) != '{}':
        return '[.unknown]'
    f, calls = ps
    body = body_of(fn)
    inner = [s for s in body if isinstance(s, ast.FunctionDef)]
    rest = [s for s in body if not isinstance(s, ast.FunctionDef)]
    if len(inner) != 1 or len(rest) != 1 or U(rest[0]) != 'return mergeFunctionMetadata(%s, %s)' % (f, inner[0].name):
        return '[.unknown]'
    d = inner[0]
    if d.args.args or d.args.vararg is None or d.args.kwarg is None:
        return '[.unknown]'
    va, kw = d.args.vararg.arg, d.args.kwarg.arg
    out = []
    for s in body_of(d):
        t = U(s)
        if t in ('if %s.get(%s, False):\n    raise ReentryError(%s)' % (calls, f, f), 'if %s.get(%s):\n    raise ReentryError(%s)' % (calls, f, f)):
            out.append('.raiseIfActive')
        elif t == '%s[%s] = True' % (calls, f):
            out.append('.markActive')
        elif isinstance(s, ast.Try) and not s.handlers and not s.orelse and [U(x) for x in s.body] == ['return %s(*%s, **%s)' % (f, va, kw)] \
                and [U(x) for x in s.finalbody] == ['%s[%s] = False' % (calls, f)]:
            out.append('.tryCallFinallyInactive')
        else:
            out.append('.unknown')
    return lean_list(out)


def trap_unhandled(fn):
    ps = params(fn)
    if len(ps) != 1 or fn.args.vararg is None or fn.args.kwarg is None:
        return '[.unknown]'
    f, va, kw = ps[0], fn.args.vararg.arg, fn.args.kwarg.arg
    real = infos = cls = res = errs = None
    out = []
    stmts = body_of(fn)
    for s in stmts:
        t = U(s)
        if isinstance(s, ast.Assign) and len(s.targets) == 1 and isinstance(s.targets[0], ast.Name):
            n, v = s.targets[0].id, U(s.value)
            if v == 'defer.DebugInfo' and real is None:
                real = n
                continue
            if v == '[]' and infos is None:
                infos = n
                continue
            if v == '[]' and infos is not None and errs is None:
                errs = n
                continue
        if isinstance(s, ast.ClassDef) and real and infos and cls is None and [U(b) for b in s.bases] == [real]:
            meths = {m.name: m for m in s.body if isinstance(m, ast.FunctionDef)}
            flags = [U(x) for x in s.body if isinstance(x, ast.Assign)]
            ok = set(meths) == {'__init__', '__del__'} and flags == ['_runRealDel = True']
            if ok:
                i = [U(x) for x in body_of(meths['__init__'])]
                dl = [U(x) for x in body_of(meths['__del__'])]
                ok = sorted(i) == sorted(['%s.__init__(self)' % real, '%s.append(self)' % infos]) and \
                    dl == ['if self._runRealDel:\n    %s.__del__(self)' % real]
            cls = s.name
            out.append('.subclassDebugInfoRecordingInstances' if ok else '.unknown')
            continue
        if cls and t == 'defer.DebugInfo = %s' % cls:
            out.append('.install')
            continue
        if isinstance(s, ast.Try) and not s.handlers and not s.orelse and real and len(s.body) == 1 and isinstance(s.body[0], ast.Assign) \
                and len(s.body[0].targets) == 1 and isinstance(s.body[0].targets[0], ast.Name) \
                and U(s.body[0].value) == '%s(*%s, **%s)' % (f, va, kw) and [U(x) for x in s.finalbody] == ['defer.DebugInfo = %s' % real]:
            res = s.body[0].targets[0].id
            out.append('.tryCallFinallyRestore')
            continue
        if isinstance(s, ast.For) and not s.orelse and infos and errs and isinstance(s.target, ast.Name) and U(s.iter) == infos:
            x = s.target.id
            b = [U(y) for y in s.body]
            if b == ['if %s.failResult is not None:\n    %s.append(%s)\n    %s._runRealDel = False' % (x, errs, x, x)]:
                out.append('.collectWithFailResult')
                continue
        if res and errs and t in ('return (%s, %s)' % (res, errs),):
            out.append('.returnResultAndErrors')
            continue
        out.append('.unknown')
    return lean_list(out)


# ---------------------------------------------------------------- Spinner.run
def callable_body(e, defs):
    """a callable expression -> (parameter names, statement list): a lambda, or the name of a local def"""
    if isinstance(e, ast.Lambda):
        return [a.arg for a in e.args.args], [ast.Return(value=e.body)]
    if isinstance(e, ast.Name) and e.id in defs:
        return [a.arg for a in defs[e.id].args.args], body_of(defs[e.id])
    return None, None


def is_guard(e, defs, token):
    """is `e` a one-parameter function returning a one-parameter function that calls its argument only while the run is not over?"""
    ps, b = callable_body(e, defs)
    if not ps or len(ps) != 1 or not token:
        return False
    cb = ps[0]
    inner_defs = {s.name: s for s in b if isinstance(s, ast.FunctionDef)}
    rest = [s for s in b if not isinstance(s, ast.FunctionDef)]
    if len(rest) != 1 or not isinstance(rest[0], ast.Return):
        return False
    ps2, b2 = callable_body(rest[0].value, inner_defs)
    if not ps2 or len(ps2) != 1:
        return False
    r = ps2[0]
    texts = [U(x) for x in b2]
    return texts in (['if not %s.over:\n    return %s(%s)' % (token, cb, r)],
                     ['return %s(%s) if not %s.over else None' % (cb, r, token)],
                     ['return None if %s.over else %s(%s)' % (token, cb, r)],
                     ['if %s.over:\n    return None' % token, 'return %s(%s)' % (cb, r)])


def run_function(e, defs, guard_ok, fn_params, vararg, kwarg):
    ps, b = callable_body(e, defs)
    if ps is None or ps:
        return ['.unknown']
    # the method calls on the Deferred, in order
    d = None
    calls = []
    for s in b:
        if isinstance(s, ast.Assign) and len(s.targets) == 1 and isinstance(s.targets[0], ast.Name) and d is None and not calls:
            base, cs = calls_on(s.value)
            if isinstance(base, ast.Call):
                d = s.targets[0].id
                calls.append(('create', base))
                calls += cs
                continue
        if isinstance(s, (ast.Expr, ast.Return)) and s.value is not None:
            base, cs = calls_on(s.value)
            if isinstance(base, ast.Name) and base.id == d and cs:
                calls += cs
                continue
            if isinstance(base, ast.Call) and d is None and not calls and cs:
                calls.append(('create', base))
                calls += cs
                d = '<anonymous>'
                continue
        calls.append(('unknown', None))

    def guarded(x, what):
        return isinstance(x, ast.Call) and guard_ok(x.func) and len(x.args) == 1 and not x.keywords and U(x.args[0]) == what
    out = []
    for name, c in calls:
        if name == 'create' and U(c) == 'defer.maybeDeferred(%s, *%s, **%s)' % (fn_params[2], vararg, kwarg):
            out.append('.maybeDeferred')
        elif name == 'addCallbacks':
            pair = list(c.args) if len(c.args) == 2 and not c.keywords else \
                [[k.value for k in c.keywords if k.arg == n][0] for n in ('callback', 'errback')] \
                if not c.args and sorted(k.arg for k in c.keywords) == ['callback', 'errback'] else []
            ok = len(pair) == 2 and guarded(pair[0], 'self._got_success') and guarded(pair[1], 'self._got_failure')
            out.append('.addCallbacksGuarded' if ok else '.unknown')
        elif name == 'addBoth' and len(c.args) == 1 and not c.keywords and guarded(c.args[0], 'self._stop_reactor'):
            out.append('.addBothStopGuarded')
        else:
            out.append('.unknown')
    return out


def run_skel(fn):
    ps = params(fn)
    if len(ps) != 3 or fn.args.vararg is None or fn.args.kwarg is None:
        return '.step .unknown .done', '[.unknown]'
    timeout, function = ps[1], ps[2]
    vararg, kwarg = fn.args.vararg.arg, fn.args.kwarg.arg
    st = {'token': None, 'real_stop': None, 'defs': {}, 'rf': ['.unknown']}

    def guard_ok(e):
        return is_guard(e, st['defs'], st['token'])

    def seq(stmts):
        """statement list -> Lean Skel"""
        if not stmts:
            return '.done'
        s, rest = stmts[0], stmts[1:]
        t = U(s)
        nxt = U(rest[0]) if rest else None

        def step(name, k=None):
            return '(.step %s %s)' % (name, seq(rest if k is None else k))
        if isinstance(s, ast.FunctionDef):
            st['defs'][s.name] = s
            return seq(rest)
        if isinstance(s, ast.Assign) and len(s.targets) == 1 and isinstance(s.targets[0], ast.Name) and isinstance(s.value, ast.Lambda):
            st['defs'][s.targets[0].id] = ast.FunctionDef(name=s.targets[0].id, args=s.value.args, body=[ast.Return(value=s.value.body)],
                                                         decorator_list=[], lineno=0, col_offset=0)
            return seq(rest)
        # junk = self.get_junk(); if junk: raise StaleJunkError(junk)
        if isinstance(s, ast.Assign) and len(s.targets) == 1 and isinstance(s.targets[0], ast.Name) and U(s.value) == 'self.get_junk()' \
                and nxt == 'if %s:\n    raise StaleJunkError(%s)' % (s.targets[0].id, s.targets[0].id):
            return step('.refuseIfJunk', rest[1:])
        if t == 'if self.get_junk():\n    raise StaleJunkError(self.get_junk())':
            return step('.refuseIfJunk')
        if t in ('self._success = self._UNSET', 'self._failure = self._UNSET') and nxt in ('self._success = self._UNSET', 'self._failure = self._UNSET') and t != nxt:
            return step('.resetResult', rest[1:])
        if t in ('self._success = self._failure = self._UNSET', 'self._failure = self._success = self._UNSET'):
            return step('.resetResult')
        if t == 'self._save_signals()':
            return step('.saveSignals')
        if t == 'self._timeout_call = self._reactor.callLater(%s, self._timed_out, %s, %s)' % (timeout, function, timeout):
            return step('.scheduleTimeout')
        if isinstance(s, ast.Assign) and len(s.targets) == 1 and isinstance(s.targets[0], ast.Tuple) and len(s.targets[0].elts) == 2 \
                and isinstance(s.targets[0].elts[0], ast.Name) and U(s.targets[0].elts[1]) == 'self._reactor.stop' \
                and U(s.value) == '(self._reactor.stop, self._fake_stop)':
            st['real_stop'] = s.targets[0].elts[0].id
            return step('.patchStop')
        if isinstance(s, ast.Assign) and len(s.targets) == 1 and isinstance(s.targets[0], ast.Name) and U(s.value) == 'self._reactor.stop' \
                and nxt == 'self._reactor.stop = self._fake_stop':
            st['real_stop'] = s.targets[0].id
            return step('.patchStop', rest[1:])
        if isinstance(s, ast.Assign) and len(s.targets) == 1 and isinstance(s.targets[0], ast.Name) and isinstance(s.value, ast.Call) \
                and not s.value.args and not s.value.keywords and isinstance(s.value.func, ast.Name) and st['token'] is None:
            st['token'] = s.targets[0].id
            return step('.newRunToken')
        if isinstance(s, ast.Try) and not s.handlers and not s.orelse:
            body = seq(s.body)
            fin = seq(s.finalbody)
            return '(.tryFinally %s %s %s)' % (body, fin, seq(rest))
        if isinstance(s, ast.Expr) and isinstance(s.value, ast.Call) and U(s.value.func) == 'self._reactor.callWhenRunning' \
                and len(s.value.args) == 1 and not s.value.keywords:
            st['rf'] = run_function(s.value.args[0], st['defs'], guard_ok, ps, vararg, kwarg)
            return step('.callWhenRunning')
        if t == 'self._spinning = True':
            return step('.setSpinning')
        if t == 'self._reactor.run()':
            return step('.reactorRun')
        if st['token'] and t == '%s.over = True' % st['token']:
            return step('.runOver')
        if t == 'self._spinning = False':
            return step('.clearSpinning')
        if st['real_stop'] and t == 'self._reactor.stop = %s' % st['real_stop']:
            return step('.unpatchStop')
        if t == 'self._restore_signals()':
            return step('.restoreSignals')
        if t == 'return self._get_result()':
            return step('.returnResult')
        if t == 'self._clean()':
            return step('.clean')
        return step('.unknown')

    stmts = body_of(fn)
    fixture = 'DebugTwisted(True) if self._debug else Fixture()'
    # the fixture bound by if/else to a local, then `with local:`
    if len(stmts) == 2 and isinstance(stmts[0], ast.If) and isinstance(stmts[1], ast.With) and U(stmts[0].test) == 'self._debug' \
            and len(stmts[0].body) == 1 and len(stmts[0].orelse) == 1 and all(isinstance(x, ast.Assign) and len(x.targets) == 1 for x in stmts[0].body + stmts[0].orelse) \
            and U(stmts[0].body[0].targets[0]) == U(stmts[0].orelse[0].targets[0]) \
            and U(stmts[0].body[0].value) == 'DebugTwisted(True)' and U(stmts[0].orelse[0].value) == 'Fixture()' \
            and len(stmts[1].items) == 1 and stmts[1].items[0].optional_vars is None and U(stmts[1].items[0].context_expr) == U(stmts[0].body[0].targets[0]):
        return '(.withDebugFixture %s)' % seq(stmts[1].body), lean_list(st['rf'])
    if len(stmts) == 1 and isinstance(stmts[0], ast.With) and len(stmts[0].items) == 1 and stmts[0].items[0].optional_vars is None \
            and U(stmts[0].items[0].context_expr) == fixture:
        return '(.withDebugFixture %s)' % seq(stmts[0].body), lean_list(st['rf'])
    if len(stmts) == 2 and isinstance(stmts[0], ast.Assign) and len(stmts[0].targets) == 1 and isinstance(stmts[0].targets[0], ast.Name) \
            and U(stmts[0].value) == fixture and isinstance(stmts[1], ast.With) and len(stmts[1].items) == 1 \
            and stmts[1].items[0].optional_vars is None and U(stmts[1].items[0].context_expr) == stmts[0].targets[0].id:
        return '(.withDebugFixture %s)' % seq(stmts[1].body), lean_list(st['rf'])
    return seq(stmts), lean_list(st['rf'])


def generate(repo):
    src = open(os.path.join(repo, 'testtools', 'twistedsupport', '_spinner.py')).read()
    tree = ast.parse(src)
    sp = find(tree, 'Spinner')
    run = find(sp, 'run')
    skel, rf = run_skel(run)
    n = class_const(sp, '_OBLIGATORY_REACTOR_ITERATIONS')
    return '''import TTV.Model.SpinnerSkel
/-! GENERATED by harness/pyspinner2lean.py from testtools/twistedsupport/_spinner.py on every run - do not edit.
`Spinner.run`, the callbacks it installs, `_get_result`, `_clean`, the signal helpers, `not_reentrant` and `trap_unhandled_errors`, as data. -/
namespace TTV.Generated.SpinnerSkel
open TTV.SpinnerSkel

def run : Skel :=
  %s

/-- `run` is decorated with `@not_reentrant` (and nothing else) -/
def runIsNotReentrant : Bool := %s

def runFunction : List RfStep := %s

def gotSuccess : List CbStep := %s
def gotFailure : List CbStep := %s
def stopReactor : List CbStep := %s
def timedOut : List CbStep := %s
def fakeStop : List CbStep := %s
/-- `_cancel_timeout` is `if self._timeout_call: self._timeout_call.cancel()` -/
def cancelTimeoutIsGuardedCancel : Bool := %s

def getResult : List (ResGuard × ResArm) := %s

def clean : List CleanStep := %s
/-- `Spinner._OBLIGATORY_REACTOR_ITERATIONS` -/
def obligatoryIterations : Nat := %s

def saveSignals : SaveShape := %s
def restoreSignals : RestoreShape := %s
def notReentrant : List ReentrantStep := %s
def trapUnhandledErrors : List TrapStep := %s

end TTV.Generated.SpinnerSkel
''' % (skel, 'true' if [U(d) for d in run.decorator_list] == ['not_reentrant'] else 'false', rf,
       cb_steps(find(sp, '_got_success')), cb_steps(find(sp, '_got_failure')), cb_steps(find(sp, '_stop_reactor')),
       cb_steps(find(sp, '_timed_out')), cb_steps(find(sp, '_fake_stop')),
       'true' if cancel_timeout_ok(find(sp, '_cancel_timeout')) else 'false',
       get_result(find(sp, '_get_result')), clean(find(sp, '_clean')), n if n is not None else 999999,
       save_signals(find(sp, '_save_signals')), restore_signals(find(sp, '_restore_signals')),
       not_reentrant(find(tree, 'not_reentrant')), trap_unhandled(find(tree, 'trap_unhandled_errors')))


if __name__ == '__main__':
    import sys
    print(generate(sys.argv[1] if len(sys.argv) > 1 else '/repo'))
