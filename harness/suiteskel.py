"""Python -> Lean translator for the worker side of the concurrent suites: `ConcurrentTestSuite._run_test` and
`ConcurrentStreamTestSuite._run_test` (testtools/testsuite.py).  Run on every check of C13 (through the plug-in's
`extract_tables`): the two methods are re-read from the tree under test and emitted as terms of `TTV.SuiteSkel.WSkel` into
`TTV/Generated/SuiteSkel.lean`; `C13_src_run_test` then proves that the model's worker programs are the interpretation of
exactly these terms.  Statements that are not recognised become `.unknown` (which the reference skeletons do not contain).

Recognised: docstrings, comments, `pass`; `try … finally` without handlers; `try … except <class>: …` with one handler and no
`else` / `finally` (`Exception` -> .exception, bare / `BaseException` -> .all, anything else -> .other);
`<test>.run(<process_result>)`; `<x> = testtools.ErrorHolder(<a string literal or f-string that starts with "broken-runner">,
error=sys.exc_info())` followed by `<x>.run(<process_result>)` (one action; any local name); `<queue>.put(threading.current_thread())` - the worker hands
its own Thread object back, the key under which `run()` registered it (putting `<test>`, as the code did before the table was keyed by
thread, is NOT recognised: sub-suites may be unhashable, equal or the same object);
`<process_result>.stopTestRun()` / `.startTestRun()`.  <test>, <process_result>, <queue> are the parameters, under any names.
`run()` itself is not translated.
Harmless rewrites that leave the term unchanged: renamed parameters / locals; the id string bound to a local on its own line
(`<s> = "broken-runner…"` or the f-string, a pure binding) and passed to ErrorHolder by name; the single statement
`try: B except C: H finally: F`, which Python defines as `try: (try: B except C: H) finally: F` - both give the nested skeleton.
"""
import ast, os
from harness.tfrskel import find


def broken_id(a, strs):
    """is the expression a string that starts with "broken-runner": a literal, an f-string, or a local bound to one"""
    if isinstance(a, ast.Constant) and isinstance(a.value, str):
        return a.value.startswith('broken-runner')
    if isinstance(a, ast.JoinedStr):
        return bool(a.values) and isinstance(a.values[0], ast.Constant) and str(a.values[0].value).startswith('broken-runner')
    if isinstance(a, ast.Name):
        return strs.get(a.id, False)
    return False


def holder_binding(s, strs={}):
    if isinstance(s, ast.Assign) and len(s.targets) == 1 and isinstance(s.targets[0], ast.Name) and isinstance(s.value, ast.Call):
        c = s.value
        if ast.unparse(c.func) in ('testtools.ErrorHolder', 'ErrorHolder') and len(c.args) == 1 \
                and [(k.arg, ast.unparse(k.value)) for k in c.keywords] == [('error', 'sys.exc_info()')]:
            if broken_id(c.args[0], strs):
                return s.targets[0].id
    return None


def block(stmts, p):
    stmts = [s for s in stmts if not (isinstance(s, ast.Expr) and isinstance(s.value, ast.Constant)) and not isinstance(s, ast.Pass)]
    items = []
    strs = {}           # locals bound to a string literal / f-string in this block: name -> starts with "broken-runner"
    i = 0
    while i < len(stmts):
        s = stmts[i]
        u = ast.unparse(s)
        if isinstance(s, ast.Assign) and len(s.targets) == 1 and isinstance(s.targets[0], ast.Name) \
                and (isinstance(s.value, ast.JoinedStr) or (isinstance(s.value, ast.Constant) and isinstance(s.value.value, str))):
            strs[s.targets[0].id] = broken_id(s.value, {})      # pure binding of a string: dropped
            i += 1
            continue
        h = holder_binding(s, strs)
        if h is not None and i + 1 < len(stmts) and ast.unparse(stmts[i + 1]) == '%s.run(%s)' % (h, p[1]):
            items.append('.act .runBroken')
            i += 2
            continue
        if u == '%s.run(%s)' % (p[0], p[1]):
            items.append('.act .runTest')
        elif len(p) > 2 and u in ('%s.put(threading.current_thread())' % p[2], '%s.put(current_thread())' % p[2]):
            items.append('.act .putFin')
        elif u == '%s.stopTestRun()' % p[1]:
            items.append('.act .stopTestRun')
        elif u == '%s.startTestRun()' % p[1]:
            items.append('.act .startTestRun')
        elif isinstance(s, ast.Try) and not s.handlers and not s.orelse and s.finalbody:
            items.append('.tryFinally %s %s' % (block(s.body, p), block(s.finalbody, p)))
        elif isinstance(s, ast.Try) and len(s.handlers) == 1 and not s.orelse and s.handlers[0].name is None:
            t = s.handlers[0].type
            cls = '.all' if t is None or ast.unparse(t) == 'BaseException' else '.exception' if ast.unparse(t) == 'Exception' else '.other'
            inner = '.tryExcept %s %s %s' % (cls, block(s.body, p), block(s.handlers[0].body, p))
            if s.finalbody:     # try/except/finally in one statement = try: (try/except) finally: …   (Python reference, 8.4)
                items.append('.tryFinally (%s .done) %s' % (inner, block(s.finalbody, p)))
            else:
                items.append(inner)
        else:
            items.append('.unknown')
        i += 1
    out = '.done'
    for it in reversed(items):
        out = '(%s %s)' % (it, out)
    return out


def skeleton(tree, cls):
    fn = find(tree, cls, '_run_test')
    if fn is None:
        return '(.unknown .done)'
    p = [a.arg for a in fn.args.args][1:]
    if len(p) < 2:
        return '(.unknown .done)'
    return block(fn.body, p)


def generate(repo):
    tree = ast.parse(open(os.path.join(repo, 'testtools', 'testsuite.py')).read())
    return '''import TTV.Model.SuiteSkel
/-! GENERATED by harness/suiteskel.py from testtools/testsuite.py on every run - do not edit.
The try / except / finally skeletons of `ConcurrentTestSuite._run_test` and `ConcurrentStreamTestSuite._run_test`. -/
namespace TTV.Generated.SuiteSkel
open TTV.SuiteSkel

def suiteRunTest : WSkel :=
  %s

def streamRunTest : WSkel :=
  %s

end TTV.Generated.SuiteSkel
''' % (skeleton(tree, 'ConcurrentTestSuite'), skeleton(tree, 'ConcurrentStreamTestSuite'))


if __name__ == '__main__':
    import sys
    print(generate(sys.argv[1] if len(sys.argv) > 1 else '/repo'))
