"""Python -> Lean translator for the control skeleton of `ThreadsafeForwardingResult` (testtools/testresult/real.py).
Run on every check of C12 (through the plug-in's `extract_tables`): the methods of the class are re-read from the tree under
test and emitted as terms of `TTV.TfrSkel.Skel` into `TTV/Generated/TfrSkel.lean`; the theorems `C12_src_block`, `C12_src_ctl`,
`C12_src_local` (TTV/Props/C12.lean) then prove that the model's block semantics `Conc.stepOp` is the interpretation of exactly
these terms.  Statements that are not recognised become `.unknown`, which the reference skeletons do not contain, so the proofs
break - the check then goes on to search for a failing schedule.

Recognised (everything else is `.unknown`; `try` is only accepted without handlers and without `else`):
  docstrings, comments, `pass`;
  `<name> = self._now()`                     a pure binding: dropped, <name> then stands for "now" (any name);
  `self.semaphore.acquire()` / `.release()` (and the non-blocking `acquire(blocking=False)`, which no reference skeleton has);
  `self.result.time(self._test_start)`, `self.result.time(<now name> | self._now())`, `self.result.startTest(<test>)`,
  `self.result.stopTest(<test>)`, `self.result.tags(*self._global_tags)`, `self.result.tags(*self._test_tags)`,
  `<method>(<test>, *args, **kwargs)`        with <method>, <test> the first two parameters of the function (any names);
  `self.result.startTestRun()` / `stopTestRun()` / `stop()` / `done()`; `return self.result.shouldStop` in tail position;
  `self._test_tags = set(), set()`, `self._global_tags = set(), set()`, `self._test_start = None`, `self._in_test = True|False`,
  `self._test_start = self._now()`, `self.__now = <parameter>` (TestResult.time), `super().startTestRun()`,
  `super().startTest(<test>)`, `super().stopTest(<test>)`, `super().tags(<new>, <gone>)`,
  `self._test_tags = _merge_tags(self._test_tags, (<new>, <gone>))` and the same for `_global_tags`;
  `if self._any_tags(self._global_tags):`, `if self._any_tags(self._test_tags):` (no else), `if self._in_test: … else: …`.
Harmless rewrites that leave the term unchanged: renamed locals / parameters; where the `now` binding stands; the order of
adjacent forwarder-local assignments that do not read or write the same attribute (they are emitted in a canonical order);
a local alias `<name> = self.<attr>` of an attribute that the class assigns in `__init__` only, bound once at the top level of
the method before its first use (the alias is resolved, the binding dropped); a negated condition with both branches
(`if not c: B else: A` is read as `if c: A else: B`); a call `self._helper()` of a private method of the same class that takes no
arguments and whose body is straight-line (expression statements and assignments only) is replaced by that body, once (the body
is not inlined further).
Besides the skeletons: the table "which target method each add* method forwards", and three facts about helper code
(`_any_tags`, `TestResult._now`, `TestResult.startTestRun` clearing the clock).
"""
import ast, os

CTL = {'startTestRun': '.startTestRun', 'stopTestRun': '.stopTestRun', 'stop': '.stop', 'done': '.done'}
KIND = {'addError': '.error', 'addExpectedFailure': '.xfail', 'addFailure': '.failure', 'addSkip': '.skip',
        'addSuccess': '.success', 'addUnexpectedSuccess': '.uxsuccess'}
# forwarder-local actions: (rank in the canonical order, attributes read, attributes written)
LOCAL = {'.resetTestTags': (0, '', 't'), '.resetGlobalTags': (1, '', 'g'), '.resetTestStart': (2, '', 's'),
         '(.setInTest false)': (3, '', 'i'), '(.setInTest true)': (3, '', 'i'), '.setStartNow': (4, 'n', 's'), '.resetNow': (5, '', 'n'),
         '.setNow': (6, '', 'n'), '.mergeTest': (7, 't', 't'), '.mergeGlobal': (8, 'g', 'g'), '.superLocal': (9, '', '')}


def find(tree, cls, name):
    for node in ast.walk(tree):
        if isinstance(node, ast.ClassDef) and node.name == cls:
            for f in node.body:
                if isinstance(f, ast.FunctionDef) and f.name == name:
                    return f
    return None


def body_of(fn):
    return [s for s in fn.body if not (isinstance(s, ast.Expr) and isinstance(s.value, ast.Constant) and isinstance(s.value.value, str))
            and not isinstance(s, ast.Pass)]


class Ctx:
    def __init__(self, fn, cls=None):
        a = [x.arg for x in fn.args.args][1:]
        self.params = a
        self.now = set()
        self.cls = cls          # the ClassDef the method belongs to (for inlining private helpers)
        self.inlining = False


def class_of(tree, name):
    for node in ast.walk(tree):
        if isinstance(node, ast.ClassDef) and node.name == name:
            return node
    return None


def init_only_attrs(cls):
    """attributes `self.<a>` that the class assigns in __init__ and nowhere else (so an alias of them is a pure binding)"""
    inside, outside = set(), set()
    for f in cls.body:
        if isinstance(f, ast.FunctionDef):
            for n in ast.walk(f):
                targets = []
                if isinstance(n, ast.Assign):
                    targets = n.targets
                elif isinstance(n, (ast.AugAssign, ast.AnnAssign)):
                    targets = [n.target]
                elif isinstance(n, ast.Delete):
                    targets = n.targets
                for t in targets:
                    for x in ast.walk(t):
                        if isinstance(x, ast.Attribute) and isinstance(x.value, ast.Name) and x.value.id == 'self':
                            (inside if f.name == '__init__' else outside).add(x.attr)
    return inside - outside


class _Subst(ast.NodeTransformer):
    def __init__(self, name, attr):
        self.name, self.attr = name, attr

    def visit_Name(self, node):
        if node.id == self.name and isinstance(node.ctx, ast.Load):
            return ast.copy_location(ast.Attribute(value=ast.Name(id='self', ctx=ast.Load()), attr=self.attr, ctx=ast.Load()), node)
        return node


def resolve_aliases(fn, cls):
    """drop top-level bindings `<name> = self.<attr>` (attr assigned in __init__ only, name bound exactly once in the method and not
    used before the binding) and replace the uses of <name> by `self.<attr>`; returns the new statement list"""
    if cls is None:
        return fn.body
    stable = init_only_attrs(cls)
    body = list(fn.body)
    for idx, s in enumerate(list(body)):
        if isinstance(s, ast.Assign) and len(s.targets) == 1 and isinstance(s.targets[0], ast.Name) and isinstance(s.value, ast.Attribute) \
                and isinstance(s.value.value, ast.Name) and s.value.value.id == 'self' and s.value.attr in stable:
            name = s.targets[0].id
            stores = [n for n in ast.walk(fn) if isinstance(n, ast.Name) and n.id == name and not isinstance(n.ctx, ast.Load)]
            params = [a.arg for a in fn.args.args + fn.args.kwonlyargs] + [a.arg for a in (fn.args.vararg, fn.args.kwarg) if a]
            pos = body.index(s)
            used_before = any(isinstance(n, ast.Name) and n.id == name for t in body[:pos] for n in ast.walk(t))
            if len(stores) == 1 and name not in params and not used_before:
                sub = _Subst(name, s.value.attr)
                body = [ast.fix_missing_locations(sub.visit(t)) for t in body[:pos] + body[pos + 1:]]
    return body


def helper_body(cx, s):
    """`self._helper()` with a straight-line private helper of the same class -> its statements, else None"""
    if cx.cls is None or cx.inlining or not (isinstance(s, ast.Expr) and isinstance(s.value, ast.Call)):
        return None
    c = s.value
    if c.args or c.keywords or not (isinstance(c.func, ast.Attribute) and isinstance(c.func.value, ast.Name) and c.func.value.id == 'self'):
        return None
    name = c.func.attr
    if not name.startswith('_') or name.startswith('__'):
        return None
    defs = [f for f in cx.cls.body if isinstance(f, ast.FunctionDef) and f.name == name]
    if len(defs) != 1:
        return None
    f = defs[0]
    a = f.args
    if [x.arg for x in a.args] != ['self'] or a.vararg or a.kwarg or a.kwonlyargs or f.decorator_list:
        return None
    body = body_of(f)
    if not body or not all(isinstance(t, (ast.Expr, ast.Assign)) for t in body):
        return None
    return body


def action(s, cx):
    """one simple statement -> Lean `Act` term, or None"""
    u = ast.unparse(s)
    p = cx.params
    if u == 'self.semaphore.acquire()':
        return '.acquire'
    if u in ('self.semaphore.acquire(blocking=False)', 'self.semaphore.acquire(False)', 'self.semaphore.acquire(blocking=False, timeout=None)'):
        return '.tryAcquire'     # never waits: no reference skeleton contains it, but the model can say what it does (Conc.Step.tryAcq)
    if u == 'self.semaphore.release()':
        return '.release'
    if u == 'self.result.time(self._test_start)':
        return '.callTimeStart'
    if u == 'self.result.time(self._now())' or any(u == 'self.result.time(%s)' % n for n in cx.now):
        return '.callTimeNow'
    if u == 'self.result.tags(*self._global_tags)':
        return '.callTagsGlobal'
    if u == 'self.result.tags(*self._test_tags)':
        return '.callTagsTest'
    for name, c in CTL.items():
        if u == 'self.result.%s()' % name:
            return '(.callCtl %s)' % c
    if u in ('self._test_tags = (set(), set())',):
        return '.resetTestTags'
    if u in ('self._global_tags = (set(), set())',):
        return '.resetGlobalTags'
    if u == 'self._test_start = None':
        return '.resetTestStart'
    if u == 'self._in_test = True':
        return '(.setInTest true)'
    if u == 'self._in_test = False':
        return '(.setInTest false)'
    if u == 'self._test_start = self._now()':
        return '.setStartNow'
    if u == 'super().startTestRun()':
        return '.resetNow'
    if len(p) >= 1:
        if u == 'self.__now = %s' % p[0]:
            return '.setNow'
        if u in ('super().startTest(%s)' % p[0], 'super().stopTest(%s)' % p[0]):
            return '.superLocal'
        test = p[1] if len(p) > 1 else p[0]                    # (method, test, …) resp. (test)
        if u == 'self.result.startTest(%s)' % test:
            return '.callStartTest'
        if u == 'self.result.stopTest(%s)' % test:
            return '.callStopTest'
    if len(p) >= 2:
        if u == '%s(%s, *args, **kwargs)' % (p[0], p[1]):
            return '.callOutcome'
        if u == 'super().tags(%s, %s)' % (p[0], p[1]):
            return '.superLocal'
        if u == 'self._test_tags = _merge_tags(self._test_tags, (%s, %s))' % (p[0], p[1]):
            return '.mergeTest'
        if u == 'self._global_tags = _merge_tags(self._global_tags, (%s, %s))' % (p[0], p[1]):
            return '.mergeGlobal'
    return None


def commute(a, b):
    _, ra, wa = LOCAL[a]
    _, rb, wb = LOCAL[b]
    return not (set(wa) & (set(rb) | set(wb))) and not (set(wb) & set(ra))


def canonical(items):
    """items: list of ('act', term) / other entries; adjacent independent local assignments are put into rank order"""
    items = list(items)
    changed = True
    while changed:
        changed = False
        for i in range(len(items) - 1):
            a, b = items[i], items[i + 1]
            if a[0] == 'act' and b[0] == 'act' and a[1] in LOCAL and b[1] in LOCAL and LOCAL[a[1]][0] > LOCAL[b[1]][0] and commute(a[1], b[1]):
                items[i], items[i + 1] = b, a
                changed = True
    return items


def block(stmts, cx, tail):
    """statement list -> Lean `Skel` term.  `tail`: nothing of the function follows this block"""
    items = []
    stmts = [s for s in stmts if not (isinstance(s, ast.Expr) and isinstance(s.value, ast.Constant)) and not isinstance(s, ast.Pass)]
    expanded = []
    for s in stmts:                                             # private straight-line helpers are inlined, once
        hb = helper_body(cx, s)
        if hb is not None and action(s, cx) is None:
            expanded.append(('helper', hb))
        else:
            expanded.append(('stmt', s))
    flat = []
    for kind, x in expanded:
        if kind == 'stmt':
            flat.append((x, False))
        else:
            flat.extend((t, True) for t in x)
    stmts = [t for t, _ in flat]
    from_helper = [h for _, h in flat]
    for idx, s in enumerate(stmts):
        last = idx == len(stmts) - 1
        if from_helper[idx]:
            # a helper has no parameters of its own and is not inlined further: only parameter-free actions can be recognised
            saved = cx.params, cx.inlining
            cx.params, cx.inlining = [], True
            a = action(s, cx) if isinstance(s, (ast.Expr, ast.Assign)) else None
            cx.params, cx.inlining = saved
            items.append(('act', a) if a is not None else ('unknown', None))
            continue
        if isinstance(s, ast.Assign) and len(s.targets) == 1 and isinstance(s.targets[0], ast.Name) and ast.unparse(s.value) == 'self._now()':
            cx.now.add(s.targets[0].id)                         # pure binding
            continue
        if isinstance(s, (ast.Expr, ast.Assign)):
            a = action(s, cx)
            if a is not None:
                items.append(('act', a))
                continue
        if isinstance(s, ast.Return) and last and tail and s.value is not None and ast.unparse(s.value) == 'self.result.shouldStop':
            items.append(('act', '(.callCtl .shouldStop)'))
            continue
        if isinstance(s, ast.If):
            t = ast.unparse(s.test)
            if t == 'self._any_tags(self._global_tags)' and not s.orelse:
                items.append(('if', '.ifAnyGlobal %s' % block(s.body, cx, False)))
                continue
            if t == 'self._any_tags(self._test_tags)' and not s.orelse:
                items.append(('if', '.ifAnyTest %s' % block(s.body, cx, False)))
                continue
            if t == 'self._in_test':
                items.append(('if', '.ifInTest %s %s' % (block(s.body, cx, False), block(s.orelse, cx, False))))
                continue
            if t == 'not self._in_test' and s.orelse:           # `if not c: B else: A` is `if c: A else: B`
                items.append(('if', '.ifInTest %s %s' % (block(s.orelse, cx, False), block(s.body, cx, False))))
                continue
        if isinstance(s, ast.Try) and not s.handlers and not s.orelse and s.finalbody:
            items.append(('try', '.tryFinally %s %s' % (block(s.body, cx, tail and last), block(s.finalbody, cx, False))))
            continue
        items.append(('unknown', None))
    out = '.done'
    for kind, term in reversed(canonical(items)):
        if kind == 'act':
            out = '(.act %s %s)' % (term, out)
        elif kind == 'unknown':
            out = '(.unknown %s)' % out
        else:
            out = '(%s %s)' % (term, out)
    return out


def skeleton(tree, cls, name):
    fn = find(tree, cls, name)
    if fn is None:
        return '(.unknown .done)'
    c = class_of(tree, cls)
    return block(resolve_aliases(fn, c), Ctx(fn, c), True)


def forward_table(tree):
    """[(kind of the add* method, kind of the target method it hands to _add_result_with_semaphore, whether
    `self._stop_if_failfast()` follows)] - with failfast set on the forwarder that call is `self.stop()`, one more critical
    section (`Conc.runOp`)"""
    rows = []
    for name, kind in KIND.items():
        fn = find(tree, 'ThreadsafeForwardingResult', name)
        if fn is None:
            continue
        b = body_of(fn)
        ff = len(b) == 2 and ast.unparse(b[1]) == 'self._stop_if_failfast()'
        if ff:
            b = b[:1]
        if len(b) == 1 and isinstance(b[0], ast.Expr) and isinstance(b[0].value, ast.Call):
            c = b[0].value
            params = [x.arg for x in fn.args.args][1:]
            if ast.unparse(c.func) == 'self._add_result_with_semaphore' and c.args and ast.unparse(c.args[0]).startswith('self.result.') \
                    and [ast.unparse(a) for a in c.args[1:]] == params[:-1] and [(k.arg, ast.unparse(k.value)) for k in c.keywords] == [('details', 'details')] \
                    and params[-1:] == ['details']:
                target = KIND.get(ast.unparse(c.args[0])[len('self.result.'):])
                if target is not None:
                    rows.append('(%s, %s, %s)' % (kind, target, 'true' if ff else 'false'))
    return rows


def helper_facts(tree):
    def src(cls, name):
        fn = find(tree, cls, name)
        return None if fn is None else '\n'.join(ast.unparse(s) for s in body_of(fn))
    any_tags = src('ThreadsafeForwardingResult', '_any_tags') in ('return bool(tags[0] or tags[1])',)
    now = src('TestResult', '_now') == 'if self.__now is None:\n    return datetime.datetime.now(utc)\nelse:\n    return self.__now'
    fn = find(tree, 'TestResult', 'startTestRun')
    clears = fn is not None and any(ast.unparse(s) == 'self.__now = None' for s in fn.body)
    guarded = src('ThreadsafeForwardingResult', '_stop_if_failfast') == 'if self.failfast:\n    self.stop()'
    prop = False
    cls = [n for n in ast.walk(tree) if isinstance(n, ast.ClassDef) and n.name == 'ThreadsafeForwardingResult']
    if cls:
        prop = any(ast.unparse(s) == 'shouldStop = property(_get_shouldStop, _set_shouldStop)' for s in cls[0].body)
    return any_tags, now, clears, prop, guarded


def generate(repo):
    tree = ast.parse(open(os.path.join(repo, 'testtools', 'testresult', 'real.py')).read())
    T = 'ThreadsafeForwardingResult'
    b = lambda x: 'true' if x else 'false'
    any_tags, now, clears, prop, guarded = helper_facts(tree)
    return '''import TTV.Model.TfrSkel
/-! GENERATED by harness/tfrskel.py from testtools/testresult/real.py on every run - do not edit.
The control skeletons of the methods of `ThreadsafeForwardingResult` (and `TestResult.time`), which target method each
`add*` method forwards, and four facts about helper code the model relies on. -/
namespace TTV.Generated.TfrSkel
open TTV.TfrSkel TTV.Conc

def addResult : Skel :=
  %s

def startTestRun : Skel :=
  %s

def stopTestRun : Skel :=
  %s

def stop : Skel :=
  %s

def done : Skel :=
  %s

def getShouldStop : Skel :=
  %s

def startTest : Skel :=
  %s

def stopTest : Skel :=
  %s

def tags : Skel :=
  %s

def time : Skel :=
  %s

def forward : List (Kind × Kind × Bool) := [%s]

/-- `_any_tags(tags)` is `bool(tags[0] or tags[1])` -/
def anyTagsIsEitherNonEmpty : Bool := %s
/-- `TestResult._now()` is the last value given to `time()`, the wall clock if that is `None` -/
def nowIsLastTimeOrWallClock : Bool := %s
/-- `TestResult.startTestRun` assigns `self.__now = None` -/
def startTestRunClearsClock : Bool := %s
/-- `shouldStop = property(_get_shouldStop, _set_shouldStop)` -/
def shouldStopIsTheGuardedGetter : Bool := %s
/-- `_stop_if_failfast()` is `if self.failfast: self.stop()` (with failfast set on the forwarder: one more critical section) -/
def stopIfFailfastIsGuardedStop : Bool := %s

end TTV.Generated.TfrSkel
''' % (skeleton(tree, T, '_add_result_with_semaphore'), skeleton(tree, T, 'startTestRun'), skeleton(tree, T, 'stopTestRun'),
       skeleton(tree, T, 'stop'), skeleton(tree, T, 'done'), skeleton(tree, T, '_get_shouldStop'), skeleton(tree, T, 'startTest'),
       skeleton(tree, T, 'stopTest'), skeleton(tree, T, 'tags'), skeleton(tree, 'TestResult', 'time'), ', '.join(forward_table(tree)),
       b(any_tags), b(now), b(clears), b(prop), b(guarded))


if __name__ == '__main__':
    import sys
    print(generate(sys.argv[1] if len(sys.argv) > 1 else '/repo'))
