"""Deterministic thread scheduler for the concurrency properties (C12, C13).

Real `threading.Thread`s run the real testtools code, but only the thread that holds the *baton* runs;
all others wait, each on a private semaphore.  A managed thread may pass the baton on at every *yield
point* = immediately BEFORE each operation on a shared object (semaphore acquire/release, a method of
the shared target, queue put/get, thread start/join).  There the next scheduling decision is taken (by
the thread that holds the baton at that moment; the harness thread only starts the run and waits):

    schedule = list of thread ids; entries naming a thread that is finished, unknown or blocked are
    skipped (a disabled pick is a no-op, exactly as in the Lean model `Conc.run`); when the list is used
    up the lowest enabled thread id runs (`Conc.drain`).

So one decision = one micro-step of the Lean model: the operation the chosen thread was parked at,
plus the thread-local code up to its next yield point.  A newly created thread runs *eagerly* up to its
first yield point inside the decision that created it (that code is thread-local by construction).
Deadlock is detected structurally: unfinished threads exist and none is enabled.  No time-outs decide
anything; the watchdog below only turns a hung harness into an infrastructure error.
"""
import threading

CTL = 'ctl'
WATCHDOG_S = 60
_local = threading.local()


class Deadlock(BaseException):
    """raised inside parked threads when the run is over (deadlock detected) so that they unwind"""


class Hang(RuntimeError):
    pass


class Injected(RuntimeError):
    """the fault a double raises when the fault plan says so"""


class InjectedBase(BaseException):
    """the same, outside the Exception hierarchy (like KeyboardInterrupt / SystemExit / GeneratorExit)"""


INJECTED = (Injected, InjectedBase)


def injected(tid, k):
    """the fault for the k-th call of thread tid: the class is a fixed function of the position, so that a fault plan stays
    schedule independent and every plan with two or more faults mixes both kinds"""
    return (InjectedBase if (3 * tid + k) % 2 else Injected)('injected fault')


def current_tid():
    return _local.tid


class Scheduler:
    """Baton passing with one private semaphore per thread.  The thread that reaches a yield point (or ends)
    takes the next scheduling decision itself and hands the baton directly to the chosen thread - or simply
    carries on if it chose itself - so a decision costs at most one OS-level hand-over.  All scheduler
    state is only ever touched by the thread that holds the baton."""

    def __init__(self, schedule=()):
        self.schedule = list(schedule)
        self.pos = 0
        # lanes: groups of threads, each with its own schedule (one lane unless `new_lane` is used - C13's histories of runs, where
        # the leftover workers of an aborted run go on under THEIR run's schedule while the next run follows its own).  Decisions
        # rotate over the lanes that have an enabled thread; inside a lane: the next schedule entry naming an enabled thread of
        # the lane, else its lowest enabled thread - so a lane's own sequence of decisions is what it would be without the others.
        self.lanes = [{'schedule': self.schedule, 'pos': 0}]
        self.lane_of = {}
        self.lane_pos = 0
        self.current = CTL
        self.wake = {CTL: threading.Semaphore(0)}   # who -> its private semaphore
        self.eager = {}       # tid -> spawner, while the new thread runs up to its first yield point
        self.order = []       # tids in creation order
        self.pred = {}        # parked tid -> predicate (None = always enabled)
        self.done = set()
        self.picks = []       # decisions actually taken
        self.skipped = 0      # schedule entries that named a disabled thread
        self.deadlock = None
        self.threads = {}
        self.errors = {}      # tid -> exception that escaped the thread body

    # ----- baton
    def _block(self, who):
        """wait until the baton is handed to `who`"""
        if not self.wake[who].acquire(timeout=WATCHDOG_S):
            raise Hang('scheduler watchdog: %r waited %ss for the baton (held by %r)' % (who, WATCHDOG_S, self.current))
        if self.deadlock is not None and who != CTL:
            raise Deadlock()

    def _hand(self, to):
        self.current = to
        self.wake[to].release()

    def enabled(self):
        return [t for t in self.order if t in self.pred and (self.pred[t] is None or self.pred[t]())]

    def _decide(self):
        """the next thread to run; CTL when everything is over (all finished, or deadlock)"""
        en = self.enabled()
        if not en:
            if len(self.done) < len(self.order):
                self.deadlock = [t for t in self.order if t not in self.done]
                for t in self.deadlock:          # let the parked threads unwind
                    if t in self.pred:
                        self.wake[t].release()
            return CTL
        nxt = None
        nl = len(self.lanes)
        for d in range(nl):
            li = (self.lane_pos + d) % nl
            lane = self.lanes[li]
            cand = [t for t in en if self.lane_of.get(t, self.lanes[0]) is lane]
            if not cand:
                continue
            self.lane_pos = (li + 1) % nl
            while lane['pos'] < len(lane['schedule']):
                want = lane['schedule'][lane['pos']]
                lane['pos'] += 1
                if want in cand:
                    nxt = want
                    break
                self.skipped += 1
            if nxt is None:
                nxt = min(cand)
            break
        self.pos = self.lanes[0]['pos']
        self.picks.append(nxt)
        return nxt

    def new_lane(self, schedule):
        """called by the running thread: from now on it (and the threads it spawns) follow `schedule`; the threads of the lanes
        made so far keep following theirs"""
        lane = {'schedule': list(schedule), 'pos': 0}
        self.lanes.append(lane)
        self.lane_of[_local.tid] = lane
        return lane

    def spawn(self, tid, fn, by=CTL):
        """create thread `tid` running fn(); it runs eagerly to its first yield point, then `by` continues"""
        self.wake[tid] = threading.Semaphore(0)

        def body():
            _local.tid = tid
            try:
                self._block(tid)
                fn()
            except Deadlock:
                pass
            except BaseException as e:   # noqa: recorded, reported by the plug-in
                self.errors[tid] = e
            finally:
                self.done.add(tid)
                if self.deadlock is None:
                    if tid in self.eager:            # ended before its first yield point
                        self._hand(self.eager.pop(tid))
                    else:
                        self._hand(self._decide())
        th = threading.Thread(target=body, daemon=True)
        self.threads[tid] = th
        self.lane_of[tid] = self.lane_of.get(by, self.lanes[0])
        self.order.append(tid)
        self.eager[tid] = by
        th.start()
        self._hand(tid)
        self._block(by)

    def yield_point(self, pred=None):
        """called by the running managed thread immediately before an operation on a shared object"""
        tid = _local.tid
        if self.deadlock is not None:
            raise Deadlock()
        self.pred[tid] = pred
        if tid in self.eager:                        # first yield point of a new thread: back to its creator
            self._hand(self.eager.pop(tid))
            self._block(tid)
        else:
            nxt = self._decide()
            if nxt != tid:
                self._hand(nxt)
                if nxt == CTL and self.deadlock is not None:
                    raise Deadlock()
                self._block(tid)
        del self.pred[tid]

    # ----- controller
    def run(self):
        """take decisions until every thread is finished or none is enabled; returns the deadlocked tids or None"""
        nxt = self._decide()
        if nxt != CTL:
            self._hand(nxt)
            self._block(CTL)
        for th in list(self.threads.values()):
            th.join(5)
        return self.deadlock


class SchedSemaphore(threading.Semaphore):
    """an instrumented `threading.Semaphore(1)`: the counter is the real one (the operations of threading.Semaphore are performed,
    by the thread that holds the baton); what is added is the scheduling - a blocking acquire is offered to the scheduler only
    while the counter is not 0 (so the real acquire never waits), a NON-blocking acquire and a release are always offered - and
    the observation: every operation is logged, (tid, 'acq') / (tid, 'tryacq', got it?) / (tid, 'rel'), and the counter is read
    after each (`sems`) and can be read at the end (`value`).  A release by a thread that holds nothing is performed like any
    other: the counter then exceeds 1, as it would with the stock class."""

    def __init__(self, sched, log):
        threading.Semaphore.__init__(self, 1)
        self.s, self.log, self.sems = sched, log, []

    @property
    def value(self):
        return self._value

    def acquire(self, blocking=True, timeout=None):
        if blocking:
            self.s.yield_point(lambda: self._value > 0)
            ok = threading.Semaphore.acquire(self, False)
            assert ok
            self.log.append([_local.tid, 'acq'])
        else:
            self.s.yield_point()
            ok = threading.Semaphore.acquire(self, False)
            self.log.append([_local.tid, 'tryacq', ok])
        self.sems.append(self._value)
        return ok

    def release(self, n=1):
        self.s.yield_point()
        threading.Semaphore.release(self, n)
        self.log.append([_local.tid, 'rel'])
        self.sems.append(self._value)

    __enter__ = acquire

    def __exit__(self, *a):
        self.release()


class SchedQueue:
    """queue.Queue double (unbounded FIFO)"""

    def __init__(self, sched, on_get=None):
        self.s, self.items, self.on_get = sched, [], on_get

    def put(self, x):
        self.s.yield_point()
        self.items.append(x)

    def get(self):
        if self.on_get is not None:
            self.on_get(self)          # may park without a predicate and raise (interrupt of the main thread)
        self.s.yield_point(lambda: bool(self.items))
        return self.items.pop(0)


class SchedThread:
    """threading.Thread double: start() and join() are yield points of the calling thread"""

    def __init__(self, sched, target, args, tid):
        self.s, self.target, self.args, self.tid = sched, target, args, tid

    def start(self):
        self.s.yield_point()
        self.s.spawn(self.tid, lambda: self.target(*self.args), by=_local.tid)

    def join(self, timeout=None):
        self.s.yield_point(lambda: self.tid in self.s.done)
