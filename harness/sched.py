"""Deterministic thread scheduler for the concurrency properties (C12, C13).

Real `threading.Thread`s run the real testtools code, but only the thread that holds the *baton* runs;
all others wait on one condition variable.  A managed thread gives the baton back at every *yield
point* = immediately BEFORE each operation on a shared object (semaphore acquire/release, a method of
the shared target, queue put/get, thread start/join).  A controller (the harness thread) then takes
the next scheduling decision:

    schedule = list of thread ids; entries naming a thread that is finished, unknown or blocked are
    skipped (a disabled pick is a no-op, exactly as in the Lean model `Conc.run`); when the list is used
    up the lowest enabled thread id runs (`Conc.drain`).

So one decision = one micro-step of the Lean model: the operation the chosen thread was parked at,
plus the thread-local code up to its next yield point.  A newly created thread runs *eagerly* up to its
first yield point inside the decision that created it (that code is thread-local by construction).
Deadlock is detected structurally: unfinished threads exist and none is enabled.  No time-outs decide
anything; the watchdog below only turns a hung harness into an infrastructure error.
"""
import threading

CTL = 'ctl'
WATCHDOG_S = 60
_local = threading.local()


class Deadlock(BaseException):
    """raised inside parked threads when the run is over (deadlock detected) so that they unwind"""


class Hang(RuntimeError):
    pass


class Injected(RuntimeError):
    """the fault a double raises when the fault plan says so"""


def current_tid():
    return _local.tid


class Scheduler:
    def __init__(self, schedule=()):
        self.schedule = list(schedule)
        self.pos = 0
        self.cv = threading.Condition()
        self.current = CTL
        self.back = {}        # tid -> who gets the baton back
        self.order = []       # tids in creation order
        self.pred = {}        # parked tid -> predicate (None = always enabled)
        self.done = set()
        self.picks = []       # decisions actually taken
        self.skipped = 0      # schedule entries that named a disabled thread
        self.deadlock = None
        self.threads = {}
        self.errors = {}      # tid -> exception that escaped the thread body
        self.on_finish = {}   # tid -> callback run (under the baton) when the thread ends

    # ----- baton
    def _wait_for(self, who):
        while self.current != who:
            if self.deadlock is not None and who != CTL:
                raise Deadlock()
            if not self.cv.wait(WATCHDOG_S):
                raise Hang('scheduler watchdog: %r waited %ss for the baton (held by %r)' % (who, WATCHDOG_S, self.current))

    def _give(self, to, frm):
        self.back[to] = frm
        self.current = to
        self.cv.notify_all()
        self._wait_for(frm)

    def spawn(self, tid, fn, by=CTL):
        """create thread `tid` running fn(); it runs eagerly to its first yield point, then `by` continues"""
        def body():
            _local.tid = tid
            try:
                with self.cv:
                    self._wait_for(tid)
                fn()
            except Deadlock:
                pass
            except BaseException as e:   # noqa: recorded, reported by the plug-in
                self.errors[tid] = e
            finally:
                with self.cv:
                    cb = self.on_finish.get(tid)
                    if cb is not None and self.deadlock is None:
                        cb()
                    self.done.add(tid)
                    self.current = self.back.pop(tid, CTL)
                    self.cv.notify_all()
        th = threading.Thread(target=body, daemon=True)
        self.threads[tid] = th
        self.order.append(tid)
        th.start()
        with self.cv:
            self._give(tid, by)

    def yield_point(self, pred=None):
        """called by the running managed thread immediately before an operation on a shared object"""
        tid = _local.tid
        with self.cv:
            if self.deadlock is not None:
                raise Deadlock()
            self.pred[tid] = pred
            self.current = self.back.pop(tid)
            self.cv.notify_all()
            self._wait_for(tid)
            del self.pred[tid]

    # ----- controller
    def enabled(self):
        return [t for t in self.order if t in self.pred and (self.pred[t] is None or self.pred[t]())]

    def run(self):
        """take decisions until every thread is finished or none is enabled; returns the deadlocked tids or None"""
        with self.cv:
            while True:
                if len(self.done) == len(self.order):
                    break
                en = self.enabled()
                if not en:
                    self.deadlock = [t for t in self.order if t not in self.done]
                    self.cv.notify_all()
                    break
                nxt = None
                while self.pos < len(self.schedule):
                    want = self.schedule[self.pos]
                    self.pos += 1
                    if want in en:
                        nxt = want
                        break
                    self.skipped += 1
                if nxt is None:
                    nxt = min(en)
                self.picks.append(nxt)
                self._give(nxt, CTL)
        for th in list(self.threads.values()):
            th.join(5)
        return self.deadlock


class SchedSemaphore:
    """threading.Semaphore(1) double; logs (tid, 'acq') / (tid, 'rel')"""

    def __init__(self, sched, log):
        self.s, self.log, self.holder = sched, log, None

    def acquire(self, blocking=True, timeout=None):
        self.s.yield_point(lambda: self.holder is None)
        self.holder = _local.tid
        self.log.append([_local.tid, 'acq'])
        return True

    def release(self):
        self.s.yield_point()
        self.holder = None
        self.log.append([_local.tid, 'rel'])

    __enter__ = acquire

    def __exit__(self, *a):
        self.release()


class SchedQueue:
    """queue.Queue double (unbounded FIFO)"""

    def __init__(self, sched, on_get=None):
        self.s, self.items, self.on_get = sched, [], on_get

    def put(self, x):
        self.s.yield_point()
        self.items.append(x)

    def get(self):
        if self.on_get is not None:
            self.on_get(self)          # may park without a predicate and raise (interrupt of the main thread)
        self.s.yield_point(lambda: bool(self.items))
        return self.items.pop(0)


class SchedThread:
    """threading.Thread double: start() and join() are yield points of the calling thread"""

    def __init__(self, sched, target, args, tid):
        self.s, self.target, self.args, self.tid = sched, target, args, tid

    def start(self):
        self.s.yield_point()
        self.s.spawn(self.tid, lambda: self.target(*self.args), by=_local.tid)

    def join(self, timeout=None):
        self.s.yield_point(lambda: self.tid in self.s.done)
